From PV Require Import Base.Bytes Models.Partials.

Section P.
  Variable render : bytes -> option bytes.
  Notation rp := (rp_loop render).

  Lemma rp_loop_keys t ps : forall acc m,
    rp t ps acc = Some m ->
    (forall x, In x (keys m) <-> In x ps \/ In x (keys acc)).
  Proof.
    induction ps as [|p r IH]; simpl; intros acc m H x.
    - inversion H; subst; intuition.
    - destruct (render (partial_name t p)) as [b|]; [|discriminate].
      rewrite (IH _ _ H x), keys_insert_In. intuition; subst; auto.
  Qed.

  Lemma rp_loop_nodup t ps : forall acc m,
    rp t ps acc = Some m -> NoDup (keys acc) -> NoDup (keys m).
  Proof.
    induction ps as [|p r IH]; simpl; intros acc m H Hn.
    - inversion H; subst; exact Hn.
    - destruct (render (partial_name t p)) as [b|]; [|discriminate].
      eapply IH; [exact H|apply NoDup_keys_insert; exact Hn].
  Qed.

  Lemma rp_loop_content t ps : forall acc m,
    rp t ps acc = Some m ->
    forall p, (In p ps -> lookup p m = render (partial_name t p)) /\
              (~ In p ps -> lookup p m = lookup p acc).
  Proof.
    induction ps as [|q r IH]; simpl; intros acc m H p.
    - inversion H; subst; split; [intros []|reflexivity].
    - destruct (render (partial_name t q)) as [b|] eqn:Eq; [|discriminate].
      destruct (IH _ _ H p) as [Hin Hout].
      destruct (in_dec (list_eq_dec ascii_dec) p r) as [Hr|Hr].
      + split; [intros _; apply Hin; exact Hr|intros Hn; exfalso; apply Hn; right; exact Hr].
      + split.
        * intros [->|Hpr]; [|contradiction].
          rewrite (Hout Hr), lookup_insert_same; symmetry; exact Eq.
        * intros Hn. rewrite (Hout Hr). apply lookup_insert_other.
          intros ->; apply Hn; left; reflexivity.
  Qed.

  Lemma rp_loop_none t ps : forall acc,
    rp t ps acc = None <-> exists p, In p ps /\ render (partial_name t p) = None.
  Proof.
    induction ps as [|q r IH]; simpl; intros acc.
    - split; [discriminate|intros [p [[] _]]].
    - destruct (render (partial_name t q)) as [b|] eqn:Eq.
      + rewrite IH; split.
        * intros [p [Hp Hn]]; exists p; auto.
        * intros [p [[->|Hp] Hn]]; [congruence|exists p; auto].
      + split; [intros _; exists q; auto|reflexivity].
  Qed.

  Theorem keys_exact t ps m :
    render_partials render t ps = Some m ->
    NoDup (keys m) /\ forall x, In x (keys m) <-> In x ps.
  Proof.
    unfold render_partials; intros H; split.
    - eapply rp_loop_nodup; [exact H|constructor].
    - intros x; rewrite (rp_loop_keys _ _ _ _ H x); simpl; intuition.
  Qed.

  Theorem content_alone t ps m :
    render_partials render t ps = Some m ->
    forall p, In p ps -> lookup p m = render (partial_name t p).
  Proof.
    unfold render_partials; intros H p; apply (rp_loop_content _ _ _ _ H p).
  Qed.

  Theorem error_atomic t ps :
    render_partials render t ps = None <->
    exists p, In p ps /\ render (partial_name t p) = None.
  Proof. apply rp_loop_none. Qed.

  Theorem empty_request t : render_partials render t [] = Some [].
  Proof. reflexivity. Qed.

  Theorem order_irrelevant t ps ps' :
    (forall x, In x ps <-> In x ps') ->
    res_equiv (render_partials render t ps) (render_partials render t ps').
  Proof.
    intros Hs.
    destruct (render_partials render t ps) as [m|] eqn:E;
    destruct (render_partials render t ps') as [m'|] eqn:E'; simpl.
    - intros k.
      destruct (in_dec (list_eq_dec ascii_dec) k ps) as [Hk|Hk].
      + rewrite (content_alone _ _ _ E k Hk).
        rewrite (content_alone _ _ _ E' k (proj1 (Hs k) Hk)). reflexivity.
      + assert (Hk' : ~ In k ps') by (rewrite <- Hs; exact Hk).
        destruct (lookup k m) as [v|] eqn:L.
        * exfalso; apply Hk. apply (proj2 (keys_exact _ _ _ E)).
          apply lookup_In_keys; eauto.
        * destruct (lookup k m') as [v'|] eqn:L'; [|reflexivity].
          exfalso; apply Hk'. apply (proj2 (keys_exact _ _ _ E')).
          apply lookup_In_keys; eauto.
    - apply error_atomic in E'. destruct E' as [p [Hp Hn]].
      apply Hs in Hp. rewrite (proj2 (error_atomic t ps)) in E; [discriminate|eauto].
    - apply error_atomic in E. destruct E as [p [Hp Hn]].
      apply Hs in Hp. rewrite (proj2 (error_atomic t ps')) in E'; [discriminate|eauto].
    - exact I.
  Qed.
End P.

(* State that survives between calls: if the RESULT of Render does not depend on
   it, RenderPartials after any history, from any initial state, is the pure loop. *)
Section PS.
  Variable St : Type.
  Variable renderS : St -> bytes -> St * option bytes.
  Variable loadS : St -> bytes -> St.
  Variable render : bytes -> option bytes.
  Hypothesis render_pure : forall s n, snd (renderS s n) = render n.

  Lemma rp_loopS_pure t ps : forall s acc,
    snd (rp_loopS St renderS s t ps acc) = rp_loop render t ps acc.
  Proof.
    induction ps as [|p r IH]; simpl; intros s acc.
    - reflexivity.
    - pose proof (render_pure s (partial_name t p)) as Hp.
      destruct (renderS s (partial_name t p)) as [s' [b|]]; simpl in Hp; rewrite <- Hp.
      + apply IH.
      + reflexivity.
  Qed.

  Theorem history_independent s0 h t ps :
    snd (render_partialsS St renderS (after St renderS loadS s0 h) t ps) = render_partials render t ps.
  Proof. unfold render_partialsS, render_partials. apply rp_loopS_pure. Qed.
End PS.

(* Without that hypothesis the statement is false.  Two witnesses, both with the
   state a natural number:
   - [shared_render]: the state is the number of items pushed so far onto ONE data
     object handed to every partial; "list" pushes an item and prints the length,
     "count" prints the length;
   - [lazy_render]: the state tells whether the templates have been loaded; a
     lookup that does not load first finds nothing on an engine that is fresh. *)
Definition digit (n : nat) : bytes :=
  match n with 0 => B "0" | 1 => B "1" | 2 => B "2" | 3 => B "3" | _ => B "many" end.

Definition shared_render (s : nat) (n : bytes) : nat * option bytes :=
  if beqb n (B "cart.partial/list") then (S s, Some (digit (S s)))
  else if beqb n (B "cart.partial/count") then (s, Some (digit s))
  else (s, None).

(* the same two templates when every call converts its own copy of the data *)
Definition alone_render (n : bytes) : option bytes := snd (shared_render 2 n).

Lemma shared_state_refuted :
  exists ps p m,
    snd (render_partialsS nat shared_render 2 (B "cart") ps) = Some m /\
    In p ps /\ lookup p m <> alone_render (partial_name (B "cart") p).
Proof.
  exists [B "list"; B "count"], (B "count"), [(B "list", B "3"); (B "count", B "3")].
  split; [vm_compute; reflexivity|].
  split; [right; left; reflexivity|].
  vm_compute. discriminate.
Qed.

Example shared_state_duplicate :
  snd (render_partialsS nat shared_render 2 (B "cart") [B "list"; B "list"]) = Some [(B "list", B "many")]
  /\ alone_render (B "cart.partial/list") = Some (B "3").
Proof. vm_compute. split; reflexivity. Qed.

Definition lazy_render (loaded : nat) (n : bytes) : nat * option bytes :=
  match loaded with
  | 0 => (0, None)                         (* looked up before anything was loaded *)
  | _ => (loaded, alone_render n)
  end.

Lemma fresh_engine_refuted :
  exists ps, (forall p, In p ps -> alone_render (partial_name (B "cart") p) <> None) /\
    snd (render_partialsS nat lazy_render 0 (B "cart") ps) = None /\
    render_partials alone_render (B "cart") ps <> None.
Proof.
  exists [B "count"]. split.
  - intros p [<-|[]]. vm_compute. discriminate.
  - split; vm_compute; [reflexivity|discriminate].
Qed.

(* non-vacuity of the hypothesis of [history_independent]: a stateful Render whose result is pure *)
Definition counting_render (s : nat) (n : bytes) : nat * option bytes := (S s, alone_render n).

Example nv_history :
  snd (render_partialsS nat counting_render
         (after nat counting_render (fun s _ => s + 7) 0
                [CPartials (B "cart") [B "nope"]; CLoad (B "cart"); CRender (B "cart.partial/list")])
         (B "cart") [B "list"; B "count"; B "list"])
  = Some [(B "list", B "3"); (B "count", B "2")].
Proof. vm_compute. reflexivity. Qed.

(* non-vacuity: a concrete render table with one missing partial *)
Definition nv_render (n : bytes) : option bytes :=
  if beqb n (B "home.partial/a") then Some (B "<p>A</p>")
  else if beqb n (B "home.partial/b") then Some (B "<p>B</p>")
  else None.

Example nv_ok :
  render_partials nv_render (B "home") [B "b"; B "a"; B "b"] =
  Some [(B "b", B "<p>B</p>"); (B "a", B "<p>A</p>")].
Proof. vm_compute. reflexivity. Qed.

Example nv_err : render_partials nv_render (B "home") [B "a"; B "zz"] = None.
Proof. vm_compute. reflexivity. Qed.

(* Which partials exist: Render = exact lookup in the set of compiled templates (one
   key per file of the tree), then execution.  The result of RenderPartials is then
   determined by plain membership of the literal names T.partial/p in the tree. *)
Section L.
  Variable tree : list bytes.
  Variable exec : bytes -> option bytes.
  Notation rl := (render_lookup tree exec).

  Lemma render_lookup_none n : rl n = None <-> mem n tree = false \/ exec n = None.
  Proof.
    unfold render_lookup. destruct (mem n tree) eqn:M.
    - split; [intros H; right; exact H|intros [H|H]; [discriminate|exact H]].
    - split; [intros _; left; reflexivity|reflexivity].
  Qed.

  Lemma render_lookup_some n b : rl n = Some b -> mem n tree = true /\ exec n = Some b.
  Proof.
    unfold render_lookup. destruct (mem n tree) eqn:M; [intros H; split; [reflexivity|exact H]|discriminate].
  Qed.

  Theorem unknown_name_errors t ps :
    (exists p, In p ps /\ ~ In (partial_name t p) tree) ->
    render_partials rl t ps = None.
  Proof.
    intros [p [Hp Hn]]. apply error_atomic. exists p. split; [exact Hp|].
    apply render_lookup_none. left. apply mem_false_In. exact Hn.
  Qed.

  Theorem spec_tree t ps : spec17 tree exec t ps (render_partials rl t ps).
  Proof.
    destruct (render_partials rl t ps) as [m|] eqn:E; simpl.
    - destruct (keys_exact _ _ _ _ E) as [Hnd Hk].
      pose proof (content_alone _ _ _ _ E) as Hc.
      assert (Hs : forall p, In p ps -> exists b, rl (partial_name t p) = Some b /\ lookup p m = Some b).
      { intros p Hp. pose proof (proj2 (Hk p) Hp) as Hin.
        apply lookup_In_keys in Hin. destruct Hin as [b Hb].
        exists b. split; [rewrite <- (Hc p Hp); exact Hb|exact Hb]. }
      split; [|split; [exact Hnd|split; [exact Hk|]]].
      + intros p Hp. destruct (Hs p Hp) as [b [Hr _]].
        unfold partial_exists. apply render_lookup_some in Hr. exact (proj1 Hr).
      + intros p Hp. destruct (Hs p Hp) as [b [Hr Hl]].
        apply render_lookup_some in Hr. destruct Hr as [_ Hx].
        split; [rewrite Hl, Hx; reflexivity|rewrite Hl; discriminate].
    - apply error_atomic in E. destruct E as [p [Hp Hn]].
      exists p. split; [exact Hp|]. apply render_lookup_none in Hn. exact Hn.
  Qed.

  (* ... and the result is a success exactly when every requested literal name is a file
     of the tree whose template executes *)
  Theorem success_iff_all_exist t ps :
    (exists m, render_partials rl t ps = Some m) <->
    forall p, In p ps -> In (partial_name t p) tree /\ exec (partial_name t p) <> None.
  Proof.
    split.
    - intros [m E] p Hp. pose proof (spec_tree t ps) as S. rewrite E in S; simpl in S.
      destruct S as [Hex [_ [_ Hc]]]. split.
      + apply mem_In. exact (Hex p Hp).
      + destruct (Hc p Hp) as [He Hne]. rewrite <- He. exact Hne.
    - intros H. destruct (render_partials rl t ps) as [m|] eqn:E; [exists m; reflexivity|].
      exfalso. apply error_atomic in E. destruct E as [p [Hp Hn]].
      destruct (H p Hp) as [Hin Hx]. apply render_lookup_none in Hn.
      destruct Hn as [Hn|Hn]; [apply mem_false_In in Hn; contradiction|contradiction].
  Qed.
End L.

(* The exact lookup is needed: a Render that resolves the requested name like a file
   path accepts requests for partials that do not exist ("b/", "./a", "x/../b", the page
   itself as "../cart", a partial of another template) and hands out content for them. *)
Definition nv_tree : list bytes :=
  [B "cart"; B "cart.partial/a"; B "cart.partial/b"; B "cart.partial/x/y"; B "other"; B "other.partial/z"].

Definition nv_exec (n : bytes) : option bytes := Some (B "<" ++ n ++ B ">").

Lemma resolving_lookup_refuted :
  exists ps m,
    (forall p, In p ps -> partial_exists nv_tree (B "cart") p = false) /\
    render_partials (resolving_lookup nv_tree nv_exec) (B "cart") ps = Some m /\
    render_partials (render_lookup nv_tree nv_exec) (B "cart") ps = None.
Proof.
  exists [B "b/"; B "./a"; B "nothing/../b"; B "x//y"; B "../cart"; B "../other.partial/z"].
  eexists. split; [|split].
  - intros p Hp. repeat (destruct Hp as [<-|Hp]; [vm_compute; reflexivity|]). destruct Hp.
  - vm_compute. reflexivity.
  - vm_compute. reflexivity.
Qed.

(* non-vacuity: literal names decide; decorated names and decorated template names do not exist *)
Example nv_tree_ok :
  render_partials (render_lookup nv_tree nv_exec) (B "cart") [B "x/y"; B "a"] =
  Some [(B "x/y", B "<cart.partial/x/y>"); (B "a", B "<cart.partial/a>")].
Proof. vm_compute. reflexivity. Qed.

Example nv_tree_decorated :
  map (fun tp => render_partials (render_lookup nv_tree nv_exec) (fst tp) [B "a"; snd tp])
      [(B "cart", B "a/"); (B "cart", B ""); (B "cart", B "A"); (B "cart", B "a.ast.json");
       (B "./cart", B "b"); (B "cart/", B "b"); (B "Cart", B "b"); (B "", B "b")]
  = [None; None; None; None; None; None; None; None].
Proof. vm_compute. reflexivity. Qed.

Example nv_resolve :
  map resolve_path [B "cart.partial/b/"; B "cart.partial/./a"; B "cart.partial/../cart"; B "./cart.partial/a/."]
  = [B "cart.partial/b"; B "cart.partial/a"; B "cart"; B "cart.partial/a"].
Proof. vm_compute. reflexivity. Qed.

(* The engine's template set as state (Models.Partials, Section Engine): explicit loads -
   full and filtered, of the page, of a partial, of any prefix - between the calls. *)
Lemma prefixb_refl n : prefixb n n = true.
Proof. apply prefixb_spec. exists []. symmetry. apply app_nil_r. Qed.

Lemma mem_same l l' n : (forall x, In x l <-> In x l') -> mem n l = mem n l'.
Proof.
  intros H. destruct (mem n l') eqn:M.
  - apply mem_In. apply H. apply mem_In. exact M.
  - apply mem_false_In. intros Hin. apply mem_false_In in M. apply M. apply H. exact Hin.
Qed.

Lemma partial_name_nonempty t p : partial_name t p <> [].
Proof.
  unfold partial_name. intros H. apply app_eq_nil in H. destruct H as [_ H].
  apply app_eq_nil in H. destruct H as [H _]. discriminate H.
Qed.

Section E.
  Variable tree : list bytes.
  Variable exec : bytes -> option bytes.
  Notation rl := (render_lookup tree exec).
  Notation eng := (render_eng tree exec).

  Lemma complete_inv s : complete tree s -> inv tree s.
  Proof. intros H _. exact H. Qed.

  Lemma fresh_inv : inv tree fresh.
  Proof. intros H. discriminate H. Qed.

  Lemma full_complete : complete tree (true, Some tree).
  Proof. split; [reflexivity|]. exists tree. split; [reflexivity|intros n; reflexivity]. Qed.

  Lemma found_complete s n : complete tree s -> found exec s n = rl n.
  Proof.
    intros [_ [l [Hs Hl]]]. unfold found, render_lookup. rewrite Hs, (mem_same l tree n Hl). reflexivity.
  Qed.

  (* the repaired load keeps the invariant: a full load makes the engine complete, a filtered load
     does not touch the flag and replaces what the filter covers by what it covers in the tree *)
  Lemma load_inv s f : inv tree s -> inv tree (load tree s f).
  Proof.
    intros Hi. unfold load, load_gen. destruct f as [|c f].
    - destruct (fst s) eqn:Fl; [exact Hi|]. apply complete_inv. apply full_complete.
    - intros Hf. cbn [fst] in Hf. rewrite orb_false_r in Hf.
      destruct (Hi Hf) as [_ [l [Hs Hl]]]. split; [cbn [fst]; rewrite Hf; reflexivity|].
      cbn [snd]. rewrite Hs. eexists. split; [reflexivity|].
      intros n. rewrite in_app_iff, !filter_In, Hl.
      destruct (prefixb (c :: f) n); simpl; intuition discriminate.
  Qed.

  (* production mode: a render on an engine that satisfies the invariant leaves it complete
     (loading everything first if it is not marked as loaded) and is the exact lookup *)
  Lemma render_prod_inv s n :
    inv tree s -> complete tree (fst (eng false s n)) /\ snd (eng false s n) = rl n.
  Proof.
    intros Hi. unfold render_eng. cbn [fst snd].
    assert (Hc : complete tree (if fst s then s else (true, Some tree))).
    { destruct (fst s) eqn:Fl; [apply Hi; exact Fl|apply full_complete]. }
    split; [exact Hc|apply found_complete; exact Hc].
  Qed.

  Lemma rp_loopS_prod_inv t ps : forall s acc,
    inv tree s ->
    inv tree (fst (rp_loopS tset (eng false) s t ps acc)) /\
    snd (rp_loopS tset (eng false) s t ps acc) = rp_loop rl t ps acc.
  Proof.
    induction ps as [|p r IH]; cbn [rp_loopS rp_loop]; intros s acc Hi.
    - split; [exact Hi|reflexivity].
    - destruct (render_prod_inv s (partial_name t p) Hi) as [Hc Hr].
      destruct (eng false s (partial_name t p)) as [s' [b|]]; cbn [fst snd] in Hc, Hr; rewrite <- Hr.
      + apply IH. apply complete_inv. exact Hc.
      + split; [apply complete_inv; exact Hc|reflexivity].
  Qed.

  Lemma do_call_inv s c :
    inv tree s -> inv tree (do_call tset (eng false) (load tree) s c).
  Proof.
    intros Hi. destruct c as [n|t ps|f]; cbn [do_call].
    - apply complete_inv. apply render_prod_inv. exact Hi.
    - unfold render_partialsS. apply rp_loopS_prod_inv. exact Hi.
    - apply load_inv. exact Hi.
  Qed.

  Lemma after_cons s c h :
    after tset (eng false) (load tree) s (c :: h)
    = after tset (eng false) (load tree) (do_call tset (eng false) (load tree) s c) h.
  Proof. reflexivity. Qed.

  Lemma after_inv h : forall s,
    inv tree s -> inv tree (after tset (eng false) (load tree) s h).
  Proof.
    induction h as [|c h IH]; intros s Hi; [exact Hi|].
    rewrite after_cons. apply IH. apply do_call_inv. exact Hi.
  Qed.

  (* an engine that satisfies the invariant - a fresh one, one that holds all templates - keeps
     answering like the pure loop with the exact lookup in the tree, whatever loads (full, filtered
     by the page name, by a partial, by any prefix; also as the very first call), renders and
     partial requests come before *)
  Theorem reloads_harmless s0 h t ps :
    inv tree s0 ->
    snd (render_partialsS tset (eng false) (after tset (eng false) (load tree) s0 h) t ps)
    = render_partials rl t ps.
  Proof.
    intros Hi. unfold render_partialsS, render_partials.
    apply rp_loopS_prod_inv. apply after_inv. exact Hi.
  Qed.

  Theorem every_history h t ps :
    snd (render_partialsS tset (eng false) (after tset (eng false) (load tree) fresh h) t ps)
    = render_partials rl t ps.
  Proof. apply reloads_harmless. apply fresh_inv. Qed.

  (* debug mode: every render reloads the templates that have its own name as prefix, so the
     lookup is exact in EVERY state of the engine *)
  Lemma render_debug_any s n : n <> [] -> snd (eng true s n) = rl n.
  Proof.
    intros Hn. unfold render_eng. destruct n as [|c n]; [congruence|].
    assert (Hm : forall l, mem (c :: n) (filter (prefixb (c :: n)) tree ++ l) = true <-> In (c :: n) tree \/ In (c :: n) l).
    { intros l. rewrite mem_In, in_app_iff, filter_In, prefixb_refl. intuition. }
    unfold render_lookup, load, load_gen, found. cbn [snd].
    set (old := match snd s with
                | Some l => filter (fun x => negb (prefixb (c :: n) x)) l
                | None => []
                end).
    assert (Hold : ~ In (c :: n) old).
    { unfold old. destruct (snd s) as [l|]; [|intros []].
      intros H. apply filter_In in H. rewrite prefixb_refl in H. destruct H as [_ H]. discriminate H. }
    destruct (mem (c :: n) tree) eqn:M.
    - rewrite (proj2 (Hm old)); [reflexivity|left; apply mem_In; exact M].
    - destruct (mem (c :: n) (filter (prefixb (c :: n)) tree ++ old)) eqn:M'; [|reflexivity].
      exfalso. apply Hm in M'. destruct M' as [H|H]; [|contradiction].
      apply mem_false_In in M. contradiction.
  Qed.

  Lemma rp_loopS_debug t ps : forall s acc,
    snd (rp_loopS tset (eng true) s t ps acc) = rp_loop rl t ps acc.
  Proof.
    induction ps as [|p r IH]; cbn [rp_loopS rp_loop]; intros s acc; [reflexivity|].
    pose proof (render_debug_any s (partial_name t p) (partial_name_nonempty t p)) as Hr.
    destruct (eng true s (partial_name t p)) as [s' [b|]]; cbn [snd] in Hr; rewrite <- Hr; [apply IH|reflexivity].
  Qed.

  Theorem debug_engine_any_state s t ps :
    snd (render_partialsS tset (eng true) s t ps) = render_partials rl t ps.
  Proof. apply rp_loopS_debug. Qed.
End E.

(* The repair dd313c0 is needed: with a loader that marks the engine as loaded on EVERY load
   ([load_unrepaired], the code before), a filtered load as the first call leaves a production
   engine with the filtered templates only. *)
Lemma filtered_first_unrepaired_refuted :
  exists f ps,
    (forall p, In p ps -> partial_exists nv_tree (B "cart") p = true) /\
    snd (render_partialsS tset (render_eng nv_tree nv_exec false)
           (after tset (render_eng nv_tree nv_exec false) (load_unrepaired nv_tree) fresh [CLoad f]) (B "cart") ps) = None /\
    snd (render_partialsS tset (render_eng nv_tree nv_exec false)
           (after tset (render_eng nv_tree nv_exec false) (load nv_tree) fresh [CLoad f]) (B "cart") ps) <> None.
Proof.
  exists (B "cart.partial/a"), [B "a"; B "b"]. split; [|split].
  - intros p [<-|[<-|[]]]; vm_compute; reflexivity.
  - vm_compute. reflexivity.
  - vm_compute. discriminate.
Qed.

(* ... and the prefix in compileDir is needed: a filtered load that compiles only the template
   whose name EQUALS the filter, while the old set is still pruned by prefix, loses the partials
   of the page on LoadTemplates(page) - on an engine that held everything. *)
Lemma exact_reload_refuted :
  exists ps,
    (forall p, In p ps -> partial_exists nv_tree (B "cart") p = true) /\
    complete nv_tree (true, Some nv_tree) /\
    snd (render_partialsS tset (render_eng nv_tree nv_exec false)
           (after tset (render_eng nv_tree nv_exec false) (load_exact nv_tree) (true, Some nv_tree) [CLoad (B "cart")])
           (B "cart") ps) = None /\
    snd (render_partialsS tset (render_eng nv_tree nv_exec false)
           (after tset (render_eng nv_tree nv_exec false) (load nv_tree) (true, Some nv_tree) [CLoad (B "cart")])
           (B "cart") ps) <> None.
Proof.
  exists [B "a"; B "x/y"]. split; [|split; [|split]].
  - intros p [<-|[<-|[]]]; vm_compute; reflexivity.
  - apply full_complete.
  - vm_compute. reflexivity.
  - vm_compute. discriminate.
Qed.

(* non-vacuity: filtered loads first, reload of the page, of a partial, of a prefix, of nothing *)
Example nv_reloads :
  snd (render_partialsS tset (render_eng nv_tree nv_exec false)
         (after tset (render_eng nv_tree nv_exec false) (load nv_tree) fresh
            [CLoad (B "cart.partial/a"); CLoad (B "other"); CLoad []; CLoad (B "cart"); CRender (B "other");
             CLoad (B "cart.partial/a"); CLoad (B "ca"); CLoad (B "zz"); CLoad []])
         (B "cart") [B "b"; B "a"])
  = Some [(B "b", B "<cart.partial/b>"); (B "a", B "<cart.partial/a>")]
  /\ after tset (render_eng nv_tree nv_exec false) (load nv_tree) fresh [CLoad (B "cart.partial/a")]
     = (false, Some [B "cart.partial/a"])
  /\ after tset (render_eng nv_tree nv_exec false) (load_unrepaired nv_tree) fresh [CLoad (B "cart.partial/a")]
     = (true, Some [B "cart.partial/a"]).
Proof. vm_compute. repeat split; reflexivity. Qed.

Example nv_debug_engine :
  snd (render_partialsS tset (render_eng nv_tree nv_exec true)
         (after tset (render_eng nv_tree nv_exec true) (load nv_tree) fresh [CLoad (B "cart.partial/a"); CRender (B "other")])
         (B "cart") [B "b"; B "nope"; B "a"]) = None
  /\ snd (render_partialsS tset (render_eng nv_tree nv_exec true) (false, Some [B "other"]) (B "cart") [B "b"; B "a"])
     = Some [(B "b", B "<cart.partial/b>"); (B "a", B "<cart.partial/a>")].
Proof. vm_compute. split; reflexivity. Qed.

(* A request that goes away.  Engine.Render looks at the request's context where it waits for a
   render slot (select between ctx.Done() and the rate limiter); once the context is over (client
   gone, deadline passed - before the call, between two partials, while waiting behind other
   renders) every further Render of the request may be REFUSED, and which of two ready branches Go
   takes is not determined.  So Render is not a function of the name any more: its state carries
   the context, the slots other renders hold, the scheduler's choices.  Whatever that state is and
   however it evolves: as long as a render either gives the partial's own content or is refused,
   RenderPartials gives the complete answer of the pure loop or an error with no content - never
   a part of the requested partials. *)
Section Gone.
  Variable St : Type.
  Variable renderS : St -> bytes -> St * option bytes.
  Variable render : bytes -> option bytes.
  Hypothesis render_or_refuse :
    forall s n, snd (renderS s n) = render n \/ snd (renderS s n) = None.

  Lemma rp_loopS_gone t ps : forall s acc,
    snd (rp_loopS St renderS s t ps acc) = rp_loop render t ps acc \/
    snd (rp_loopS St renderS s t ps acc) = None.
  Proof.
    induction ps as [|p r IH]; simpl; intros s acc.
    - left; reflexivity.
    - destruct (render_or_refuse s (partial_name t p)) as [H|H];
        destruct (renderS s (partial_name t p)) as [s' [b|]]; simpl in H.
      + rewrite <- H. apply IH.
      + rewrite <- H. left; reflexivity.
      + discriminate.
      + right; reflexivity.
  Qed.

  Theorem gone_all_or_nothing s t ps :
    snd (render_partialsS St renderS s t ps) = render_partials render t ps \/
    snd (render_partialsS St renderS s t ps) = None.
  Proof. unfold render_partialsS, render_partials. apply rp_loopS_gone. Qed.
End Gone.

(* Counter-model: a loop that, when a render is refused because the request is gone, stops and
   hands out what it has so far without an error ("nobody reads the response anyway"). *)
Fixpoint rp_loopS_break (St : Type) (renderS : St -> bytes -> St * option bytes) (over : St -> bool)
    (s : St) (t : bytes) (ps : list bytes) (acc : list (bytes * bytes)) : option (list (bytes * bytes)) :=
  match ps with
  | [] => Some acc
  | p :: r =>
    match renderS s (partial_name t p) with
    | (s', None) => if over s' then Some acc else None
    | (s', Some b) => rp_loopS_break St renderS over s' t r (insert p b acc)
    end
  end.

(* state = number of renders the request still gets through before its context is over *)
Definition leaving_render (s : nat) (n : bytes) : nat * option bytes :=
  match s with 0 => (0, None) | S k => (k, Some (B "content")) end.

Lemma gone_break_refuted :
  exists ps p m,
    rp_loopS_break nat leaving_render (Nat.eqb 0) 1 (B "cart") ps [] = Some m /\
    In p ps /\ lookup p m = None.
Proof.
  exists [B "price"; B "stock"], (B "stock"), [(B "price", B "content")].
  split; [vm_compute; reflexivity|split; [simpl; auto|vm_compute; reflexivity]].
Qed.
