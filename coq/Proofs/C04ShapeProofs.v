(* C04: for an expression that denotes a run-time VALUE the compiler has no choice — escaped buffered code is lowered
   to ONE action whose pipeline ends in the escaper, whatever the operator and whatever the operands are.
   (Separate from Proofs/C04Proofs.v, which other proof files import.) *)
From PV Require Import Base.Bytes Base.Escape Js.Ast Tmpl.Value Tmpl.IR Tmpl.Runtime Tmpl.Exec Pug.Ast Pug.Compile
  Proofs.EscapeProofs Proofs.C04Proofs.

(* the expressions that denote a value computed at run time: everything but the literals (written at compile time)
   and the statements (declarations, assignments, ++ / --) *)
Definition value_expr (e : jexpr) : bool :=
  match e with
  | JId _ | JTpl _ | JArr _ | JObj _ | JDot _ _ | JIdx _ _ | JCall _ _ | JNew _ _ | JBin _ _ _ | JCond _ _ _ => true
  | JUn UNot _ _ | JUn UNeg _ _ => true
  | _ => false
  end.

Section Shape.
  Variable funcs : list bytes.

  (* number, boolean, null literals and comparisons as operands included: the compiler never reasons that a value
     `cannot be a string` *)
  Lemma cwrap_value_expr_escaped e toks :
    value_expr e = true -> cwrap funcs false e = Some toks ->
    exists txt p, toks = [TAct txt false false (AcPipe p)] /\ ends_in_escaper p.
  Proof.
    intros Hv H. destruct e; cbn [value_expr] in Hv; try discriminate; cbn [cwrap] in H;
      try (destruct (carg funcs true _) as [[t [a|]]|]; [injection H as <-|discriminate|discriminate];
           do 2 eexists; split; [reflexivity|split; [reflexivity|eexists; reflexivity]]).
    (* JUn UNot / UNeg *)
    destruct op; try discriminate Hv;
      (destruct (negb (mem (op_name (unop_token _)) runtime_funcs)); [discriminate|];
       destruct (carg funcs true e) as [[t [a|]]|]; [injection H as <-|discriminate|discriminate];
       do 2 eexists; split; [reflexivity|split; [reflexivity|eexists; reflexivity]]).
  Qed.

  Lemma cwrap_operator_escaped op a b toks :
    cwrap funcs false (JBin op a b) = Some toks ->
    exists txt p, toks = [TAct txt false false (AcPipe p)] /\ ends_in_escaper p.
  Proof. apply cwrap_value_expr_escaped. reflexivity. Qed.

End Shape.

(* non-vacuity: `x || 0`, `n > 0 && x`, `(x || 0) + 1` do compile *)
Example cwrap_default_compiles :
  exists t1 t2 t3,
    cwrap [] false (JBin BOr (JId (B "x")) (JNum 0)) = Some t1 /\
    cwrap [] false (JBin BAnd (JBin BGt (JId (B "n")) (JNum 0)) (JId (B "x"))) = Some t2 /\
    cwrap [] false (JBin BAdd (JBin BOr (JId (B "x")) (JNum 0)) (JNum 1)) = Some t3.
Proof. do 3 eexists. split; [|split]; vm_compute; reflexivity. Qed.
