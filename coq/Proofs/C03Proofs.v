(* C03 — lemmas about mixin calls in the executor model: which frame a block runs in, what a mixin body sees,
   and the frame discipline (a call leaves every frame below it, and the caller's own frame, untouched). *)
From PV Require Import Base.Bytes Base.Escape Tmpl.Value Tmpl.IR Tmpl.Runtime Tmpl.Exec Proofs.ExecMono.
Local Strategy opaque [eval_pipeline eval_cmds truthy while_cap].

(* ---- bound blocks --------------------------------------------------------------------------- *)
Definition shallower (frames : list frame) (depth fr : nat) : bool :=
  match nth_error frames fr with Some sc => Nat.ltb (f_depth sc) depth | None => false end.

(* the latest binding wins *)
Lemma find_last_bound_app frames depth l bn fr :
  shallower frames depth fr = true ->
  find_last_bound frames depth (l ++ [(bn, fr)]) bn = Some fr.
Proof.
  intros Hs. induction l as [|[k g] r IH]; simpl.
  - rewrite beqb_refl. unfold shallower in Hs.
    destruct (nth_error frames fr) as [sc|]; [rewrite Hs; reflexivity|discriminate].
  - rewrite IH. reflexivity.
Qed.

(* a binding made by a frame that is not above the executing one (the frame's own bindings for calls it makes,
   in particular its recursive calls) is never taken for its block *)
Lemma find_last_bound_skips frames depth l bn fr :
  shallower frames depth fr = false ->
  find_last_bound frames depth (l ++ [(bn, fr)]) bn = find_last_bound frames depth l bn.
Proof.
  intros Hs. induction l as [|[k g] r IH]; simpl.
  - rewrite beqb_refl. unfold shallower in Hs.
    destruct (nth_error frames fr) as [sc|]; [rewrite Hs; reflexivity|reflexivity].
  - rewrite IH. reflexivity.
Qed.

(* bindings of other names do not matter *)
Lemma find_last_bound_other frames depth l bn k fr :
  k <> bn -> find_last_bound frames depth (l ++ [(k, fr)]) bn = find_last_bound frames depth l bn.
Proof.
  intros Hn. induction l as [|[k' g] r IH]; simpl.
  - destruct (beqb k bn) eqn:E; [apply beqb_eq in E; contradiction|reflexivity].
  - rewrite IH. reflexivity.
Qed.

(* what find_last_bound returns is a binding of that name made by a shallower frame *)
Lemma find_last_bound_sound frames depth l bn fr :
  find_last_bound frames depth l bn = Some fr -> In (bn, fr) l /\ shallower frames depth fr = true.
Proof.
  induction l as [|[k g] r IH]; simpl; [discriminate|].
  destruct (find_last_bound frames depth r bn) as [x|] eqn:E.
  - intros H; inversion H; subst. destruct (IH eq_refl) as [Hi Hs]. split; [right; exact Hi|exact Hs].
  - destruct (beqb k bn) eqn:K; [|discriminate]. apply beqb_eq in K; subst k.
    destruct (nth_error frames g) as [sc|] eqn:N; [|discriminate].
    destruct (Nat.ltb (f_depth sc) depth) eqn:L; [|discriminate].
    intros H; inversion H; subst. split; [left; reflexivity|]. unfold shallower. rewrite N. exact L.
Qed.

(* ---- frames ------------------------------------------------------------------------------------ *)
Definition below (s : xstate) : list frame := removelast (x_frames s).
Definition live (s : xstate) : Prop := x_frames s <> [].

Lemma removelast_snoc {A} (l : list A) (x : A) : removelast (l ++ [x]) = l.
Proof. apply removelast_last. Qed.

Lemma frames_split s : live s -> x_frames s = below s ++ [cur s].
Proof.
  unfold live, below, cur. intros H.
  destruct (exists_last H) as [l [x E]]. rewrite E, removelast_snoc, rev_app_distr. reflexivity.
Qed.

Lemma set_cur_frames s f : x_frames (set_cur s f) = below s ++ [f].
Proof. reflexivity. Qed.
Lemma set_cur_below s f : below (set_cur s f) = below s.
Proof. unfold below at 1. rewrite set_cur_frames, removelast_snoc. reflexivity. Qed.
Lemma set_cur_live s f : live (set_cur s f).
Proof. unfold live. rewrite set_cur_frames. destruct (below s); discriminate. Qed.
Lemma set_vars_below s vs : below (set_vars s vs) = below s.
Proof. apply set_cur_below. Qed.
Lemma set_vars_live s vs : live (set_vars s vs).
Proof. apply set_cur_live. Qed.
Lemma set_heap_below s h : below (set_heap s h) = below s.
Proof. reflexivity. Qed.
Lemma set_heap_live s h : live s -> live (set_heap s h).
Proof. exact (fun H => H). Qed.
Lemma emit_below s b : below (emit s b) = below s.
Proof. reflexivity. Qed.
Lemma emit_live s b : live s -> live (emit s b).
Proof. exact (fun H => H). Qed.

Definition keeps (s s' : xstate) : Prop := below s' = below s /\ live s'.

Lemma keeps_refl s : live s -> keeps s s.
Proof. split; [reflexivity|assumption]. Qed.
Lemma keeps_trans a b c : keeps a b -> keeps b c -> keeps a c.
Proof. intros [H1 L1] [H2 L2]. split; [congruence|assumption]. Qed.

Lemma range_plan_keeps dot s p pl :
  live s -> range_plan dot s p = Ok pl ->
  match pl with RElse s2 | RIter s2 _ | RWhile s2 _ | RDone s2 => keeps s s2 end.
Proof.
  intros Hl. destruct p as [decl cmds]. unfold range_plan.
  set (s0 := set_vars s (f_vars (cur s) ++ map (fun x : bytes => (x, VInvalid)) decl)).
  destruct (eval_pipeline (env_of s0 dot) (x_heap s0) (decl, cmds)) as [[v h1]| | |]; cbn [bind]; try discriminate.
  set (s2 := set_vars (set_heap s0 h1) (set_decl (f_vars (cur (set_heap s0 h1))) decl v)).
  assert (K : keeps s s2).
  { split; [|apply set_vars_live]. unfold s2. rewrite set_vars_below, set_heap_below. unfold s0. apply set_vars_below. }
  destruct v; try discriminate; intros H.
  - injection H as <-; exact K.
  - destruct b; injection H as <-; exact K.
  - destruct b; injection H as <-; exact K.
  - injection H as <-; exact K.
  - destruct (hget h1 l) as [[items|]|]; try discriminate.
    injection H as <-.
    match goal with |- context [match ?x with [] => _ | _ => _ end] => destruct x end; exact K.
  - destruct (hget h1 l) as [[|items order]|]; try discriminate.
    destruct order as [|o1 orest]; injection H as <-;
      match goal with |- context [match ?x with [] => _ | _ => _ end] => destruct x end; exact K.
Qed.

(* a template call: the callee is pushed on top of the frames the argument evaluation left *)
Lemma template_plan_frames defs dot s name is_var arg body newdot s3 :
  live s -> template_plan defs dot s name is_var arg = Ok (Some (body, newdot, s3)) ->
  exists s1 callee, keeps s s1 /\ x_frames s3 = x_frames s1 ++ [callee] /\ x_out s3 = x_out s1 /\ x_heap s3 = x_heap s1
    /\ (callee = {| f_vars := f_globals (cur s1); f_globals := f_globals (cur s1); f_bound := f_bound (cur s1);
                    f_depth := S (f_depth (cur s1)) |}
        \/ exists tname fr, find_last_bound (x_frames s1) (f_depth (cur s1)) (f_bound (cur s1)) tname = Some fr
                            /\ callee = nth fr (x_frames s1) (cur s1)).
Proof.
  intros Hl. unfold template_plan.
  destruct (if is_var then match var_val (f_vars (cur s)) name with
                           | VStr t | VGoStr t => Ok (Some t) | VNil | VInvalid => Ok None | _ => Unmod end
            else Ok (Some name)) as [[tname|]| | |]; cbn [bind]; try discriminate.
  destruct (lookup_def defs tname) as [bd|]; try discriminate.
  destruct (match arg with Some p => eval_pipeline (env_of s dot) (x_heap s) p | None => Ok (VInvalid, x_heap s) end)
    as [[nd h1]| | |]; cbn [bind]; try discriminate.
  intros H. inversion H; subst; clear H.
  set (s1 := match arg with
             | Some p => set_vars (set_heap s h1) (set_decl (f_vars (cur (set_heap s h1))) (fst p) newdot)
             | None => set_heap s h1 end).
  exists s1. eexists. split; [|split; [reflexivity|split; [reflexivity|split; [reflexivity|]]]].
  - unfold s1. destruct arg; split.
    + rewrite set_vars_below. reflexivity.
    + apply set_vars_live.
    + reflexivity.
    + exact Hl.
  - fold s1. destruct (find_last_bound (x_frames s1) (f_depth (cur s1)) (f_bound (cur s1)) tname) as [fr|] eqn:E.
    + right. exists tname, fr. split; [exact E|reflexivity].
    + left. reflexivity.
Qed.

Section Frames.
  Variable defs : list (bytes * list tnode).

  Definition Q_nodes f := forall dot s ns s', live s -> exec_nodes defs f dot s ns = Ok s' -> keeps s s'.
  Definition Q_node f := forall dot s n s', live s -> exec_node defs f dot s n = Ok s' -> keeps s s'.
  Definition Q_iter f := forall s decl body pairs s', live s -> exec_iter defs f s decl body pairs = Ok s' -> keeps s s'.
  Definition Q_while f := forall dot s p body b v s', live s -> exec_while defs f dot s p body b v = Ok s' -> keeps s s'.

  Lemma action_keeps f dot s p s' : live s -> exec_node defs (S f) dot s (NAction p) = Ok s' -> keeps s s'.
  Proof.
    intros Hl H. destruct p as [decl cmds].
    assert (G : forall s', (do x <- eval_pipeline (env_of s dot) (x_heap s) (decl, cmds);
                            let '(v, h1) := x in
                            let s1 := set_heap s h1 in
                            match decl with
                            | [] => do t <- print_text h1 v; Ok (emit s1 t)
                            | _ => Ok (set_vars s1 (set_decl (f_vars (cur s1)) decl v))
                            end) = Ok s' -> keeps s s').
    { clear H s'. intros s' H.
      destruct (eval_pipeline (env_of s dot) (x_heap s) (decl, cmds)) as [[v h1]| | |]; cbn [bind] in H; try discriminate.
      cbv zeta in H. destruct decl as [|d ds].
      - destruct (print_text h1 v) as [t| | |]; cbn [bind] in H; try discriminate.
        inversion H; subst. split; [reflexivity|exact Hl].
      - inversion H; subst. split; [rewrite set_vars_below; reflexivity|apply set_vars_live]. }
    destruct decl as [|d ds]; [|exact (G s' H)].
    simpl in H.
    repeat match type of H with (match ?x with _ => _ end) = _ => destruct x end.
    all: try exact (G s' H).
    all: inversion H; subst; split; [apply set_cur_below|apply set_cur_live].
  Qed.

  Lemma keeps_all f : Q_nodes f /\ Q_node f /\ Q_iter f /\ Q_while f.
  Proof.
    induction f as [|f [IHns [IHn [IHi IHw]]]].
    - split; [|split; [|split]]; intro; intros; discriminate.
    - split; [|split; [|split]].
      + intros dot s ns s' Hl H. destruct ns as [|n r]; [inversion H; subst; apply keeps_refl; exact Hl|].
        rewrite nodes_cons in H.
        destruct (exec_node defs f dot s n) as [s1| | |] eqn:E; cbn [bind] in H; try discriminate.
        pose proof (IHn _ _ _ _ Hl E) as K1.
        exact (keeps_trans _ _ _ K1 (IHns _ _ _ _ (proj2 K1) H)).
      + intros dot s n s' Hl H. destruct n as [t|p|p th el|p body el|name isv arg].
        * inversion H; subst. split; [reflexivity|exact Hl].
        * exact (action_keeps f dot s p s' Hl H).
        * rewrite node_if in H.
          destruct (eval_pipeline (env_of s dot) (x_heap s) p) as [[v h1]| | |]; cbn [bind] in H; try discriminate.
          cbv zeta in H. destruct (truthy h1 v) as [t| | |]; cbn [bind] in H; try discriminate.
          assert (K : keeps s (set_vars (set_heap s h1) (set_decl (f_vars (cur (set_heap s h1))) (fst p) v))).
          { split; [rewrite set_vars_below; reflexivity|apply set_vars_live]. }
          exact (keeps_trans _ _ _ K (IHns _ _ _ _ (proj2 K) H)).
        * rewrite node_range in H.
          destruct (range_plan dot s p) as [pl| | |] eqn:E; cbn [bind] in H; try discriminate.
          pose proof (range_plan_keeps dot s p pl Hl E) as K.
          destruct pl as [s2|s2 pairs|s2 v|s2].
          -- exact (keeps_trans _ _ _ K (IHns _ _ _ _ (proj2 K) H)).
          -- exact (keeps_trans _ _ _ K (IHi _ _ _ _ _ (proj2 K) H)).
          -- exact (keeps_trans _ _ _ K (IHw _ _ _ _ _ _ _ (proj2 K) H)).
          -- inversion H; subst; exact K.
        * rewrite node_template in H.
          destruct (template_plan defs dot s name isv arg) as [[[[body newdot] s3]|]| | |] eqn:E; cbn [bind] in H;
            try discriminate.
          -- destruct (template_plan_frames defs dot s name isv arg body newdot s3 Hl E)
               as [s1 [callee [K1 [Hf [Ho Hh]]]]].
             destruct (exec_nodes defs f newdot s3 body) as [s4| | |] eqn:E4; cbn [bind] in H; try discriminate.
             inversion H; subst; clear H.
             assert (L3 : live s3) by (unfold live; rewrite Hf; destruct (x_frames s1); discriminate).
             destruct (IHns _ _ _ _ L3 E4) as [B4 L4].
             unfold below in B4. rewrite Hf, removelast_snoc in B4.
             split.
             ++ unfold below; cbn [x_frames]. rewrite B4. exact (proj1 K1).
             ++ unfold live; cbn [x_frames]. rewrite B4. exact (proj2 K1).
          -- inversion H; subst. apply keeps_refl; exact Hl.
      + intros s decl body pairs s' Hl H. destruct pairs as [|[k v] r]; [inversion H; subst; apply keeps_refl; exact Hl|].
        rewrite iter_cons in H. cbv zeta in H.
        match type of H with context [exec_nodes defs f ?d ?s0 ?b] =>
          destruct (exec_nodes defs f d s0 b) as [s1| | |] eqn:E; cbn [bind] in H; try discriminate;
          assert (K0 : keeps s s0) by (split; [apply set_vars_below|apply set_vars_live]);
          pose proof (IHns _ _ _ _ (proj2 K0) E) as K1 end.
        exact (keeps_trans _ _ _ (keeps_trans _ _ _ K0 K1) (IHi _ _ _ _ _ (proj2 K1) H)).
      + intros dot s p body b v s' Hl H. rewrite while_step in H.
        destruct (exec_nodes defs f v s body) as [s1| | |] eqn:E; cbn [bind] in H; try discriminate.
        pose proof (IHns _ _ _ _ Hl E) as K1.
        destruct (eval_pipeline (env_of s1 dot) (x_heap s1) p) as [[v' h1]| | |]; cbn [bind] in H; try discriminate.
        cbv zeta in H. destruct b as [|b]; [discriminate|].
        assert (K2 : keeps s1 (set_heap s1 h1)) by (split; [reflexivity|exact (proj2 K1)]).
        destruct v' as [| | |[|]| | |[|]| | | | |]; try discriminate.
        * exact (keeps_trans _ _ _ (keeps_trans _ _ _ K1 K2) (IHw _ _ _ _ _ _ _ (proj2 K2) H)).
        * inversion H; subst. exact (keeps_trans _ _ _ K1 K2).
        * exact (keeps_trans _ _ _ (keeps_trans _ _ _ K1 K2) (IHw _ _ _ _ _ _ _ (proj2 K2) H)).
        * inversion H; subst. exact (keeps_trans _ _ _ K1 K2).
  Qed.

  (* whatever runs — any nesting of calls, blocks, loops — changes only the executing frame *)
  Lemma exec_nodes_keeps f dot s ns s' : live s -> exec_nodes defs f dot s ns = Ok s' -> keeps s s'.
  Proof. exact (proj1 (keeps_all f) dot s ns s'). Qed.

  (* a template call (mixin or block): when it returns, the frame list is exactly the one the argument evaluation
     left: the callee's frame is gone, the caller's variables, bindings and depth are what they were *)
  Lemma call_isolated f dot s name isv arg body newdot s3 s' :
    live s -> template_plan defs dot s name isv arg = Ok (Some (body, newdot, s3)) ->
    exec_node defs (S f) dot s (NTemplate name isv arg) = Ok s' ->
    x_frames s' = removelast (x_frames s3).
  Proof.
    intros Hl Hp H. rewrite node_template, Hp in H. cbn [bind] in H.
    destruct (template_plan_frames defs dot s name isv arg body newdot s3 Hl Hp) as [s1 [callee [K1 [Hf _]]]].
    destruct (exec_nodes defs f newdot s3 body) as [s4| | |] eqn:E4; cbn [bind] in H; try discriminate.
    inversion H; subst; clear H. cbn [x_frames].
    assert (L3 : live s3) by (unfold live; rewrite Hf; destruct (x_frames s1); discriminate).
    destruct (exec_nodes_keeps _ _ _ _ _ L3 E4) as [B4 _]. exact B4.
  Qed.
End Frames.

(* set_vars / set_heap keep the executing frame's bindings, globals and depth *)
Lemma cur_set_cur s f : cur (set_cur s f) = f.
Proof. unfold cur. rewrite set_cur_frames, rev_app_distr. reflexivity. Qed.

Lemma cur_snoc l c h o : cur {| x_frames := l ++ [c]; x_heap := h; x_out := o |} = c.
Proof. unfold cur. cbn [x_frames]. rewrite rev_app_distr. reflexivity. Qed.

(* a mixin body sees the page data, not the caller's locals: when the called name is not among the bound block
   names (mixins are called by their own name, only block names are ever frozen), the callee starts with the
   globals as its only variables, one level deeper, whatever the caller's variables are *)
Lemma mixin_callee_sees_globals defs dot s name arg body newdot s3 :
  template_plan defs dot s name false arg = Ok (Some (body, newdot, s3)) ->
  ~ In name (map fst (f_bound (cur s))) ->
  f_vars (cur s3) = f_globals (cur s) /\ f_globals (cur s3) = f_globals (cur s) /\ f_depth (cur s3) = S (f_depth (cur s)).
Proof.
  intros Hp Hn. unfold template_plan in Hp. cbn [bind] in Hp.
  destruct (lookup_def defs name); [|discriminate].
  destruct (match arg with Some p => eval_pipeline (env_of s dot) (x_heap s) p | None => Ok (VInvalid, x_heap s) end)
    as [[nd h1]| | |]; cbn [bind] in Hp; try discriminate.
  inversion Hp; subst; clear Hp.
  set (s1 := match arg with
             | Some p => set_vars (set_heap s h1) (set_decl (f_vars (cur (set_heap s h1))) (fst p) newdot)
             | None => set_heap s h1 end).
  assert (C : f_globals (cur s1) = f_globals (cur s) /\ f_bound (cur s1) = f_bound (cur s) /\ f_depth (cur s1) = f_depth (cur s)).
  { unfold s1. destruct arg as [p|]; [|repeat split]. unfold set_vars. rewrite cur_set_cur. repeat split. }
  destruct C as [Cg [Cb Cd]].
  destruct (find_last_bound (x_frames s1) (f_depth (cur s1)) (f_bound (cur s1)) name) as [fr|] eqn:E.
  - exfalso. apply find_last_bound_sound in E. destruct E as [Hi _]. rewrite Cb in Hi.
    apply Hn. change name with (fst (name, fr)). apply in_map. exact Hi.
  - rewrite !cur_snoc. cbn [f_vars f_globals f_depth]. rewrite Cg, Cd. repeat split.
Qed.

(* __freeze followed by the call, then `block` in the callee: the block runs in (a copy of) the caller's frame *)
Lemma block_runs_in_callers_frame frames caller_ix caller bn l :
  nth_error frames caller_ix = Some caller ->
  find_last_bound (frames ++ [{| f_vars := f_globals caller; f_globals := f_globals caller;
                                 f_bound := l ++ [(bn, caller_ix)]; f_depth := S (f_depth caller) |}])
                  (S (f_depth caller)) (l ++ [(bn, caller_ix)]) bn = Some caller_ix.
Proof.
  intros Hc. apply find_last_bound_app. unfold shallower.
  rewrite nth_error_app1 by (apply nth_error_Some; congruence). rewrite Hc.
  apply Nat.ltb_lt. lia.
Qed.

(* the caller's bindings survive every call: a block can be placed any number of times *)
Lemma call_keeps_bindings defs f dot s name isv arg s' :
  live s -> exec_node defs (S f) dot s (NTemplate name isv arg) = Ok s' ->
  f_bound (cur s') = f_bound (cur s) /\ f_globals (cur s') = f_globals (cur s) /\ f_depth (cur s') = f_depth (cur s).
Proof.
  intros Hl H. pose proof H as H0. rewrite node_template in H.
  destruct (template_plan defs dot s name isv arg) as [[[[body newdot] s3]|]| | |] eqn:E; cbn [bind] in H; try discriminate.
  - pose proof (call_isolated defs f dot s name isv arg body newdot s3 s' Hl E H0) as Hf.
    unfold template_plan in E.
    destruct (if isv then match var_val (f_vars (cur s)) name with
                          | VStr t | VGoStr t => Ok (Some t) | VNil | VInvalid => Ok None | _ => Unmod end
              else Ok (Some name)) as [[tname|]| | |]; cbn [bind] in E; try discriminate.
    destruct (lookup_def defs tname) as [bd|]; try discriminate.
    destruct (match arg with Some p => eval_pipeline (env_of s dot) (x_heap s) p | None => Ok (VInvalid, x_heap s) end)
      as [[nd h1]| | |]; cbn [bind] in E; try discriminate.
    inversion E; subst; clear E. cbn [x_frames] in Hf. rewrite removelast_snoc in Hf.
    unfold cur at 1 3 5. rewrite Hf.
    destruct arg as [p|].
    + fold (cur (set_vars (set_heap s h1) (set_decl (f_vars (cur (set_heap s h1))) (fst p) newdot))).
      unfold set_vars. rewrite cur_set_cur. repeat split.
    + repeat split.
  - inversion H; subst. repeat split.
Qed.

(* positional parameters: `$p := __tryindex $__args__ i` — the i-th argument, or null when the call gave fewer *)
Lemma param_binding h l items i :
  hget h l = Some (OArr items) ->
  rt_tryindex h (VArr l) (VInt (Z.of_nat i)) = Ok (match nth_error items i with Some v => box v | None => VNil end).
Proof.
  intros Hg. unfold rt_tryindex. rewrite Hg.
  destruct (Z.ltb (Z.of_nat i) 0) eqn:E; [apply Z.ltb_lt in E; lia|].
  rewrite Nat2Z.id. destruct (nth_error items i); reflexivity.
Qed.

(* ---- non-vacuity: a mixin with a block called twice from a loop; the repaired lookup places the block twice ----- *)
Definition ex_defs : list (bytes * list tnode) :=
  [(B "mixin_m", [NText (B "<"); NTemplate (B "b") true None; NText (B "|"); NTemplate (B "b") true None; NText (B ">")]);
   (B "blk", [NAction ([], [[AVar (B "x") []]])])].
Definition ex_main : list tnode :=
  [NAction ([B "x"], [[AStr (B "L")]]);
   NAction ([], [[AIdent (B "__freeze"); AStr (B "blk")]]);
   NTemplate (B "mixin_m") false None].
Definition ex_s0 : xstate :=
  {| x_frames := [{| f_vars := [(B "b", VGoStr (B "blk"))]; f_globals := [(B "b", VGoStr (B "blk"))]; f_bound := []; f_depth := 0 |}];
     x_heap := []; x_out := [] |}.
Example ex_block_twice :
  match exec_nodes ex_defs 50 VInvalid ex_s0 ex_main with Ok s => output s = B "<L|L>" | _ => False end.
Proof. vm_compute. reflexivity. Qed.
Example ex_live : live ex_s0.
Proof. discriminate. Qed.

(* ---- the attributes object of a call ---------------------------------------------------------- *)
(* __op__map_params only ever appends to the heap ... *)
Lemma params_alloc_extends gs : forall h items h1,
  params_alloc h gs = Ok (items, h1) -> exists ext, h1 = h ++ ext.
Proof.
  induction gs as [|[k g] r IH]; intros h items h1 H; simpl in H.
  - inversion H; subst. exists []. rewrite app_nil_r. reflexivity.
  - destruct g as [v|vs].
    + destruct (params_alloc h r) as [[it h2]| | |] eqn:E;
        destruct v; simpl in H; try discriminate; inversion H; subst; eapply IH; exact E.
    + unfold rt_array in H.
      destruct (existsb _ vs); [discriminate|]. simpl in H.
      destruct (params_alloc (h ++ [OArr (map box vs)]) r) as [[it h2]| | |] eqn:E; simpl in H; try discriminate.
      inversion H; subst. destruct (IH _ _ _ E) as [ext He]. exists (OArr (map box vs) :: ext).
      rewrite He, <- app_assoc. reflexivity.
Qed.

(* ... and its result is a NEW object: the location was not allocated before the call (so it is no object any
   earlier call, render or frame can hold), every object that existed keeps its contents, and the new object holds
   exactly this call's entries, without a memoised key order *)
Lemma map_params_fresh h l loc h' :
  rt_map_params h l = Ok (VMap loc, h') ->
  hget h loc = None
  /\ (forall k o, hget h k = Some o -> hget h' k = Some o)
  /\ exists items, hget h' loc = Some (OMap items []).
Proof.
  unfold rt_map_params. intros H.
  destruct (params_group l []) as [gs| | |]; simpl in H; try discriminate.
  destruct (params_alloc h gs) as [[items h1]| | |] eqn:E; simpl in H; try discriminate.
  inversion H; subst. destruct (params_alloc_extends _ _ _ _ E) as [ext He]. subst h1.
  unfold hget. repeat split.
  - apply nth_error_None. rewrite app_length. lia.
  - intros k o Hk. rewrite <- app_assoc. rewrite nth_error_app1; [exact Hk|].
    apply nth_error_Some. rewrite Hk. discriminate.
  - exists items. rewrite nth_error_app2 by lia. rewrite Nat.sub_diag. reflexivity.
Qed.

(* a call without attributes: an empty map of its own *)
Lemma map_params_none h : rt_map_params h [] = Ok (VMap (length h), h ++ [OMap [] []]).
Proof. reflexivity. Qed.

(* two calls, one after the other (whatever happens to the heap in between, as long as it only grows or updates
   in place, i.e. keeps its length or extends it): their attributes objects are different objects *)
Lemma map_params_distinct h1 l1 loc1 h1' h2 l2 loc2 h2' :
  rt_map_params h1 l1 = Ok (VMap loc1, h1') -> length h1' <= length h2 ->
  rt_map_params h2 l2 = Ok (VMap loc2, h2') -> loc1 <> loc2.
Proof.
  intros A Hle C.
  destruct (map_params_fresh _ _ _ _ A) as [_ [_ [it1 G1]]].
  destruct (map_params_fresh _ _ _ _ C) as [N2 _].
  unfold hget in *. apply nth_error_None in N2.
  assert (loc1 < length h1') by (apply nth_error_Some; rewrite G1; discriminate). lia.
Qed.

(* non-vacuity: a body stores into the attributes object of its call (`$attributes.__assign`); the next call's
   object is another one and empty *)
Example ex_attrs_not_shared :
  match rt_map_params [] [] with
  | Ok (VMap l1, h1) =>
    match rt_map_params (hset h1 l1 (OMap [(B "type", VGoStr (B "password"))] [])) [] with
    | Ok (VMap l2, h2) => l1 <> l2 /\ hget h2 l2 = Some (OMap [] []) /\ hget h2 l1 = Some (OMap [(B "type", VGoStr (B "password"))] [])
    | _ => False
    end
  | _ => False
  end.
Proof. vm_compute. repeat split. discriminate. Qed.

(* ---- the lowering of a call site (Pug/Compile.v) ------------------------------------------------ *)
From PV Require Import Js.Ast Pug.Ast Pug.Compile.

(* the shape of what a call with block content compiles to: the calling frame binds a block NAMED AFTER THIS CALL
   SITE (block_<mixin>_<counter>) and passes that name *)
Definition call_site_shape (name bn : bytes) (ts : list tok) : Prop :=
  exists t1 t2 args attrs,
    ts = [TAct t1 false false (AcPipe ([], [[AIdent (B "__freeze"); AStr bn]]));
          TAct t2 false false (AcTemplate (B "mixin_" ++ name) false
                                 (Some ([], [[call (B "__op__array") [args; attrs; cmd1 (AStr bn)]]])))].

(* a call whose block content is nothing but `block` is no exception: it gets a wrapper block of its own, whose
   content is the placement of the caller's block; the caller's block NAME is not handed on *)
Lemma pure_forward_gets_own_block funcs dbg f raw st name :
  is_ident name = true ->
  exists ts,
    cnode funcs dbg (S (S (S f))) raw st (PMixinCall name [] [] [PMixinBlock])
    = Some (ts, raw,
            {| cs_mixins := cs_mixins st;
               cs_blocks := cs_blocks st ++
                 [[TText nl; TText nl;
                   TAct (B "{{- define """ ++ (B "block_" ++ name ++ B "_" ++ show_nat (cs_counter st)) ++ B """ -}}") true true
                        (AcDefine (B "block_" ++ name ++ B "_" ++ show_nat (cs_counter st))); TText nl;
                   TAct (B "{{- template $block -}}") true true (AcTemplate (B "block") true None);
                   TText nl; TAct (B "{{- end -}}") true true AcEnd]];
               cs_counter := S (cs_counter st) |})
    /\ call_site_shape name (B "block_" ++ name ++ B "_" ++ show_nat (cs_counter st)) ts.
Proof.
  intros Hid. eexists. split.
  - cbn -[show_nat is_ident app]. rewrite Hid. cbn -[show_nat app]. reflexivity.
  - unfold call_site_shape. do 4 eexists. reflexivity.
Qed.
