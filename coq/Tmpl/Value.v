(* Run-time values of the template executor (pugjs/types.go, tpl_exec.go). *)
From PV Require Import Base.Bytes Base.Escape.

(* ---- results ------------------------------------------------------------ *)
Inductive res (A : Type) : Type :=
| Ok (a : A)
| Panic            (* execution error: a Go panic out of Render *)
| Unmod            (* outside the modelled domain; the judge answers "unmodelled" *)
| OutOfFuel.
Arguments Ok {A} a. Arguments Panic {A}. Arguments Unmod {A}. Arguments OutOfFuel {A}.

Definition bind {A B} (r : res A) (f : A -> res B) : res B :=
  match r with Ok a => f a | Panic => Panic | Unmod => Unmod | OutOfFuel => OutOfFuel end.
Notation "'do' x <- r ; k" := (bind r (fun x => k)) (at level 200, x pattern, r at level 100, k at level 200).
Definition of_opt {A} (o : option A) : res A := match o with Some a => Ok a | None => Unmod end.

(* ---- attributes (runtime.go Attribute after convert) -------------------- *)
Record attr := { a_name : bytes; a_val : bytes; a_esc : bool; a_bool : option bool }.

(* ---- values ------------------------------------------------------------- *)
Inductive val :=
| VInvalid                 (* zero reflect.Value / nil interface *)
| VInt (z : Z)             (* Go int (template number literal, range index) *)
| VGoStr (s : bytes)       (* Go string (template string literal, map range key) *)
| VGoBool (b : bool)       (* Go bool *)
| VNum (z : Z)             (* pugjs.Number, integer-valued *)
| VStr (s : bytes)         (* pugjs.String *)
| VBool (b : bool)         (* pugjs.Bool *)
| VNil                     (* pugjs.Nil *)
| VArr (l : nat)           (* *pugjs.Array at heap location l *)
| VMap (l : nat)           (* *pugjs.Map at heap location l *)
| VAttrs (l : list attr)   (* []Attribute converted; only __attrs consumes it *)
| VMod (m : bytes).        (* Math / JSON / Object module value *)

Inductive obj :=
| OArr (items : list val)
| OMap (items : list (bytes * val)) (order : list bytes).   (* order = [] : unordered Go map *)

Definition heap := list obj.
Definition alloc (h : heap) (o : obj) : nat * heap := (length h, h ++ [o]).
Definition hget (h : heap) (l : nat) : option obj := nth_error h l.
Fixpoint hset (h : heap) (l : nat) (o : obj) : heap :=
  match h, l with
  | [], _ => []
  | _ :: r, O => o :: r
  | x :: r, S k => x :: hset r k o
  end.

(* ---- byte order, sorting ------------------------------------------------ *)
Fixpoint bytes_ltb (a b : bytes) : bool :=
  match a, b with
  | [], [] => false
  | [], _ :: _ => true
  | _ :: _, [] => false
  | x :: a', y :: b' =>
    let nx := N_of_ascii x in let ny := N_of_ascii y in
    if N.ltb nx ny then true else if N.ltb ny nx then false else bytes_ltb a' b'
  end.
Definition bytes_leb (a b : bytes) : bool := negb (bytes_ltb b a).

Fixpoint insert_sorted {A} (lt : A -> A -> bool) (x : A) (l : list A) : list A :=
  match l with
  | [] => [x]
  | y :: r => if lt x y then x :: y :: r else y :: insert_sorted lt x r
  end.
(* stable insertion sort: equal elements keep their order *)
Definition sort_by {A} (lt : A -> A -> bool) (l : list A) : list A :=
  fold_right (insert_sorted (fun a b => negb (lt b a))) [] l.
Definition sort_bytes (l : list bytes) : list bytes :=
  fold_right (insert_sorted bytes_ltb) [] l.

(* ---- ASCII case helpers ------------------------------------------------- *)
Definition is_upper (c : ascii) : bool := let n := N_of_ascii c in N.leb 65 n && N.leb n 90.
Definition is_lower (c : ascii) : bool := let n := N_of_ascii c in N.leb 97 n && N.leb n 122.
Definition is_digit (c : ascii) : bool := let n := N_of_ascii c in N.leb 48 n && N.leb n 57.
Definition is_ascii (c : ascii) : bool := N.ltb (N_of_ascii c) 128.
Definition to_lower (c : ascii) : ascii := if is_upper c then ascii_of_N (N_of_ascii c + 32) else c.
Definition to_upper (c : ascii) : ascii := if is_lower c then ascii_of_N (N_of_ascii c - 32) else c.
(* lowerFirst / upperFirst on an ASCII first byte (non-ASCII first runes: left unchanged; generators avoid them) *)
Definition lower_first (s : bytes) : bytes := match s with [] => [] | c :: r => to_lower c :: r end.
Definition upper_first (s : bytes) : bytes := match s with [] => [] | c :: r => to_upper c :: r end.
Definition all_ascii (s : bytes) : bool := forallb is_ascii s.

(* strings.NewReplacer("id","ID","url","URL","api","API").Replace *)
Fixpoint replacer3_fuel (fuel : nat) (s : bytes) : bytes :=
  match fuel with
  | O => s
  | S f =>
    match s with
    | [] => []
    | c :: r =>
      if prefixb (B "id") s then B "ID" ++ replacer3_fuel f (skipn 2 s)
      else if prefixb (B "url") s then B "URL" ++ replacer3_fuel f (skipn 3 s)
      else if prefixb (B "api") s then B "API" ++ replacer3_fuel f (skipn 3 s)
      else c :: replacer3_fuel f r
    end
  end.
Definition replacer3 (s : bytes) : bytes := replacer3_fuel (S (length s)) s.

(* ---- text of values ----------------------------------------------------- *)
Definition ten10 : Z := 10000000000.
Definition two53 : Z := 9007199254740992.
(* Number.String() = big.NewFloat(x).String() = %.10g: plain decimal below 10^10 *)
Definition num_text (z : Z) : option bytes :=
  if Z.ltb (Z.abs z) ten10 then Some (show_Z z) else None.
(* integer arithmetic results stay exact in float64 below 2^53 *)
Definition num_ok (z : Z) : bool := Z.ltb (Z.abs z) two53.

Definition hexdigit (n : N) : ascii :=
  if N.ltb n 10 then ascii_of_N (48 + n) else ascii_of_N (87 + n).

(* encoding/json string encoding (escapeHTML on), go1.22+ *)
Fixpoint json_str_body (s : bytes) : bytes :=
  match s with
  | [] => []
  | c :: r =>
    let n := N_of_ascii c in
    (if Ascii.eqb c """" then B "\"""
     else if Ascii.eqb c "\" then B "\\"
     else if N.eqb n 10 then B "\n"
     else if N.eqb n 13 then B "\r"
     else if N.eqb n 9 then B "\t"
     else if N.eqb n 8 then B "\b"
     else if N.eqb n 12 then B "\f"
     else if Ascii.eqb c "<" then B "\u003c"
     else if Ascii.eqb c ">" then B "\u003e"
     else if Ascii.eqb c "&" then B "\u0026"
     else if N.ltb n 32 then B "\u00" ++ [hexdigit (N.div n 16); hexdigit (N.modulo n 16)]
     else if N.eqb n 226 (* E2 80 A8 / E2 80 A9 : U+2028 / U+2029 *) then
       match r with
       | c2 :: c3 :: _ =>
         if N.eqb (N_of_ascii c2) 128 && N.eqb (N_of_ascii c3) 168 then B " "
         else if N.eqb (N_of_ascii c2) 128 && N.eqb (N_of_ascii c3) 169 then B " "
         else [c]
       | _ => [c]
       end
     else [c])
    ++ (if N.eqb n 226 then
          match r with
          | c2 :: c3 :: r' =>
            if N.eqb (N_of_ascii c2) 128 && (N.eqb (N_of_ascii c3) 168 || N.eqb (N_of_ascii c3) 169)
            then json_str_body r' else json_str_body r
          | _ => json_str_body r
          end
        else json_str_body r)
  end.
Definition json_str (s : bytes) : bytes := """"%char :: json_str_body s ++ [""""%char].

Section Text.
  Variable h : heap.

  (* association list with Go map assignment semantics, used for MarshalJSON's tmp map *)
  Definition sorted_items (items : list (bytes * bytes)) : list (bytes * bytes) :=
    fold_right (insert_sorted (fun a b => bytes_ltb (fst a) (fst b))) [] items.

  (* json.Marshal of a value (Map.MarshalJSON lower-cases first letters and the encoder sorts keys) *)
  Fixpoint json_of (fuel : nat) (v : val) : option bytes :=
    match fuel with
    | O => None
    | S f =>
      match v with
      | VInvalid => Some (B "null")
      | VNil => Some (B "null")
      | VInt z => Some (show_Z z)
      | VNum z => if num_ok z then Some (show_Z z) else None
      | VGoStr s | VStr s => Some (json_str s)
      | VGoBool b | VBool b => Some (if b then B "true" else B "false")
      | VArr l =>
        match hget h l with
        | Some (OArr items) =>
          match (fix go (l : list val) (first : bool) : option bytes :=
             match l with
             | [] => Some []
             | x :: r =>
               match json_of f x, go r false with
               | Some a, Some b => Some ((if first then [] else B ",") ++ a ++ b)
               | _, _ => None
               end
             end) items true with
          | Some b => Some (B "[" ++ b ++ B "]")
          | None => None
          end
        | _ => None
        end
      | VMap l =>
        match hget h l with
        | Some (OMap items _) =>
          let enc :=
            (fix go (l : list (bytes * val)) (acc : list (bytes * bytes)) : option (list (bytes * bytes)) :=
               match l with
               | [] => Some acc
               | (k, x) :: r =>
                 match json_of f x with
                 | Some a => go r (insert (lower_first k) a acc)
                 | None => None
                 end
               end) items [] in
          match enc with
          | Some kvs =>
            let parts := map (fun kv => json_str (fst kv) ++ B ":" ++ snd kv) (sorted_items kvs) in
            Some (B "{" ++ join (B ",") parts ++ B "}")
          | None => None
          end
        | _ => None
        end
      | VAttrs _ | VMod _ => None
      end
    end.

  (* Object.String() / fmt.Fprint of a native *)
  Fixpoint text_of (fuel : nat) (v : val) : option bytes :=
    match fuel with
    | O => None
    | S f =>
      match v with
      | VInvalid => None                       (* printValue's "<no value>" branch: not modelled *)
      | VInt z => Some (show_Z z)
      | VNum z => num_text z
      | VGoStr s | VStr s => Some s
      | VGoBool b | VBool b => Some (if b then B "true" else B "false")
      | VNil => Some []
      | VArr l =>
        match hget h l with
        | Some (OArr items) =>
          match (fix go (l : list val) : option (list bytes) :=
             match l with
             | [] => Some []
             | x :: r => match text_of f x, go r with
                         | Some a, Some b => Some (a :: b) | _, _ => None end
             end) items with
          | Some l => Some (join (B " ") l)
          | None => None
          end
        | _ => None
        end
      | VMap _ => json_of (S f) v
      | VAttrs _ | VMod _ => None
      end
    end.
End Text.

Definition depth_fuel (h : heap) : nat := S (S (length h)).
Definition to_text (h : heap) (v : val) : option bytes := text_of h (depth_fuel h) v.
Definition to_json (h : heap) (v : val) : option bytes := json_of h (depth_fuel h) v.

(* convert(): natives become Objects *)
Definition box (v : val) : val :=
  match v with
  | VInt z => VNum z
  | VGoStr s => VStr s
  | VGoBool b => VBool b
  | VInvalid => VNil
  | _ => v
  end.

Definition val_eqb (a b : val) : bool :=
  match a, b with
  | VInvalid, VInvalid | VNil, VNil => true
  | VInt x, VInt y | VNum x, VNum y => Z.eqb x y
  | VGoStr x, VGoStr y | VStr x, VStr y => beqb x y
  | VGoBool x, VGoBool y | VBool x, VBool y => Bool.eqb x y
  | VArr x, VArr y | VMap x, VMap y => Nat.eqb x y
  | _, _ => false
  end.
