(* Byte-level model of the TOP LEVEL of pugjs/parse/lex.go: how the template source text is cut into
   text items and actions.

     lexText        -> [lex_text]   (find the leftmost "{{"; "{{- " trims the text before it)
     lexLeftDelim   -> the head of [lex_act] ([start] = true: a comment may begin here)
     lexComment     -> [lex_comm]
     lexInsideAction-> [lex_act]: only what decides WHERE the action ends is modelled: the test for the
                       right delimiter ("}}" or " -}}") before every item, the run of blanks that lexSpace
                       swallows (so that "  -}}" is not a trim marker), the skipping of "...", '...'
                       (lexQuote / lexChar: backslash escapes, no line feed) and `...` (lexRawQuote),
                       "unclosed action" at a line end or at the end of input
     lexRightDelim  -> the two exits of [lex_act] (" -}}" left-trims the text that follows)

   Not modelled (DESIGN section 8): what lexInsideAction makes of the bytes inside an action
   (identifiers, numbers, parentheses, "unrecognized character") and the parser.  [segment s = Some l]
   therefore means: IF the action-level lexer accepts every action body of [l], the items it delivers are
   cut exactly as [l] says; [None] means the top level itself reports an error.

   All functions are structurally recursive on the input (no fuel). *)
From PV Require Import Base.Bytes Tmpl.IR.

Inductive seg :=
| SText (s : bytes)                              (* itemText, already trimmed, never empty *)
| SAct (ltrim : bool) (body : bytes) (rtrim : bool).   (* the bytes between the delimiters, markers removed *)

Definition emit_text (t : bytes) (rest : list seg) : list seg :=
  match t with [] => rest | _ => SText t :: rest end.
Definition ocons (x : seg) (o : option (list seg)) : option (list seg) :=
  match o with Some l => Some (x :: l) | None => None end.
Definition oemit (t : bytes) (o : option (list seg)) : option (list seg) :=
  match o with Some l => Some (emit_text t l) | None => None end.
Definition oapp (p : list seg) (o : option (list seg)) : option (list seg) :=
  match o with Some l => Some (p ++ l) | None => None end.

Definition LF : ascii := ascii_of_N 10.
Definition CR : ascii := ascii_of_N 13.
Definition TAB : ascii := ascii_of_N 9.

(* atRightDelim *)
Definition at_rdelim (s : bytes) : bool :=
  match s with a :: b :: _ => Ascii.eqb a "}" && Ascii.eqb b "}" | _ => false end.
Definition at_rtrim (s : bytes) : bool :=
  match s with
  | a :: b :: c :: d :: _ => Ascii.eqb a " " && Ascii.eqb b "-" && Ascii.eqb c "}" && Ascii.eqb d "}"
  | _ => false
  end.
Definition at_comment (s : bytes) : bool :=
  match s with a :: b :: _ => Ascii.eqb a "/" && Ascii.eqb b "*" | _ => false end.
Definition is_blank (c : ascii) : bool := Ascii.eqb c " " || Ascii.eqb c TAB.       (* isSpace *)
Definition is_eol (c : ascii) : bool := Ascii.eqb c CR || Ascii.eqb c LF.           (* isEndOfLine *)

(* [skip]: the previous action ended " -}}": leading white space of the text is dropped.
   [acc]: the text read so far, reversed.  [txt]: the text item before the action being read. *)
Fixpoint lex_text (skip : bool) (acc : bytes) (s : bytes) {struct s} : option (list seg) :=
  match s with
  | [] => Some (emit_text (rev acc) [])
  | c :: r =>
    if Ascii.eqb c "{" then
      match r with
      | d :: r1 =>
        if Ascii.eqb d "{" then
          match r1 with
          | m1 :: m2 :: r2 =>
            if Ascii.eqb m1 "-" && Ascii.eqb m2 " "
            then lex_act (trim_right (rev acc)) true true false [] r2
            else lex_act (rev acc) false true false [] r1
          | _ => lex_act (rev acc) false true false [] r1
          end
        else lex_text false (c :: acc) r
      | [] => lex_text false (c :: acc) r
      end
    else if skip && is_space c then lex_text true acc r
    else lex_text false (c :: acc) r
  end

(* [start]: directly after the left delimiter (and its marker); [insp]: inside a run of blanks *)
with lex_act (txt : bytes) (lt : bool) (start insp : bool) (body : bytes) (s : bytes) {struct s}
  : option (list seg) :=
  match s with
  | [] => None                                                   (* unclosed action *)
  | c :: r =>
    if start && at_comment s then
      match r with _ :: r' => lex_comm txt r' | [] => None end
    else if at_rdelim s then
      match r with
      | _ :: r' => oemit txt (ocons (SAct lt (rev body) false) (lex_text false [] r'))
      | [] => None
      end
    else if negb insp && at_rtrim s then
      match r with
      | _ :: _ :: _ :: r' => oemit txt (ocons (SAct lt (rev body) true) (lex_text true [] r'))
      | _ => None
      end
    else if is_eol c then None                                   (* unclosed action *)
    else if is_blank c then lex_act txt lt false true (c :: body) r
    else if Ascii.eqb c """" || Ascii.eqb c "'" then lex_quote txt lt c (c :: body) r
    else if Ascii.eqb c "`" then lex_raw txt lt (c :: body) r
    else lex_act txt lt false false (c :: body) r
  end

(* lexQuote / lexChar: up to the closing quote [q]; a backslash takes the next byte with it *)
with lex_quote (txt : bytes) (lt : bool) (q : ascii) (body : bytes) (s : bytes) {struct s}
  : option (list seg) :=
  match s with
  | [] => None                                                   (* unterminated quoted string *)
  | c :: r =>
    if Ascii.eqb c "\" then
      match r with
      | d :: r' => if Ascii.eqb d LF then None else lex_quote txt lt q (d :: c :: body) r'
      | [] => None
      end
    else if Ascii.eqb c LF then None
    else if Ascii.eqb c q then lex_act txt lt false false (c :: body) r
    else lex_quote txt lt q (c :: body) r
  end

(* lexRawQuote *)
with lex_raw (txt : bytes) (lt : bool) (body : bytes) (s : bytes) {struct s} : option (list seg) :=
  match s with
  | [] => None                                                   (* unterminated raw quoted string *)
  | c :: r =>
    if Ascii.eqb c "`" then lex_act txt lt false false (c :: body) r
    else lex_raw txt lt (c :: body) r
  end

(* lexComment: to the first "*/", which the right delimiter must follow at once; no item is emitted *)
with lex_comm (txt : bytes) (s : bytes) {struct s} : option (list seg) :=
  match s with
  | [] => None                                                   (* unclosed comment *)
  | c :: r =>
    if Ascii.eqb c "*" then
      match r with
      | d :: r' =>
        if Ascii.eqb d "/" then
          if at_rdelim r' then
            match r' with _ :: _ :: r'' => oemit txt (lex_text false [] r'') | _ => None end
          else if at_rtrim r' then
            match r' with _ :: _ :: _ :: _ :: r'' => oemit txt (lex_text true [] r'') | _ => None end
          else None                                              (* comment ends before closing delimiter *)
        else lex_comm txt r
      | [] => None
      end
    else lex_comm txt r
  end.

Definition segment (s : bytes) : option (list seg) := lex_text false [] s.

(* ---- what a segment prints when it is static ---------------------------------------------------- *)
(* the body is one interpreted string literal without escapes: its value is what is between the quotes *)
Definition plain_str_char (c : ascii) : bool :=
  negb (Ascii.eqb c """") && negb (Ascii.eqb c "\") && negb (Ascii.eqb c LF).
Definition str_lit (body : bytes) : option bytes :=
  match body with
  | q :: r =>
    match rev r with
    | q2 :: m => if Ascii.eqb q """" && Ascii.eqb q2 """" && forallb plain_str_char m then Some (rev m) else None
    | [] => None
    end
  | [] => None
  end.
Definition seg_value (g : seg) : option bytes :=
  match g with
  | SText s => Some s
  | SAct false body false => str_lit body
  | SAct _ _ _ => None
  end.
Fixpoint segs_value (l : list seg) : option bytes :=
  match l with
  | [] => Some []
  | g :: r => match seg_value g, segs_value r with Some a, Some b => Some (a ++ b) | _, _ => None end
  end.
Definition seg_has_marker (g : seg) : bool :=
  match g with SAct l _ r => l || r | SText _ => false end.

(* ---- the same cut on the token stream of Tmpl/IR.v ------------------------------------------------ *)
(* what [segment] should deliver for a printed token list, according to IR.v's [lexed] *)
Definition body_of (txt : bytes) (lt rt : bool) : bytes :=
  let a := skipn (if lt then 4 else 2) txt in
  firstn (length a - (if rt then 4 else 2)) a.
Definition seg_of_tok (t : tok) : seg :=
  match t with
  | TText s => SText s
  | TAct txt lt rt _ => SAct lt (body_of txt lt rt) rt
  end.
