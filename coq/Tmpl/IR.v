(* The forked text/template language as a tree (what pugjs/parse produces). *)
From PV Require Import Base.Bytes.

Inductive targ :=
| ANum (z : Z)
| ANumF (txt : bytes)
| AStr (s : bytes)
| ABool (b : bool)
| ADot
| AVar (x : bytes) (fields : list bytes)      (* $x.f1.f2 ; x without the dollar *)
| AField (fields : list bytes)                (* .f1.f2 *)
| AIdent (f : bytes)                          (* function name *)
| APipe (decl : list bytes) (cmds : list (list targ))   (* ( pipeline ) *)
| AChain (a : targ) (fields : list bytes).    (* operand.f1.f2 *)

Definition tpipe : Type := list bytes * list (list targ).

Inductive act :=
| AcPipe (p : tpipe)
| AcIf (p : tpipe)
| AcElseIf (p : tpipe)
| AcElse
| AcEnd
| AcRange (p : tpipe)
| AcTemplate (name : bytes) (is_var : bool) (arg : option tpipe)  (* is_var: name is a variable (without $) *)
| AcDefine (name : bytes).

Inductive tok :=
| TText (s : bytes)
| TAct (txt : bytes) (ltrim rtrim : bool) (a : act).

Inductive tnode :=
| NText (s : bytes)
| NAction (p : tpipe)
| NIf (p : tpipe) (th el : list tnode)
| NRange (p : tpipe) (body el : list tnode)
| NTemplate (name : bytes) (is_var : bool) (arg : option tpipe).

Definition tok_text (t : tok) : bytes :=
  match t with TText s => s | TAct txt _ _ _ => txt end.
Definition show_toks (ts : list tok) : bytes := flat_map tok_text ts.

(* ---- what the lexer does with text around trim markers ------------------ *)
Definition is_space (c : ascii) : bool :=
  let n := N_of_ascii c in N.eqb n 32 || N.eqb n 9 || N.eqb n 13 || N.eqb n 10.
Fixpoint trim_left (s : bytes) : bytes :=
  match s with c :: r => if is_space c then trim_left r else s | [] => [] end.
Definition trim_right (s : bytes) : bytes := rev (trim_left (rev s)).

(* adjacent text tokens form one text item for the lexer *)
Fixpoint merge_text (ts : list tok) : list tok :=
  match ts with
  | TText a :: r =>
    match merge_text r with
    | TText b :: r' => TText (a ++ b) :: r'
    | r' => TText a :: r'
    end
  | t :: r => t :: merge_text r
  | [] => []
  end.

Definition act_rtrim (t : tok) : bool := match t with TAct _ _ r _ => r | _ => false end.
Definition act_ltrim (t : tok) : bool := match t with TAct _ l _ _ => l | _ => false end.

(* prev_r: the previous token is an action with a right trim marker *)
Fixpoint apply_trims (prev_r : bool) (ts : list tok) : list tok :=
  match ts with
  | [] => []
  | TText s :: r =>
    let s1 := if prev_r then trim_left s else s in
    let s2 := match r with t :: _ => if act_ltrim t then trim_right s1 else s1 | [] => s1 end in
    match s2 with
    | [] => apply_trims false r
    | _ => TText s2 :: apply_trims false r
    end
  | t :: r => t :: apply_trims (act_rtrim t) r
  end.

Definition lexed (ts : list tok) : list tok := apply_trims false (merge_text ts).

(* ---- block structure (parse.go itemList / parseControl) ------------------ *)
Inductive stop := StopEOF | StopEnd | StopElse | StopElseIf (p : tpipe) | StopDefine (n : bytes).

(* returns the node list, why it stopped, and the remaining tokens *)
Fixpoint parse_list (fuel : nat) (ts : list tok) : option (list tnode * stop * list tok) :=
  match fuel with
  | O => None
  | S f =>
    match ts with
    | [] => Some ([], StopEOF, [])
    | TText s :: r =>
      match parse_list f r with
      | Some (ns, st, rest) => Some (NText s :: ns, st, rest)
      | None => None
      end
    | TAct _ _ _ a :: r =>
      match a with
      | AcEnd => Some ([], StopEnd, r)
      | AcElse => Some ([], StopElse, r)
      | AcElseIf p => Some ([], StopElseIf p, r)
      | AcDefine n => Some ([], StopDefine n, r)
      | AcPipe p =>
        match parse_list f r with
        | Some (ns, st, rest) => Some (NAction p :: ns, st, rest)
        | None => None
        end
      | AcTemplate n v arg =>
        match parse_list f r with
        | Some (ns, st, rest) => Some (NTemplate n v arg :: ns, st, rest)
        | None => None
        end
      | AcIf p =>
        match parse_if f p r with
        | Some (n, rest) =>
          match parse_list f rest with
          | Some (ns, st, rest') => Some (n :: ns, st, rest')
          | None => None
          end
        | None => None
        end
      | AcRange p =>
        match parse_list f r with
        | Some (body, StopEnd, rest) =>
          match parse_list f rest with
          | Some (ns, st, rest') => Some (NRange p body [] :: ns, st, rest')
          | None => None
          end
        | Some (body, StopElse, rest) =>
          match parse_list f rest with
          | Some (el, StopEnd, rest2) =>
            match parse_list f rest2 with
            | Some (ns, st, rest') => Some (NRange p body el :: ns, st, rest')
            | None => None
            end
          | _ => None
          end
        | _ => None
        end
      end
    end
  end
with parse_if (fuel : nat) (p : tpipe) (ts : list tok) : option (tnode * list tok) :=
  match fuel with
  | O => None
  | S f =>
    match parse_list f ts with
    | Some (th, StopEnd, rest) => Some (NIf p th [], rest)
    | Some (th, StopElse, rest) =>
      match parse_list f rest with
      | Some (el, StopEnd, rest2) => Some (NIf p th el, rest2)
      | _ => None
      end
    | Some (th, StopElseIf q, rest) =>
      match parse_if f q rest with
      | Some (n, rest2) => Some (NIf p th [n], rest2)
      | None => None
      end
    | _ => None
    end
  end.

Record program := { p_main : list tnode; p_defs : list (bytes * list tnode) }.

(* parse.go parse(): top-level items go to the main template, each
   {{define "n"}} ... {{end}} becomes its own template (a later definition of the
   same name replaces an earlier one: lookups take the last) *)
Fixpoint parse_top (fuel : nat) (ts : list tok) (main : list tnode) (defs : list (bytes * list tnode))
  : option program :=
  match fuel with
  | O => None
  | S f =>
    match parse_list (S (length ts)) ts with
    | Some (ns, StopEOF, _) => Some {| p_main := main ++ ns; p_defs := defs |}
    | Some (ns, StopDefine n, rest) =>
      match parse_list (S (length rest)) rest with
      | Some (body, StopEnd, rest2) => parse_top f rest2 (main ++ ns) (defs ++ [(n, body)])
      | _ => None
      end
    | _ => None
    end
  end.

Definition parse_program (ts : list tok) : option program :=
  let l := lexed ts in parse_top (S (length l)) l [] [].
