(* Model of the forked template executor pugjs/tpl_exec.go: variables are never popped,
   lookups go from the top of the stack, range <bool> is a while loop with an iteration cap,
   __freeze / boundBlocks bind mixin blocks to the caller's frame.
   Recursion is on explicit fuel (nesting depth / loop iterations / template calls). *)
From PV Require Import Base.Bytes Base.Escape Tmpl.Value Tmpl.IR Tmpl.Runtime.

(* ---- variables -------------------------------------------------------------- *)
Definition vars := list (bytes * val).          (* oldest first *)

Fixpoint var_get (vs : vars) (x : bytes) : option val :=
  match vs with
  | [] => None
  | (k, v) :: r =>
    match var_get r x with
    | Some w => Some w
    | None => if beqb k x then Some v else None
    end
  end.
Definition var_val (vs : vars) (x : bytes) : val :=
  match var_get vs x with Some v => v | None => VInvalid end.

Fixpoint var_upd (vs : vars) (x : bytes) (v : val) : option vars :=
  match vs with
  | [] => None
  | (k, w) :: r =>
    match var_upd r x v with
    | Some r' => Some ((k, w) :: r')
    | None => if beqb k x then Some ((k, v) :: r) else None
    end
  end.
(* setVarValue: re-assign the innermost existing variable or push a new one *)
Definition var_set (vs : vars) (x : bytes) (v : val) : vars :=
  match var_upd vs x v with Some l => l | None => vs ++ [(x, v)] end.

(* ---- function signatures ------------------------------------------------------ *)
Definition sig : Type := list pty * option pty.
Definition two : sig := ([PIface; PIface], None).
Definition builtin_sigs : list (bytes * sig) :=
  [(B "__op__add", two); (B "__op__mul", two); (B "__op__slash", two); (B "__op__quo", two);
   (B "__op__mod", two); (B "__op__eql", two); (B "__op__neq", two); (B "__op__lt", two);
   (B "__op__gt", two); (B "__op__lte", two); (B "__op__gte", two);
   (B "__op__sub", ([], Some PIface));
   (B "__op__inc", ([PIface], None)); (B "__op__dec", ([PIface], None));
   (B "__op__and", ([PValue], Some PValue)); (B "__op__or", ([PValue], Some PValue));
   (B "__op__not", ([PValue], None));
   (B "__pug__html", ([], Some PIface));
   (B "__pug__index", ([PValue], Some PValue));
   (B "__tryindex", two);
   (B "__if", ([PIface; PIface; PIface], None));
   (B "__str", ([], Some PIface)); (B "__op__array", ([], Some PIface));
   (B "__op__map", ([], Some PIface)); (B "__op__map_params", ([], Some PIface));
   (B "__attr", ([PString; PIface; PBool], None));
   (B "__attrs", ([], Some PArrayP));
   (B "__and_attrs", ([PMapP], None));
   (B "json", ([PIface], None));
   (B "parseInt", ([PIface], None));
   (B "Math", ([], None)); (B "JSON", ([], None)); (B "Object", ([], None))].

Definition mod_sig (m name : bytes) : option sig :=
  if beqb m (B "Math") then
    if beqb name (B "round") || beqb name (B "ceil") || beqb name (B "trunc") then Some ([PIface], None)
    else if beqb name (B "min") || beqb name (B "max") then Some ([], Some PIface)
    else None
  else if beqb m (B "JSON") then
    if beqb name (B "stringify") then Some ([PIface], None) else None
  else if beqb m (B "Object") then
    if beqb name (B "keys") then Some ([PIface], None)
    else if beqb name (B "assign") then Some ([PMapP], Some PMapP)
    else None
  else None.

Definition bool_val (b : bool) : val := VBool b.

Definition isf (f : bytes) (n : string) : bool := beqb f (B n).

Definition apply_builtin (h : heap) (f : bytes) (args : list val) : res (val * heap) :=
  let pure (r : res val) : res (val * heap) := do v <- r; Ok (v, h) in
  let pureb (r : res bool) : res (val * heap) := do b <- r; Ok (VBool b, h) in
  match args with
  | [x; y] =>
    if isf f "__op__add" then pure (rt_add h x y)
    else if isf f "__op__mul" then pure (rt_mul x y)
    else if isf f "__op__slash" || isf f "__op__quo" then pure (rt_quo x y)
    else if isf f "__op__mod" then pure (rt_rem x y)
    else if isf f "__op__eql" then pureb (rt_eql h x y)
    else if isf f "__op__neq" then pureb (do b <- rt_eql h x y; Ok (negb b))
    else if isf f "__op__lt" then pureb (rt_lss x y)
    else if isf f "__op__gt" then pureb (do l <- rt_lss x y; do e <- rt_eql h x y; Ok (negb l && negb e))
    else if isf f "__op__gte" then pureb (do l <- rt_lss x y; Ok (negb l))
    else if isf f "__op__lte" then pureb (do l <- rt_lss x y; if l then Ok true else rt_eql h x y)
    else if isf f "__tryindex" then pure (rt_tryindex h x y)
    else if isf f "__pug__index" then pure (rt_index h x y)
    else if isf f "__op__sub" then pure (rt_sub args)
    else if isf f "__op__and" then pure (rt_and h x [y])
    else if isf f "__op__or" then pure (rt_or h x [y])
    else if isf f "__str" then pure (rt_str h args)
    else if isf f "__op__array" then rt_array h args
    else if isf f "__op__map" then rt_map h args
    else if isf f "__op__map_params" then rt_map_params h args
    else if isf f "__attrs" then pure (rt_attrs args)
    else if isf f "__pug__html" then pure (rt_html h args)
    else Unmod
  | _ =>
    if isf f "__op__sub" then pure (rt_sub args)
    else if isf f "__op__inc" then match args with [x] => pure (rt_incdec 1 x) | _ => Panic end
    else if isf f "__op__dec" then match args with [x] => pure (rt_incdec (-1) x) | _ => Panic end
    else if isf f "__op__and" then match args with x :: r => pure (rt_and h x r) | [] => Panic end
    else if isf f "__op__or" then match args with x :: r => pure (rt_or h x r) | [] => Panic end
    else if isf f "__op__not" then match args with [x] => pureb (do t <- truthy h x; Ok (negb t)) | _ => Panic end
    else if isf f "__pug__html" then pure (rt_html h args)
    else if isf f "__pug__index" then match args with [x] => Ok (box_valid x, h) | _ => Unmod end
    else if isf f "__if" then
      match args with
      | [t; a; b] => do c <- truthy h t; Ok (box (if c then a else b), h)
      | _ => Panic
      end
    else if isf f "__str" then pure (rt_str h args)
    else if isf f "__op__array" then rt_array h args
    else if isf f "__op__map" then rt_map h args
    else if isf f "__op__map_params" then rt_map_params h args
    else if isf f "__attr" then
      match args with
      | [VGoStr k; v; VGoBool e] => pure (rt_attr h k v e)
      | _ => Panic
      end
    else if isf f "__attrs" then pure (rt_attrs args)
    else if isf f "__and_attrs" then match args with [m] => rt_and_attrs h m | _ => Panic end
    else if isf f "json" then
      match args with [x] => pure (do t <- of_opt (to_json h x); Ok (VStr t)) | _ => Panic end
    else if isf f "parseInt" then match args with [x] => pure (rt_parse_int x) | _ => Panic end
    else if isf f "Math" || isf f "JSON" || isf f "Object" then Ok (VMod f, h)
    else Unmod
  end.

Definition apply_mod (h : heap) (m name : bytes) (args : list val) : res (val * heap) :=
  let pure (r : res val) : res (val * heap) := do v <- r; Ok (v, h) in
  if beqb m (B "Math") then
    if beqb name (B "min") then pure (rt_minmax false args)
    else if beqb name (B "max") then pure (rt_minmax true args)
    else match args with [x] => pure (rt_math1 x) | _ => Panic end
  else if beqb m (B "JSON") then
    match args with [x] => pure (do t <- of_opt (to_json h x); Ok (VStr t)) | _ => Panic end
  else if beqb m (B "Object") then
    if beqb name (B "keys") then match args with [x] => rt_object_keys h x | _ => Panic end
    else match args with
         | VMap t :: sources => do h' <- rt_object_assign h t sources; Ok (VMap t, h')
         | VNil :: _ => Panic
         | _ => Unmod
         end
  else Unmod.

(* evalArg on a literal node, by parameter type *)
Definition coerce_lit (t : pty) (a : targ) : res val :=
  match a, t with
  | ANum z, (PIface | PValue) => Ok (VInt z)
  | ANum z, (PObject | PNumber) => Ok (VNum z)
  | ANum _, _ => Panic
  | AStr s, (PIface | PValue | PString) => Ok (VGoStr s)
  | AStr s, PObject => Ok (VStr s)
  | AStr _, _ => Panic
  | ABool b, (PIface | PValue | PBool) => Ok (VGoBool b)
  | ABool b, PObject => Ok (VBool b)
  | ABool _, _ => Panic
  | _, _ => Unmod
  end.

Definition is_lit (a : targ) : bool :=
  match a with ANum _ | AStr _ | ABool _ | ANumF _ => true | _ => false end.
Definition valid (v : val) : bool := match v with VInvalid => false | _ => true end.

Record env := { e_vars : vars; e_dot : val }.

(* ---- expression level: pipelines, commands, arguments ---------------------------- *)
Fixpoint eval_cmds (fuel : nat) (E : env) (h : heap) (cmds : list (list targ)) (final : val) {struct fuel}
  : res (val * heap) :=
  match fuel with
  | O => OutOfFuel
  | S f =>
    match cmds with
    | [] => Ok (final, h)
    | c :: r => do x <- eval_cmd f E h c final; let '(v, h1) := x in eval_cmds f E h1 r v
    end
  end

with eval_cmd (fuel : nat) (E : env) (h : heap) (args : list targ) (final : val) {struct fuel}
  : res (val * heap) :=
  match fuel with
  | O => OutOfFuel
  | S f =>
    let not_a_function (rest : list targ) (v : val) : res (val * heap) :=
      match rest with [] => if valid final then Panic else Ok (v, h) | _ => Panic end in
    match args with
    | [] => Unmod
    | first :: rest =>
      match first with
      | AIdent fn => call_ident f E h fn rest final
      | APipe [] cmds => eval_cmds f E h cmds VInvalid
      | APipe _ _ => Unmod
      | AVar x [] => not_a_function rest (var_val (e_vars E) x)
      | AVar x fs => field_chain f E h (var_val (e_vars E) x) fs rest final
      | AChain a fs => do b <- eval_operand f E h a; let '(bv, h1) := b in field_chain f E h1 bv fs rest final
      | AField _ => Unmod
      | ANum z => not_a_function rest (VInt z)
      | AStr s => not_a_function rest (VGoStr s)
      | ABool b => not_a_function rest (VGoBool b)
      | ADot => not_a_function rest (e_dot E)
      | ANumF _ => Unmod
      end
    end
  end

with eval_operand (fuel : nat) (E : env) (h : heap) (a : targ) {struct fuel} : res (val * heap) :=
  match fuel with
  | O => OutOfFuel
  | S f =>
    match a with
    | AVar x [] => Ok (var_val (e_vars E) x, h)
    | AVar x fs => field_chain f E h (var_val (e_vars E) x) fs [] VInvalid
    | APipe [] cmds => eval_cmds f E h cmds VInvalid
    | APipe _ _ => Unmod
    | AIdent fn => call_ident f E h fn [] VInvalid
    | AChain b fs => do x <- eval_operand f E h b; let '(bv, h1) := x in field_chain f E h1 bv fs [] VInvalid
    | ADot => Ok (e_dot E, h)
    | ANum z => Ok (VInt z, h)
    | AStr s => Ok (VGoStr s, h)
    | ABool b => Ok (VGoBool b, h)
    | AField _ | ANumF _ => Unmod
    end
  end

with field_chain (fuel : nat) (E : env) (h : heap) (recv : val) (fs : list bytes)
                 (args : list targ) (final : val) {struct fuel} : res (val * heap) :=
  match fuel with
  | O => OutOfFuel
  | S f =>
    match fs with
    | [] => Ok (recv, h)
    | [name] => eval_field f E h recv name args final
    | name :: r =>
      do x <- eval_field f E h recv name [] VInvalid; let '(v, h1) := x in field_chain f E h1 v r args final
    end
  end

with eval_field (fuel : nat) (E : env) (h : heap) (recv : val) (name : bytes)
                (args : list targ) (final : val) {struct fuel} : res (val * heap) :=
  match fuel with
  | O => OutOfFuel
  | S f =>
    match recv with
    | VInvalid => Ok (VInvalid, h)
    | VArr l =>
      match array_sig name with
      | Some sg => do x <- eval_args f E h sg args final; let '(vs, h1) := x in array_method h1 l name vs
      | None => Panic
      end
    | VStr s =>
      match string_sig name with
      | Some sg => do x <- eval_args f E h sg args final; let '(vs, h1) := x in string_method h1 s name vs
      | None => if beqb name (B "replace") then Unmod else Ok (VNil, h)
      end
    | VGoStr s =>
      match string_sig name with
      | Some sg => do x <- eval_args f E h sg args final; let '(vs, h1) := x in string_method h1 s name vs
      | None => if beqb name (B "replace") then Unmod else Panic
      end
    | VNum _ | VBool _ | VNil => Ok (VNil, h)
    | VMap l =>
      if beqb name (B "__assign") then
        do x <- eval_args f E h two args final; let '(vs, h1) := x in
        match vs with
        | [k; v] =>
          match v with VAttrs _ | VMod _ => Unmod | _ =>
          do ks <- txt h1 k; do h2 <- map_assign h1 l ks (box v); Ok (VNil, h2)
          end
        | _ => Panic
        end
      else
        match hget h l with
        | Some (OMap items _) => Ok (box (member_lookup items name), h)
        | _ => Unmod
        end
    | VMod m =>
      match mod_sig m name with
      | Some sg => do x <- eval_args f E h sg args final; let '(vs, h1) := x in apply_mod h1 m name vs
      | None => Unmod
      end
    | VInt _ | VGoBool _ => Panic
    | VAttrs _ => Unmod
    end
  end

with eval_args (fuel : nat) (E : env) (h : heap) (sg : sig) (args : list targ) (final : val) {struct fuel}
  : res (list val * heap) :=
  match fuel with
  | O => OutOfFuel
  | S f =>
    let '(fixed, variadic) := sg in
    let n := length args + (if valid final then 1 else 0) in
    let arity_ok := match variadic with
                    | None => Nat.eqb n (length fixed)
                    | Some _ => Nat.leb (length fixed) n
                    end in
    if negb arity_ok then Panic else
    let ty (i : nat) : option pty :=
      match nth_error fixed i with Some t => Some t | None => variadic end in
    let go := fix go (l : list targ) (i : nat) (h : heap) : res (list val * heap) :=
      match l with
      | [] =>
        if valid final then
          match ty i with
          | Some t => do v <- coerce_val t final; Ok ([v], h)
          | None => Panic
          end
        else Ok ([], h)
      | a :: r =>
        match ty i with
        | None => Panic
        | Some t =>
          do x <- (if is_lit a then do v <- coerce_lit t a; Ok (v, h)
                   else do y <- eval_operand f E h a; let '(v0, h1) := y in
                        do v <- coerce_val t v0; Ok (v, h1));
          let '(v, h1) := x in
          do rest <- go r (S i) h1; let '(vs, h2) := rest in Ok (v :: vs, h2)
        end
      end in
    go args 0 h
  end

with call_ident (fuel : nat) (E : env) (h : heap) (fn : bytes) (args : list targ) (final : val) {struct fuel}
  : res (val * heap) :=
  match fuel with
  | O => OutOfFuel
  | S f =>
    if beqb fn (B "null") then Ok (VNil, h)
    else if beqb fn (B "__freeze") then Unmod
    else match lookup fn builtin_sigs with
         | Some sg => do x <- eval_args f E h sg args final; let '(vs, h1) := x in apply_builtin h1 fn vs
         | None => Unmod
         end
  end.

Definition expr_fuel : nat := 400.

Definition eval_pipeline (E : env) (h : heap) (p : tpipe) : res (val * heap) :=
  eval_cmds expr_fuel E h (snd p) VInvalid.

(* ---- statement level ---------------------------------------------------------------- *)
Record frame := {
  f_vars : vars;
  f_globals : vars;
  f_bound : list (bytes * nat);     (* block name -> index of the frame that froze it *)
  f_depth : nat;                    (* state.depth: height of the stack of executing templates *)
}.

Record xstate := {
  x_frames : list frame;            (* the last one is the executing frame *)
  x_heap : heap;
  x_out : list bytes;               (* chunks, newest first *)
}.

Definition cur (s : xstate) : frame :=
  match rev (x_frames s) with f :: _ => f | [] => {| f_vars := []; f_globals := []; f_bound := []; f_depth := 0 |} end.
Definition set_cur (s : xstate) (f : frame) : xstate :=
  {| x_frames := removelast (x_frames s) ++ [f]; x_heap := x_heap s; x_out := x_out s |}.
Definition set_vars (s : xstate) (vs : vars) : xstate :=
  let c := cur s in set_cur s {| f_vars := vs; f_globals := f_globals c; f_bound := f_bound c; f_depth := f_depth c |}.
Definition set_heap (s : xstate) (h : heap) : xstate :=
  {| x_frames := x_frames s; x_heap := h; x_out := x_out s |}.
Definition emit (s : xstate) (b : bytes) : xstate :=
  {| x_frames := x_frames s; x_heap := x_heap s; x_out := b :: x_out s |}.
Definition output (s : xstate) : bytes := concat_bytes (rev (x_out s)).

Definition env_of (s : xstate) (dot : val) : env := {| e_vars := f_vars (cur s); e_dot := dot |}.

(* printValue *)
Definition print_text (h : heap) (v : val) : res bytes :=
  match v with
  | VInvalid => Unmod
  | VInt z => Ok (show_Z z)
  | VGoStr s => Ok s
  | VGoBool b => Ok (if b then B "true" else B "false")
  | _ => of_opt (to_text h v)
  end.

Definition while_cap : nat := 100 * 100.     (* "max iteration of 10000 in while loop" *)

(* walkTemplate: the latest binding of that name made by a frame above the executing one
   (scope.depth < s.depth); frames: the live frame list, the scope's depth is read through it *)
Fixpoint find_last_bound (frames : list frame) (depth : nat) (l : list (bytes * nat)) (name : bytes)
  : option nat :=
  match l with
  | [] => None
  | (k, fr) :: r =>
    match find_last_bound frames depth r name with
    | Some x => Some x
    | None =>
      if beqb k name then
        match nth_error frames fr with
        | Some sc => if Nat.ltb (f_depth sc) depth then Some fr else None
        | None => None
        end
      else None
    end
  end.

Definition lookup_def (defs : list (bytes * list tnode)) (name : bytes) : option (list tnode) :=
  lookup name (rev defs).

Definition set_decl (vs : vars) (decl : list bytes) (v : val) : vars :=
  fold_left (fun acc x => var_set acc x v) decl vs.

(* walkRange up to the point where the body starts: evaluate the pipeline, set the declared variables,
   decide what is iterated *)
Inductive rplan :=
| RElse (s : xstate)                              (* nothing to iterate: the else list *)
| RIter (s : xstate) (pairs : list (val * val))   (* (index/key, element) in iteration order *)
| RWhile (s : xstate) (v : val)                   (* range <true>: while loop *)
| RDone (s : xstate).                             (* range <false>; ordered map without members *)

Definition range_plan (dot : val) (s : xstate) (p : tpipe) : res rplan :=
  let '(decl, cmds) := p in
  (* declared variables are pushed first, then the pipeline sets them to the collection *)
  let s0 := set_vars s (f_vars (cur s) ++ map (fun x => (x, VInvalid)) decl) in
  do x <- eval_pipeline (env_of s0 dot) (x_heap s0) (decl, cmds);
  let '(v, h1) := x in
  let s1 := set_heap s0 h1 in
  let s2 := set_vars s1 (set_decl (f_vars (cur s1)) decl v) in
  let iter_list (pairs : list (val * val)) : rplan :=
    match pairs with [] => RElse s2 | _ => RIter s2 pairs end in
  match v with
  | VArr l =>
    match hget h1 l with
    | Some (OArr items) =>
      Ok (iter_list (combine (map (fun i => VInt (Z.of_nat i)) (seq 0 (length items))) items))
    | _ => Unmod
    end
  | VMap l =>
    match hget h1 l with
    | Some (OMap items order) =>
      match order with
      | [] => Ok (iter_list (map (fun k => (VGoStr k, member_lookup items k)) (sort_bytes (keys items))))
      | _ =>
        (* ordered map: no else branch even when nothing is iterated *)
        Ok (match map (fun k => (VGoStr k, member_lookup items k)) (filter (fun k => mem k (keys items)) order) with
            | [] => RDone s2
            | pairs => RIter s2 pairs
            end)
      end
    | _ => Unmod
    end
  | VNil | VInvalid => Ok (RElse s2)
  | VBool b | VGoBool b => Ok (if b then RWhile s2 v else RDone s2)
  | VAttrs _ | VMod _ => Unmod
  | _ => Panic
  end.

(* walkTemplate up to the point where the callee starts: resolve the name, evaluate the argument,
   choose the callee frame; None = the template does not exist (nothing happens) *)
Definition template_plan (defs : list (bytes * list tnode)) (dot : val) (s : xstate)
           (name : bytes) (is_var : bool) (arg : option tpipe)
  : res (option (list tnode * val * xstate)) :=
  let c := cur s in
  let target : res (option bytes) :=
    if is_var then
      match var_val (f_vars c) name with
      | VStr t | VGoStr t => Ok (Some t)
      | VNil | VInvalid => Ok None
      | _ => Unmod
      end
    else Ok (Some name) in
  do tn <- target;
  match tn with
  | None => Ok None
  | Some tname =>
    match lookup_def defs tname with
    | None => Ok None
    | Some body =>
      do x <- (match arg with
               | Some p => eval_pipeline (env_of s dot) (x_heap s) p
               | None => Ok (VInvalid, x_heap s)
               end);
      let '(newdot, h1) := x in
      let s1 := set_heap s h1 in
      let s1' := match arg with
                 | Some p => set_vars s1 (set_decl (f_vars (cur s1)) (fst p) newdot)
                 | None => s1 end in
      let c1 := cur s1' in
      let callee :=
        match find_last_bound (x_frames s1') (f_depth c1) (f_bound c1) tname with
        | Some fr =>
          (* the block content runs in a copy of the frame that bound it (at that frame's depth);
             the binding stays, so a mixin can place its block more than once *)
          nth fr (x_frames s1') c1
        | None =>
          {| f_vars := f_globals c1; f_globals := f_globals c1; f_bound := f_bound c1;
             f_depth := S (f_depth c1) |}
        end in
      Ok (Some (body, newdot,
                {| x_frames := x_frames s1' ++ [callee]; x_heap := x_heap s1'; x_out := x_out s1' |}))
    end
  end.

Section Exec.
  Variable defs : list (bytes * list tnode).

  Fixpoint exec_nodes (fuel : nat) (dot : val) (s : xstate) (ns : list tnode) {struct fuel} : res xstate :=
    match fuel with
    | O => OutOfFuel
    | S f =>
      match ns with
      | [] => Ok s
      | n :: r => do s1 <- exec_node f dot s n; exec_nodes f dot s1 r
      end
    end

  with exec_node (fuel : nat) (dot : val) (s : xstate) (n : tnode) {struct fuel} : res xstate :=
    match fuel with
    | O => OutOfFuel
    | S f =>
      match n with
      | NText t => Ok (emit s t)
      | NAction ([], [[AIdent fz; AStr bn]]) =>
        if beqb fz (B "__freeze") then
          let c := cur s in
          Ok (set_cur s {| f_vars := f_vars c; f_globals := f_globals c;
                           f_bound := f_bound c ++ [(bn, pred (length (x_frames s)))];
                           f_depth := f_depth c |})
        else
          do x <- eval_pipeline (env_of s dot) (x_heap s) ([], [[AIdent fz; AStr bn]]);
          let '(v, h1) := x in do t <- print_text h1 v; Ok (emit (set_heap s h1) t)
      | NAction (decl, cmds) =>
        do x <- eval_pipeline (env_of s dot) (x_heap s) (decl, cmds);
        let '(v, h1) := x in
        let s1 := set_heap s h1 in
        match decl with
        | [] => do t <- print_text h1 v; Ok (emit s1 t)
        | _ => Ok (set_vars s1 (set_decl (f_vars (cur s1)) decl v))
        end
      | NIf p th el =>
        do x <- eval_pipeline (env_of s dot) (x_heap s) p;
        let '(v, h1) := x in
        let s1 := set_heap s h1 in
        let s2 := set_vars s1 (set_decl (f_vars (cur s1)) (fst p) v) in
        do t <- truthy h1 v;
        exec_nodes f dot s2 (if t then th else el)
      | NRange p body el =>
        do pl <- range_plan dot s p;
        match pl with
        | RElse s2 => exec_nodes f dot s2 el
        | RIter s2 pairs => exec_iter f s2 (fst p) body pairs
        | RWhile s2 v => exec_while f dot s2 p body while_cap v
        | RDone s2 => Ok s2
        end
      | NTemplate name is_var arg =>
        do tp <- template_plan defs dot s name is_var arg;
        match tp with
        | None => Ok s
        | Some (body, newdot, s3) =>
          do s4 <- exec_nodes f newdot s3 body;
          Ok {| x_frames := removelast (x_frames s4); x_heap := x_heap s4; x_out := x_out s4 |}
        end
      end
    end

  with exec_iter (fuel : nat) (s : xstate) (decl : list bytes) (body : list tnode)
                 (pairs : list (val * val)) {struct fuel} : res xstate :=
    match fuel with
    | O => OutOfFuel
    | S f =>
      match pairs with
      | [] => Ok s
      | (k, v) :: r =>
        let vs := f_vars (cur s) in
        let vs' := match decl with
                   | [a; b] => var_set (var_set vs a k) b v
                   | [a] => var_set vs a v
                   | _ => vs
                   end in
        do s1 <- exec_nodes f v (set_vars s vs') body;
        exec_iter f s1 decl body r
      end
    end

  with exec_while (fuel : nat) (dot : val) (s : xstate) (p : tpipe) (body : list tnode)
                  (budget : nat) (v : val) {struct fuel} : res xstate :=
    (* v: the current (true) value of the test; budget: iterations left before the cap error *)
    match fuel with
    | O => OutOfFuel
    | S f =>
      do s1 <- exec_nodes f v s body;
      do x <- eval_pipeline (env_of s1 dot) (x_heap s1) p;
      let '(v', h1) := x in
      let s2 := set_heap s1 h1 in
      match budget with
      | O => Panic                                  (* i > 10000 *)
      | S b =>
        match v' with
        | VBool true | VGoBool true => exec_while f dot s2 p body b v'
        | VBool false | VGoBool false => Ok s2
        | VAttrs _ | VMod _ => Unmod
        | _ => Panic                                (* reflect: Bool() of a non-bool value *)
        end
      end
    end.
End Exec.

(* ---- data conversion (types.go convert) and the start of execution ------------------ *)
Inductive dval :=
| DNil | DBool (b : bool) | DInt (z : Z) | DStr (s : bytes)
| DArr (l : list dval) | DMap (l : list (bytes * dval)).

Fixpoint convert (h : heap) (d : dval) {struct d} : val * heap :=
  match d with
  | DNil => (VNil, h)
  | DBool b => (VBool b, h)
  | DInt z => (VNum z, h)
  | DStr s => (VStr s, h)
  | DArr l =>
    let '(items, h1) :=
      (fix go (l : list dval) (h : heap) : list val * heap :=
         match l with
         | [] => ([], h)
         | x :: r => let '(v, h1) := convert h x in let '(vs, h2) := go r h1 in (v :: vs, h2)
         end) l h in
    let '(loc, h2) := alloc h1 (OArr items) in (VArr loc, h2)
  | DMap l =>
    let '(items, h1) :=
      (fix go (l : list (bytes * dval)) (h : heap) : list (bytes * val) * heap :=
         match l with
         | [] => ([], h)
         | (k, x) :: r => let '(v, h1) := convert h x in let '(vs, h2) := go r h1 in (insert k v vs, h2)
         end) l h in
    let '(loc, h2) := alloc h1 (OMap items []) in (VMap loc, h2)
  end.

(* Template.execute: $ (not modelled as a value), then for every top-level key k (sorted here;
   Go ranges over the map) $k and $lowerFirst(k), then $global *)
Definition init_state (data : dval) : option xstate :=
  match data with
  | DMap l =>
    let '(v, h1) := convert [] data in
    match v with
    | VMap loc =>
      match hget h1 loc with
      | Some (OMap items _) =>
        let ks := sort_bytes (keys items) in
        let globals := flat_map (fun k => let x := member_lookup items k in [(k, x); (lower_first k, x)]) ks in
        let '(gl, h2) := alloc h1 (OMap [] []) in
        let globals' := globals ++ [(B "global", VMap gl)] in
        Some {| x_frames := [{| f_vars := globals'; f_globals := globals'; f_bound := []; f_depth := 0 |}];
                x_heap := h2; x_out := [] |}
      | _ => None
      end
    | _ => None
    end
  | _ => None
  end.

Definition exec_fuel : nat := 150 * 150.

Inductive outcome := OOk (out : bytes) | OPanic | OUnmod | OFuel.

Definition run_program (p : program) (data : dval) : outcome :=
  match init_state data with
  | None => OUnmod
  | Some s =>
    match exec_nodes (p_defs p) exec_fuel VInvalid s (p_main p) with
    | Ok s' => OOk (output s')
    | Panic => OPanic
    | Unmod => OUnmod
    | OutOfFuel => OFuel
    end
  end.
