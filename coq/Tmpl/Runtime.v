(* Model of the run-time helpers: pugjs/runtime.go (funcmap), tpl_funcs.go (builtins),
   types.go (Member dispatch and methods), templatefunctions (Math, JSON.stringify, Object, parseInt).
   Values in, values out; the heap is threaded where a helper allocates or mutates.
   The model follows the tree AFTER the repairs recorded in KNOWN_FINDINGS.txt as "fixed:". *)
From PV Require Import Base.Bytes Base.Escape Tmpl.Value.
From PV Require Models.Attrs.
Local Open Scope Z_scope.

(* ---- parameter types (reflect types of the Go parameters) ----------------- *)
Inductive pty := PIface | PObject | PNumber | PString | PBool | PValue | PArrayP | PMapP.

(* validateType on an evaluated value *)
Definition coerce_val (t : pty) (v : val) : res val :=
  match t with
  | PIface | PValue => Ok v
  | PObject =>
    match v with
    | VInvalid => Unmod                      (* a nil Object is stored; later use is a nil dereference *)
    | VAttrs _ | VMod _ => Unmod
    | _ => Ok (box v)                        (* natives are converted (repaired validateType) *)
    end
  | PNumber =>
    match v with
    | VNum z | VInt z => Ok (VNum z)
    | VNil => Ok (VNum 0)
    | VAttrs _ | VMod _ => Unmod
    | _ => Panic
    end
  | PString =>
    match v with
    | VGoStr s | VStr s => Ok (VGoStr s)
    | VNum z => match num_text z with Some s => Ok (VGoStr s) | None => Unmod end
    | VBool b => Ok (VGoStr (if b then B "true" else B "false"))
    | VNil => Ok (VGoStr [])
    | VArr _ => Unmod                        (* String() of the array: handled by callers that need it *)
    | VAttrs _ | VMod _ => Unmod
    | _ => Panic
    end
  | PBool => match v with VGoBool b => Ok (VGoBool b) | VAttrs _ | VMod _ => Unmod | _ => Panic end
  | PArrayP => match v with VArr _ | VAttrs _ => Ok v | VMod _ => Unmod | _ => Panic end
  | PMapP => match v with VMap _ => Ok v | VNil | VInvalid => Ok VNil | VAttrs _ | VMod _ => Unmod | _ => Panic end
  end.

(* ---- numbers --------------------------------------------------------------- *)
Definition mknum (z : Z) : res val := if num_ok z then Ok (VNum z) else Unmod.

Inductive kind := KInt (z : Z) | KFloat (z : Z) | KString (s : bytes) | KBool (b : bool) | KOther.
Definition kind_of (v : val) : kind :=
  match v with
  | VInt z => KInt z | VNum z => KFloat z
  | VGoStr s | VStr s => KString s
  | VGoBool b | VBool b => KBool b
  | _ => KOther
  end.

Definition nil_str : val := VStr (B "<nil>").

Definition arith (op : Z -> Z -> Z) (x y : val) : res val :=
  match kind_of x, kind_of y with
  | KInt a, KInt b | KInt a, KFloat b | KFloat a, KInt b | KFloat a, KFloat b => mknum (op a b)
  | _, _ => Ok nil_str
  end.

Definition rt_sub (args : list val) : res val :=
  match args with
  | [] => Panic
  | [a] => arith Z.sub (VInt 0) a
  | a :: b :: _ => arith Z.sub a b
  end.
Definition rt_mul (x y : val) : res val := arith Z.mul x y.

Definition rt_quo (x y : val) : res val :=
  match kind_of x, kind_of y with
  | KInt a, KInt b | KInt a, KFloat b | KFloat a, KInt b | KFloat a, KFloat b =>
    if Z.eqb b 0 then Unmod                          (* +-Inf / NaN *)
    else if Z.eqb (Z.rem a b) 0 then mknum (Z.quot a b) else Unmod
  | _, _ => Ok nil_str
  end.

Definition rt_rem (x y : val) : res val :=
  match kind_of x, kind_of y with
  | KInt a, KInt b | KInt a, KFloat b | KFloat a, KInt b | KFloat a, KFloat b =>
    if Z.eqb b 0 then Panic else mknum (Z.rem a b)   (* int % float: the case added by the repair F-C01-g *)
  | _, _ => Ok nil_str
  end.

Definition rt_incdec (d : Z) (x : val) : res val :=
  match kind_of x with
  | KInt a | KFloat a => mknum (a + d)%Z
  | _ => Ok (VNum 0)
  end.

Definition f6 (z : Z) : bytes := show_Z z ++ B ".000000".     (* fmt %f of an integer-valued float *)

Section WithHeap.
  Variable h : heap.

  Definition txt (v : val) : res bytes := of_opt (to_text h (box v)).

  (* runtimeAdd *)
  Definition plain_int (s : bytes) : option Z :=
    let digits := fix go (l : bytes) (acc : Z) : option Z :=
      match l with
      | [] => Some acc
      | c :: r => if is_digit c then go r (acc * 10 + Z.of_N (N_of_ascii c - 48)%N)%Z else None
      end in
    match s with
    | [] => None
    | c :: r =>
      if Ascii.eqb c "-" then match r with [] => None | _ => option_map Z.opp (digits r 0) end
      else if Ascii.eqb c "+" then match r with [] => None | _ => digits r 0 end
      else digits s 0
    end.
  (* strings strconv.ParseFloat certainly rejects: no digit and no leading i/I/n/N/+/-/. *)
  Definition surely_not_float (s : bytes) : bool :=
    negb (existsb is_digit s) &&
    match s with
    | [] => true
    | c :: _ => negb (existsb (Ascii.eqb c) (B "iInN+-."))
    end.

  Definition rt_add (l r : val) : res val :=
    let x := box l in let y := box r in
    match x with
    | VStr s => do t <- txt y; Ok (VStr (s ++ t))
    | VNum a =>
      match y with
      | VNum b => mknum (a + b)%Z
      | VStr s =>
        match plain_int s with
        | Some b => if Z.ltb (Z.of_nat (length s)) 16 then mknum (a + b)%Z else Unmod
        | None => if surely_not_float s then Ok (VNum a) else Unmod
        end
      | VAttrs _ | VMod _ => Unmod
      | _ => Ok VNil
      end
    | VBool _ | VNil | VArr _ | VMap _ => do a <- txt x; do t <- txt y; Ok (VStr (a ++ t))
    | _ => Unmod
    end.

  (* runtimeEql / runtimeLss *)
  Definition is_object (v : val) : bool :=
    match v with VNum _ | VStr _ | VBool _ | VNil | VArr _ | VMap _ => true | _ => false end.
  Definition is_vnil (v : val) : bool := match v with VNil => true | _ => false end.

  Definition rt_eql (x0 y0 : val) : res bool :=
    match x0, y0 with
    | VAttrs _, _ | VMod _, _ | _, VAttrs _ | _, VMod _ => Unmod
    | _, _ =>
      if is_vnil x0 && is_vnil y0 then Ok true else
      let x := if is_vnil x0 then VInt 0 else x0 in
      let y := if is_vnil y0 then VInt 0 else y0 in
      let fallback :=
        if is_object x && is_object y then do a <- txt x; do b <- txt y; Ok (beqb a b) else Ok false in
      match kind_of x, kind_of y with
      | KInt a, KInt b | KInt a, KFloat b | KFloat a, KInt b | KFloat a, KFloat b => Ok (Z.eqb a b)
      | KInt a, KString s => Ok (beqb (show_Z a) s)
      | KString s, KInt a => Ok (beqb s (show_Z a))
      | KFloat a, KString s => Ok (beqb (f6 a) s)
      | KString s, KFloat a => Ok (beqb s (f6 a))
      | KString s, KString t => Ok (beqb s t)
      | KBool a, KInt b => Ok (a && negb (Z.eqb b 0))
      | KBool a, KBool b => Ok (Bool.eqb a b)
      | _, _ => fallback
      end
    end.

  Definition rt_lss (x0 y0 : val) : res bool :=
    match x0, y0 with
    | VAttrs _, _ | VMod _, _ | _, VAttrs _ | _, VMod _ => Unmod
    | _, _ =>
      if is_vnil x0 && is_vnil y0 then Ok false else
      let x := if is_vnil x0 then VInt 0 else x0 in
      let y := if is_vnil y0 then VInt 0 else y0 in
      match kind_of x, kind_of y with
      | KInt a, KInt b | KInt a, KFloat b | KFloat a, KInt b | KFloat a, KFloat b => Ok (Z.ltb a b)
      | KInt a, KString s => Ok (bytes_ltb (show_Z a) s)
      | KString s, KInt a => Ok (bytes_ltb s (show_Z a))
      | KFloat a, KString s => Ok (bytes_ltb (f6 a) s)
      | KString s, KFloat a => Ok (bytes_ltb s (f6 a))
      | KString s, KString t => Ok (bytes_ltb s t)
      | _, _ => Ok false
      end
    end.

  (* truth (and/or/not) = isTrue (if, after the repair that unwraps interface values) *)
  Definition truthy (v : val) : res bool :=
    match v with
    | VInvalid | VNil => Ok false
    | VInt z | VNum z => Ok (negb (Z.eqb z 0))
    | VGoStr s | VStr s => Ok (match s with [] => false | _ => true end)
    | VGoBool b | VBool b => Ok b
    | VArr l => match hget h l with Some (OArr items) => Ok (match items with [] => false | _ => true end) | _ => Unmod end
    | VMap l => match hget h l with Some (OMap items _) => Ok (match items with [] => false | _ => true end) | _ => Unmod end
    | VAttrs _ | VMod _ => Unmod
    end.

  (* the result of and/or/index: reflect.Value results are converted when valid *)
  Definition box_valid (v : val) : val := match v with VInvalid => VInvalid | _ => box v end.

  Fixpoint rt_and (a : val) (rest : list val) : res val :=
    do t <- truthy a;
    if negb t then Ok (box_valid a) else
    match rest with
    | [] => Ok (box_valid a)
    | b :: r => rt_and b r
    end.
  Fixpoint rt_or (a : val) (rest : list val) : res val :=
    do t <- truthy a;
    if t then Ok (box_valid a) else
    match rest with
    | [] => Ok (box_valid a)
    | b :: r => rt_or b r
    end.

  (* Map.Member: the folding chain *)
  Definition member_lookup (items : list (bytes * val)) (field : bytes) : val :=
    let try3 (f : bytes) : option val :=
      match lookup f items with
      | Some v => Some v
      | None =>
        match lookup (upper_first f) items with
        | Some v => Some v
        | None => None
        end
      end in
    match try3 field with
    | Some v => v
    | None => match try3 (replacer3 field) with Some v => v | None => VNil end
    end.

  (* ASCII white space as strings.TrimSpace sees it *)
  Definition is_space (c : ascii) : bool :=
    let n := N_of_ascii c in N.eqb n 32 || (N.leb 9 n && N.leb n 13).
  Fixpoint trim_l (s : bytes) : bytes := match s with c :: r => if is_space c then trim_l r else s | [] => [] end.
  Definition trim_space (s : bytes) : bytes := rev (trim_l (rev (trim_l s))).

  Fixpoint texts (l : list val) : res (list bytes) :=
    match l with
    | [] => Ok []
    | v :: r => do a <- txt v; do b <- texts r; Ok (a :: b)
    end.

  (* __str *)
  Definition rt_str (l : list val) : res val :=
    do ts <- texts l;
    let s := concat_bytes ts in
    if Nat.ltb 0 (length s) then
      if forallb is_ascii s then Ok (VStr (B " " ++ trim_space s)) else
      (* non-ASCII: TrimSpace is rune-aware; modelled when the edges are ASCII non-space *)
      match s, rev s with
      | c :: _, d :: _ => if is_ascii c && is_ascii d && negb (is_space c) && negb (is_space d)
                          then Ok (VStr (B " " ++ s)) else Unmod
      | _, _ => Unmod
      end
    else Ok (VStr []).

  (* __pug__html *)
  Definition rt_html (l : list val) : res val :=
    match l with
    | [] => Ok (VStr [])
    | [v] => match v with
             | VInvalid => Ok (VStr (escape (B "<nil>")))      (* fmt.Sprint(nil) *)
             | _ => do t <- txt v; Ok (VStr (escape t))
             end
    | _ => Unmod
    end.

  (* index (__pug__index) with one index *)
  Definition rt_index (item idx : val) : res val :=
    let int_index (n : nat -> res val) : res val :=
      match idx with
      | VInt z | VNum z => if Z.ltb z 0 then Ok VNil else n (Z.to_nat z)
      | VAttrs _ | VMod _ => Unmod
      | _ => Panic
      end in
    match item with
    | VInvalid => Ok VNil                  (* an undefined variable: Nil, like a missing member *)
    | VNil => Ok VNil
    | VArr l =>
      match hget h l with
      | Some (OArr items) =>
        int_index (fun n => match nth_error items n with Some v => Ok (box v) | None => Ok VNil end)
      | _ => Unmod
      end
    | VStr s | VGoStr s =>
      int_index (fun n => match nth_error s n with
                          | Some c => Ok (VNum (Z.of_N (N_of_ascii c)))   (* the byte value *)
                          | None => Ok VNil end)
    | VMap l =>
      match hget h l with
      | Some (OMap items _) =>
        match idx with
        | VStr k | VGoStr k =>
          match lookup k items with
          | Some v => Ok (box v)
          | None => Unmod                    (* zero Object converted to a fresh empty Map *)
          end
        | _ => Unmod
        end
      | _ => Unmod
      end
    | VAttrs _ | VMod _ => Unmod
    | _ => Panic
    end.

  (* __tryindex *)
  Definition rt_tryindex (o key : val) : res val :=
    match o, key with
    | VArr l, VInt z =>
      match hget h l with
      | Some (OArr items) =>
        if Z.ltb z 0 then Panic else
        match nth_error items (Z.to_nat z) with Some v => Ok (box v) | None => Ok VNil end
      | _ => Unmod
      end
    | VMap l, _ =>
      match hget h l with
      | Some (OMap items _) => do k <- txt key; Ok (box (member_lookup items k))
      | _ => Unmod
      end
    | VNil, _ | VNum _, _ | VBool _, _ => Ok VNil
    | VInvalid, VInt _ => Ok VNil
    | _, _ => Unmod
    end.

  (* __attr (after the repairs for integer and undefined values) *)
  (* ---- attributes: the helpers __attr / __attrs are the ones modelled (and proved about) in Models/Attrs.v;
     here run-time values are translated to that model's values ---------------------------------------- *)
  Fixpoint to_aobj (fuel : nat) (v : val) : res Attrs.obj :=
    match fuel with
    | O => Unmod
    | S f =>
      match v with
      | VStr s | VGoStr s => Ok (Attrs.OStr s)
      | VNum z | VInt z => if Z.ltb (Z.abs z) ten10 then Ok (Attrs.ONum z) else Unmod
      | VBool b | VGoBool b => Ok (Attrs.OBool b)
      | VNil | VInvalid => Ok Attrs.ONil
      | VArr l =>
        match hget h l with
        | Some (OArr items) =>
          do os <- (fix go (l : list val) : res (list Attrs.obj) :=
                      match l with
                      | [] => Ok []
                      | x :: r => do a <- to_aobj f x; do b <- go r; Ok (a :: b)
                      end) items;
          Ok (Attrs.OArr os)
        | _ => Unmod
        end
      | _ => Unmod
      end
    end.
  Definition to_gval (v : val) : res Attrs.gval :=
    match v with
    | VInvalid => Ok Attrs.GNil
    | VGoStr s => Ok (Attrs.GStr s)
    | VInt z => if Z.ltb (Z.abs z) ten10 then Ok (Attrs.GInt z) else Unmod
    | VGoBool b => Ok (Attrs.GBool b)
    | _ => do o <- to_aobj 4 v; Ok (Attrs.GObj o)
    end.
  Definition of_arec (a : Attrs.attr_rec) : attr :=
    {| a_name := Attrs.a_name a; a_val := Attrs.a_val a; a_esc := Attrs.a_esc a; a_bool := Attrs.a_bool a |}.
  Definition to_arec (a : attr) : Attrs.attr_rec :=
    {| Attrs.a_name := a_name a; Attrs.a_val := a_val a; Attrs.a_esc := a_esc a; Attrs.a_bool := a_bool a |}.

  (* __attr *)
  Definition rt_attr (k : bytes) (v : val) (e : bool) : res val :=
    do g <- to_gval v; Ok (VAttrs [of_arec (Attrs.mk_attr k g e)]).

  (* __attrs *)
  Definition rt_attrs (lists : list val) : res val :=
    let all := fix go (l : list val) : res (list attr) :=
      match l with
      | [] => Ok []
      | VAttrs a :: r => do b <- go r; Ok (a ++ b)
      | _ => Unmod
      end in
    do attrs <- all lists;
    match Attrs.render_attrs (map to_arec attrs) with
    | Some t => Ok (VStr t)
    | None => Panic
    end.

  (* Map.Keys() after the repair: the order list, or the sorted keys (memoised by the caller) *)
  Definition map_keys (items : list (bytes * val)) (order : list bytes) : list bytes :=
    match order with [] => sort_bytes (keys items) | _ => order end.

  (* Math on integers *)
  Definition rt_math1 (v : val) : res val :=
    match kind_of v with
    | KInt a | KFloat a => mknum a
    | _ => Unmod
    end.
  Fixpoint ints_of (l : list val) : res (list Z) :=
    match l with
    | [] => Ok []
    | v :: r => match kind_of v with
                | KInt a | KFloat a => do b <- ints_of r; Ok (a :: b)
                | _ => Unmod end
    end.
  Definition rt_minmax (is_max : bool) (l : list val) : res val :=
    do zs <- ints_of l;
    match zs with
    | [] => Unmod
    | z :: r => mknum (fold_left (if is_max then Z.max else Z.min) r z)
    end.

  (* templatefunctions.ParseInt *)
  Definition rt_parse_int (v : val) : res val :=
    match v with
    | VInt z | VNum z => mknum z
    | VGoStr s | VStr s =>
      match plain_int s with
      | Some z => if Z.ltb (Z.of_nat (length s)) 16 then mknum z else Unmod
      | None => Ok (VNum 0)
      end
    | VBool _ | VGoBool _ | VNil | VArr _ | VMap _ => Ok (VNum 0)
    | VInvalid => Panic
    | _ => Unmod
    end.
End WithHeap.

(* ---- heap-changing helpers -------------------------------------------------- *)
(* convert([]interface{}): a fresh Array of converted items *)
Definition rt_array (h : heap) (l : list val) : res (val * heap) :=
  if existsb (fun v => match v with VAttrs _ | VMod _ => true | _ => false end) l then Unmod else
  let '(loc, h') := alloc h (OArr (map box l)) in Ok (VArr loc, h').

(* __op__map *)
Fixpoint map_pairs (h : heap) (l : list val) (items : list (bytes * val)) (order : list bytes)
  : res (list (bytes * val) * list bytes) :=
  match l with
  | [] => Ok (items, order)
  | [_] => Panic
  | k :: v :: r =>
    match v with VAttrs _ | VMod _ => Unmod | _ =>
    do ks <- txt h k;
    map_pairs h r (insert ks (box v) items) (if mem ks order then order else order ++ [ks])
    end
  end.
Definition rt_map (h : heap) (l : list val) : res (val * heap) :=
  do io <- map_pairs h l [] [];
  let '(items, order) := io in
  let '(loc, h') := alloc h (OMap items order) in Ok (VMap loc, h').

(* __op__map_params: repeated names are grouped into arrays; the result is an unordered Map *)
Inductive pgroup := POne (v : val) | PMany (l : list val).
Fixpoint params_group (l : list val) (acc : list (bytes * pgroup)) : res (list (bytes * pgroup)) :=
  match l with
  | [] => Ok acc
  | [_] => Panic
  | VGoStr k :: v :: r =>
    let acc' :=
      match lookup k acc with
      | Some (POne old) => insert k (PMany [old; v]) acc
      | Some (PMany olds) => insert k (PMany (olds ++ [v])) acc
      | None => acc ++ [(k, POne v)]
      end in
    params_group r acc'
  | _ => Unmod
  end.
Fixpoint params_alloc (h : heap) (gs : list (bytes * pgroup)) : res (list (bytes * val) * heap) :=
  match gs with
  | [] => Ok ([], h)
  | (k, POne v) :: r =>
    match v with VAttrs _ | VMod _ => Unmod | _ =>
    do x <- params_alloc h r; let '(items, h') := x in Ok ((k, box v) :: items, h')
    end
  | (k, PMany vs) :: r =>
    do a <- rt_array h vs; let '(av, h1) := a in
    do x <- params_alloc h1 r; let '(items, h') := x in Ok ((k, av) :: items, h')
  end.
Definition rt_map_params (h : heap) (l : list val) : res (val * heap) :=
  do gs <- params_group l [];
  do x <- params_alloc h gs; let '(items, h1) := x in
  let '(loc, h') := alloc h1 (OMap items []) in Ok (VMap loc, h').

(* __and_attrs: Keys() memoises the order on the map; each entry as Models/Attrs.v's and_attr_one *)
Definition rt_and_attrs (h : heap) (m : val) : res (val * heap) :=
  match m with
  | VMap l =>
    match hget h l with
    | Some (OMap items order) =>
      let ks := map_keys items order in
      let h' := hset h l (OMap items ks) in
      let one (k : bytes) : res attr :=
        do o <- to_aobj h 4 (member_lookup items k);
        Ok (of_arec (Attrs.and_attr_one {| Attrs.m_items := [(k, o)]; Attrs.m_order := [k] |} k)) in
      let all := fix go (l : list bytes) : res (list attr) :=
        match l with [] => Ok [] | k :: r => do a <- one k; do b <- go r; Ok (a :: b) end in
      do attrs <- all ks; Ok (VAttrs attrs, h')
    | _ => Unmod
    end
  | VNil => Panic                    (* nil *Map: Keys() dereferences it *)
  | _ => Unmod
  end.

(* Map.__assign / Map.Assign *)
Definition map_assign (h : heap) (l : nat) (k : bytes) (v : val) : res heap :=
  match hget h l with
  | Some (OMap items order) =>
    let order' := match order with
                  | [] => []
                  | _ => if mem k order then order else order ++ [k]
                  end in
    Ok (hset h l (OMap (insert k v items) order'))
  | _ => Unmod
  end.

(* Object.keys *)
Definition rt_object_keys (h : heap) (v : val) : res (val * heap) :=
  match v with
  | VMap l =>
    match hget h l with
    | Some (OMap items order) =>
      let ks := map_keys items order in
      let h1 := hset h l (OMap items ks) in
      let '(loc, h') := alloc h1 (OArr (map VStr (sort_bytes ks))) in Ok (VArr loc, h')
    | _ => Unmod
    end
  | VArr l =>
    match hget h l with
    | Some (OArr items) =>
      let idx := map (fun i => show_N (N.of_nat i)) (seq 0 (length items)) in
      let '(loc, h') := alloc h (OArr (map VStr (sort_bytes idx))) in Ok (VArr loc, h')
    | _ => Unmod
    end
  | VInvalid => let '(loc, h') := alloc h (OArr []) in Ok (VArr loc, h')
  | VAttrs _ | VMod _ => Unmod
  | _ => let '(loc, h') := alloc h (OArr []) in Ok (VArr loc, h')
  end.

(* Object.assign(target, sources...) *)
Fixpoint assign_all (h : heap) (t : nat) (ks : list bytes) (items : list (bytes * val)) : res heap :=
  match ks with
  | [] => Ok h
  | k :: r => do h1 <- map_assign h t k (member_lookup items k); assign_all h1 t r items
  end.
Fixpoint rt_object_assign (h : heap) (t : nat) (sources : list val) : res heap :=
  match sources with
  | [] => Ok h
  | VMap l :: r =>
    match hget h l with
    | Some (OMap items order) =>
      let ks := map_keys items order in
      let h1 := hset h l (OMap items ks) in
      do h2 <- assign_all h1 t ks items;
      rt_object_assign h2 t r
    | _ => Unmod
    end
  | VNil :: r => rt_object_assign h t r
  | _ => Unmod
  end.

(* ---- Array methods (types.go), after the repairs ---------------------------- *)
Definition sort_vals (h : heap) (items : list val) : res (list val) :=
  (* sort.Slice by String(): modelled when the order is determined (distinct texts or equal values) *)
  let keyed := fix go (l : list val) : res (list (bytes * val)) :=
    match l with [] => Ok [] | v :: r => do t <- txt h v; do b <- go r; Ok ((t, v) :: b) end in
  do kv <- keyed items;
  let sorted := sort_by (fun a b => bytes_ltb (fst a) (fst b)) kv in
  let fix det (l : list (bytes * val)) : bool :=
    match l with
    | a :: ((b :: _) as r) => (negb (beqb (fst a) (fst b)) || val_eqb (snd a) (snd b)) && det r
    | _ => true
    end in
  if det sorted then Ok (map snd sorted) else Unmod.

Definition array_method (h : heap) (l : nat) (name : bytes) (args : list val) : res (val * heap) :=
  match hget h l with
  | Some (OArr items) =>
    let n := length items in
    if beqb name (B "length") then Ok (VNum (Z.of_nat n), h)
    else if beqb name (B "push") then
      match args with [v] => Ok (VNil, hset h l (OArr (items ++ [v]))) | _ => Panic end
    else if beqb name (B "pop") then
      match rev items with
      | [] => Ok (VNil, h)
      | x :: r => Ok (box x, hset h l (OArr (rev r)))
      end
    else if beqb name (B "shift") then
      match items with
      | [] => Ok (VNil, h)                           (* nil Object: converted to Nil *)
      | x :: r => Ok (box x, hset h l (OArr r))
      end
    else if beqb name (B "unshift") then
      let items' := args ++ items in
      Ok (VNum (Z.of_nat (length items')), hset h l (OArr items'))
    else if beqb name (B "splice") then
      match args with
      | [VNum z] =>
        if Z.ltb z 0 || Z.ltb (Z.of_nat n) z then Panic else
        let k := Z.to_nat z in
        let '(loc, h1) := alloc (hset h l (OArr (firstn k items))) (OArr (skipn k items)) in
        Ok (VArr loc, h1)
      | _ => Panic
      end
    else if beqb name (B "slice") then
      match args with
      | [VNum z] =>
        if Z.ltb z 0 || Z.ltb (Z.of_nat n) z then Panic else
        let '(loc, h1) := alloc h (OArr (skipn (Z.to_nat z) items)) in Ok (VArr loc, h1)
      | _ => Panic
      end
    else if beqb name (B "sort") then
      do s <- sort_vals h items; Ok (VNil, hset h l (OArr s))
    else if beqb name (B "indexOf") then
      match args with
      | [w] =>
        let w' := box w in
        match w' with
        | VArr _ | VMap _ | VAttrs _ | VMod _ => Unmod
        | _ =>
          if existsb (fun v => match v with VArr _ | VMap _ => true | _ => false end) items then Unmod else
          let fix find (l : list val) (i : Z) : Z :=
            match l with [] => (-1)%Z | v :: r => if val_eqb (box v) w' then i else find r (i + 1)%Z end in
          Ok (VNum (find items 0%Z), h)
        end
      | _ => Panic
      end
    else if beqb name (B "join") then
      match args with
      | [VGoStr sep] => do ts <- texts h items; Ok (VStr (join sep ts), h)
      | _ => Panic
      end
    else Panic
  | _ => Unmod
  end.

Definition array_sig (name : bytes) : option (list pty * option pty) :=
  if beqb name (B "length") || beqb name (B "pop") || beqb name (B "shift") || beqb name (B "sort") then Some ([], None)
  else if beqb name (B "push") then Some ([PObject], None)
  else if beqb name (B "unshift") then Some ([], Some PObject)
  else if beqb name (B "splice") || beqb name (B "slice") then Some ([PNumber], None)
  else if beqb name (B "indexOf") then Some ([PIface], None)
  else if beqb name (B "join") then Some ([PString], None)
  else None.

(* ---- String methods ---------------------------------------------------------- *)
Fixpoint index_of (sub s : bytes) (i : Z) (fuel : nat) : Z :=
  match fuel with
  | O => (-1)%Z
  | S f =>
    if prefixb sub s then i else
    match s with [] => (-1)%Z | _ :: r => index_of sub r (i + 1)%Z f end
  end.

Fixpoint split_on (fuel : nat) (sep s acc : bytes) : list bytes :=
  match fuel with
  | O => [rev acc ++ s]
  | S f =>
    match s with
    | [] => [rev acc]
    | c :: r =>
      if prefixb sep s then rev acc :: split_on f sep (skipn (length sep) s) []
      else split_on f sep r (c :: acc)
    end
  end.
Definition go_split (s sep : bytes) : list bytes :=
  match sep with
  | [] => map (fun c => [c]) s                     (* ASCII: one string per byte *)
  | _ => split_on (S (length s)) sep s []
  end.

Definition string_sig (name : bytes) : option (list pty * option pty) :=
  if beqb name (B "length") || beqb name (B "toUpperCase") || beqb name (B "toLowerCase") then Some ([], None)
  else if beqb name (B "charAt") then Some ([PNumber], None)
  else if beqb name (B "indexOf") || beqb name (B "split") then Some ([PString], None)
  else if beqb name (B "slice") then Some ([PNumber], Some PNumber)
  else None.

Definition string_method (h : heap) (s : bytes) (name : bytes) (args : list val) : res (val * heap) :=
  let n := Z.of_nat (length s) in
  if beqb name (B "length") then Ok (VNum n, h)
  else if beqb name (B "toUpperCase") then if all_ascii s then Ok (VStr (map to_upper s), h) else Unmod
  else if beqb name (B "toLowerCase") then if all_ascii s then Ok (VStr (map to_lower s), h) else Unmod
  else if beqb name (B "charAt") then
    match args with
    | [VNum z] =>
      if Z.leb n z then Ok (VStr [], h) else if Z.ltb z 0 then Panic else
      match nth_error s (Z.to_nat z) with Some c => Ok (VStr [c], h) | None => Ok (VStr [], h) end
    | _ => Panic
    end
  else if beqb name (B "indexOf") then
    match args with
    | [VGoStr sub] => Ok (VNum (index_of sub s 0%Z (S (length s))), h)
    | _ => Panic
    end
  else if beqb name (B "split") then
    match args with
    | [VGoStr sep] =>
      match sep with
      | [] => if all_ascii s then
                let '(loc, h') := alloc h (OArr (map VStr (go_split s sep))) in Ok (VArr loc, h')
              else Unmod
      | _ => let '(loc, h') := alloc h (OArr (map VStr (go_split s sep))) in Ok (VArr loc, h')
      end
    | _ => Panic
    end
  else if beqb name (B "slice") then
    match args with
    | VNum from0 :: rest =>
      if Z.ltb n from0 then Ok (VStr [], h) else
      let from := if Z.ltb from0 0 then (n + from0)%Z else from0 in
      let to0 := match rest with VNum t :: _ => t | _ => n end in
      let to := if Z.ltb to0 0 then (n + to0)%Z else to0 in
      if Z.ltb from 0 || Z.ltb to from || Z.ltb n to then Panic
      else Ok (VStr (firstn (Z.to_nat (to - from)) (skipn (Z.to_nat from) s)), h)
    | _ => Panic
    end
  else Unmod.
