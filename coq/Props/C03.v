(* C03 — placeholder replaced below by the real theorems; kept minimal while the correspondence is brought up *)
From PV Require Import Base.Bytes Tmpl.Value Tmpl.IR Tmpl.Exec Proofs.ExecMono.
Theorem C03_fuel_monotone : forall defs f f' dot s ns,
  f <= f' -> fin (exec_nodes defs f dot s ns) -> exec_nodes defs f' dot s ns = exec_nodes defs f dot s ns.
Proof. exact exec_nodes_mono. Qed.
Print Assumptions C03_fuel_monotone.
