(* C03 — mixins bind arguments, attributes and block content per call.
   Property theorems only (about the executor model Tmpl/Exec.v after repair 40255c5, for all programs, states and
   fuel; about the compiler state a directory of files is loaded with, Models/PageDir.v); proofs are in Proofs/C03Proofs.v and
   Proofs/C03PageProofs.v. *)
From PV Require Import Base.Bytes Js.Ast Pug.Ast Pug.Compile Tmpl.Value Tmpl.IR Tmpl.Runtime Tmpl.Exec Models.PageDir Proofs.ExecMono Proofs.C03Proofs Proofs.C03PageProofs.
From Coq Require Import Permutation.

(* "every call independently … never see another call's arguments or block": whatever a body does — any nesting
   of calls, blocks, loops, recursion — it changes only the executing frame; every frame below it is untouched. *)
Theorem C03_frame_discipline : forall defs f dot s ns s',
  live s -> exec_nodes defs f dot s ns = Ok s' -> below s' = below s /\ live s'.
Proof. exact exec_nodes_keeps. Qed.
Print Assumptions C03_frame_discipline.

(* a call (of a mixin or of a block), when it returns, leaves exactly the frames the argument evaluation left:
   the callee's frame with the parameters, $attributes and $block of THIS call is discarded *)
Theorem C03_call_isolated : forall defs f dot s name isv arg body newdot s3 s',
  live s -> template_plan defs dot s name isv arg = Ok (Some (body, newdot, s3)) ->
  exec_node defs (S f) dot s (NTemplate name isv arg) = Ok s' ->
  x_frames s' = removelast (x_frames s3).
Proof. exact call_isolated. Qed.
Print Assumptions C03_call_isolated.

(* the caller's block bindings (and page data, depth) survive every call: a block may be placed any number of times *)
Theorem C03_bindings_survive_calls : forall defs f dot s name isv arg s',
  live s -> exec_node defs (S f) dot s (NTemplate name isv arg) = Ok s' ->
  f_bound (cur s') = f_bound (cur s) /\ f_globals (cur s') = f_globals (cur s) /\ f_depth (cur s') = f_depth (cur s).
Proof. exact call_keeps_bindings. Qed.
Print Assumptions C03_bindings_survive_calls.

(* "A mixin body sees the page data but not the caller's local variables" *)
Theorem C03_mixin_sees_only_page_data : forall defs dot s name arg body newdot s3,
  template_plan defs dot s name false arg = Ok (Some (body, newdot, s3)) ->
  ~ In name (map fst (f_bound (cur s))) ->
  f_vars (cur s3) = f_globals (cur s) /\ f_globals (cur s3) = f_globals (cur s) /\ f_depth (cur s3) = S (f_depth (cur s)).
Proof. exact mixin_callee_sees_globals. Qed.
Print Assumptions C03_mixin_sees_only_page_data.

(* "block content … evaluated with the caller's variables": after __freeze bn by the caller and the call, the
   lookup of bn in the callee finds the caller's frame (the block runs in a copy of it) *)
Theorem C03_block_runs_in_callers_frame : forall frames caller_ix caller bn l,
  nth_error frames caller_ix = Some caller ->
  find_last_bound (frames ++ [{| f_vars := f_globals caller; f_globals := f_globals caller;
                                 f_bound := l ++ [(bn, caller_ix)]; f_depth := S (f_depth caller) |}])
                  (S (f_depth caller)) (l ++ [(bn, caller_ix)]) bn = Some caller_ix.
Proof. exact block_runs_in_callers_frame. Qed.
Print Assumptions C03_block_runs_in_callers_frame.

(* repeated, nested and recursive calls: the latest binding made by a frame above the executing one wins; a binding
   the executing frame (or a deeper one) made for a call of its own is never its block; other names do not matter;
   and what is found is always a binding of that very name made by a shallower frame *)
Theorem C03_latest_binding_wins : forall frames depth l bn fr,
  shallower frames depth fr = true -> find_last_bound frames depth (l ++ [(bn, fr)]) bn = Some fr.
Proof. exact find_last_bound_app. Qed.
Print Assumptions C03_latest_binding_wins.

Theorem C03_own_binding_is_not_the_block : forall frames depth l bn fr,
  shallower frames depth fr = false ->
  find_last_bound frames depth (l ++ [(bn, fr)]) bn = find_last_bound frames depth l bn.
Proof. exact find_last_bound_skips. Qed.
Print Assumptions C03_own_binding_is_not_the_block.

Theorem C03_other_blocks_do_not_interfere : forall frames depth l bn k fr,
  k <> bn -> find_last_bound frames depth (l ++ [(k, fr)]) bn = find_last_bound frames depth l bn.
Proof. exact find_last_bound_other. Qed.
Print Assumptions C03_other_blocks_do_not_interfere.

Theorem C03_block_lookup_sound : forall frames depth l bn fr,
  find_last_bound frames depth l bn = Some fr -> In (bn, fr) l /\ shallower frames depth fr = true.
Proof. exact find_last_bound_sound. Qed.
Print Assumptions C03_block_lookup_sound.

(* arguments are bound positionally; a missing one is null (prints nothing) *)
Theorem C03_parameters_positional : forall h l items i,
  hget h l = Some (OArr items) ->
  rt_tryindex h (VArr l) (VInt (Z.of_nat i)) = Ok (match nth_error items i with Some v => box v | None => VNil end).
Proof. exact param_binding. Qed.
Print Assumptions C03_parameters_positional.

(* "attributes ... per call": the attributes object built for a call is a NEW object — its location was not
   allocated before the call, so no earlier call, render or frame can hold it and nothing stored into an earlier
   call's attributes can show in it; every existing object keeps its contents; a call without attributes gets an
   empty object of its own; the objects of two calls are different objects *)
Theorem C03_attributes_object_fresh : forall h l loc h',
  rt_map_params h l = Ok (VMap loc, h') ->
  hget h loc = None /\ (forall k o, hget h k = Some o -> hget h' k = Some o) /\ exists items, hget h' loc = Some (OMap items []).
Proof. exact map_params_fresh. Qed.
Print Assumptions C03_attributes_object_fresh.

Theorem C03_no_attributes_is_an_own_empty_object : forall h,
  rt_map_params h [] = Ok (VMap (length h), h ++ [OMap [] []]).
Proof. exact map_params_none. Qed.
Print Assumptions C03_no_attributes_is_an_own_empty_object.

Theorem C03_attributes_objects_distinct : forall h1 l1 loc1 h1' h2 l2 loc2 h2',
  rt_map_params h1 l1 = Ok (VMap loc1, h1') -> length h1' <= length h2 ->
  rt_map_params h2 l2 = Ok (VMap loc2, h2') -> loc1 <> loc2.
Proof. exact map_params_distinct. Qed.
Print Assumptions C03_attributes_objects_distinct.

(* "block content per call": a call site whose block content is nothing but `block` is lowered like every other
   call with block content — a wrapper block named after THIS call site (block_<mixin>_<counter>, counter advanced),
   bound by the calling frame with __freeze and passed by that name; the wrapper's content is the placement of the
   caller's block.  (The caller's own block name is not handed on: the executor resolves names against the frames
   above the placing one, C03_own_binding_is_not_the_block, and that is only right for the wrapper's frame.) *)
Theorem C03_pure_forwarding_gets_own_block : forall funcs dbg f raw st name,
  is_ident name = true ->
  exists ts,
    cnode funcs dbg (S (S (S f))) raw st (PMixinCall name [] [] [PMixinBlock])
    = Some (ts, raw,
            {| cs_mixins := cs_mixins st;
               cs_blocks := cs_blocks st ++
                 [[TText nl; TText nl;
                   TAct (B "{{- define """ ++ (B "block_" ++ name ++ B "_" ++ show_nat (cs_counter st)) ++ B """ -}}") true true
                        (AcDefine (B "block_" ++ name ++ B "_" ++ show_nat (cs_counter st))); TText nl;
                   TAct (B "{{- template $block -}}") true true (AcTemplate (B "block") true None);
                   TText nl; TAct (B "{{- end -}}") true true AcEnd]];
               cs_counter := S (cs_counter st) |})
    /\ call_site_shape name (B "block_" ++ name ++ B "_" ++ show_nat (cs_counter st)) ts.
Proof. exact pure_forward_gets_own_block. Qed.
Print Assumptions C03_pure_forwarding_gets_own_block.

(* "A mixin body sees the page data": the page data of a frame (`globals`, what every mixin it calls starts from) is
   CONSTANT - whatever the frame executes: assignments and declarations of names that are also keys of the page data,
   loops, branches, calls, blocks - and so is its depth *)
Theorem C03_page_data_is_constant : forall defs f dot s ns s',
  live s -> exec_nodes defs f dot s ns = Ok s' ->
  f_globals (cur s') = f_globals (cur s) /\ f_depth (cur s') = f_depth (cur s).
Proof. exact exec_nodes_keeps_page_data. Qed.
Print Assumptions C03_page_data_is_constant.

(* ... hence: after ANY statements of the caller, a mixin body starts with the page data the caller's frame was given *)
Theorem C03_mixin_sees_page_data_after_any_statements : forall defs f dot s ns s1 name arg body newdot s3,
  live s -> exec_nodes defs f dot s ns = Ok s1 ->
  template_plan defs dot s1 name false arg = Ok (Some (body, newdot, s3)) ->
  ~ In name (map fst (f_bound (cur s1))) ->
  f_vars (cur s3) = f_globals (cur s) /\ f_globals (cur s3) = f_globals (cur s).
Proof. exact mixin_after_anything_sees_page_data. Qed.
Print Assumptions C03_mixin_sees_page_data_after_any_statements.

(* "Calling a mixin renders ITS body": the template a page compiles to is the one it compiles to alone, whatever
   other files (defining mixins of the same names or not) the same load compiles, in whatever order the directory
   listing gives them (Engine.compileDir: a compiler state per file) *)
Theorem C03_page_independent_of_siblings : forall funcs dbg files files' name nodes,
  NoDup (map fst files) -> Permutation files files' -> In (name, nodes) files ->
  lookup name (load_dir funcs dbg files') = lookup name (load_dir funcs dbg [(name, nodes)]).
Proof. exact page_independent_of_siblings. Qed.
Print Assumptions C03_page_independent_of_siblings.

(* with one compiler state for the files of a directory the statement is false (the first definition of a mixin
   name wins: the page listed later calls the other page's mixin), and which page is wrong depends on the listing *)
Theorem C03_shared_compiler_state_refuted :
  exists funcs dbg files name,
    NoDup (map fst files) /\ lookup name (load_dir_shared funcs dbg cs0 files) <> lookup name (load_dir funcs dbg files).
Proof. exact shared_compiler_state_refuted. Qed.
Print Assumptions C03_shared_compiler_state_refuted.

Theorem C03_shared_compiler_state_order_dependent :
  exists funcs dbg files files' name,
    Permutation files files' /\
    lookup name (load_dir_shared funcs dbg cs0 files) <> lookup name (load_dir_shared funcs dbg cs0 files').
Proof. exact shared_compiler_state_order_dependent. Qed.
Print Assumptions C03_shared_compiler_state_order_dependent.
