(* C13 — debug (pretty-source) mode changes white space only.
   Property theorems only; definitions and proofs are in Proofs/C13Proofs.v.  They are about the shared model of the
   template pipeline: Pug/Compile.v (compile funcs debug nodes), Tmpl/IR.v (lexed, parse_program), Tmpl/Exec.v
   (run_program), as combined in Run/Judge_Core.v (model_out dbg c d).  "White space" is the lexer's set
   " \t\r\n" (IR.is_space), the same set the oracle ws_subseq / erase_ws of Run/Judge_Core.v uses. *)
From PV Require Import Base.Bytes Base.Escape Js.Ast Tmpl.Value Tmpl.IR Tmpl.Runtime Tmpl.Exec Pug.Ast Pug.Compile
                       Proofs.ExecMono Run.Judge_Core Proofs.C13Proofs.

(* ---- the oracle ----------------------------------------------------------------------------------------- *)
(* ws_subseq a b = true exactly when a is b with white-space bytes deleted *)
Theorem C13_ws_subseq_spec : forall a b, ws_subseq a b = true <-> WsSub a b.
Proof. exact ws_subseq_iff. Qed.
Print Assumptions C13_ws_subseq_spec.

(* "with all white space removed the two outputs are identical" *)
Theorem C13_ws_subseq_erase : forall a b, ws_subseq a b = true -> erase_ws a = erase_ws b.
Proof. exact ws_subseq_erase. Qed.
Print Assumptions C13_ws_subseq_erase.

(* "debug mode never introduces characters that production mode does not emit": byte for byte, with multiplicity *)
Theorem C13_ws_subseq_no_new_byte : forall a b, ws_subseq a b = true ->
  (forall c, In c a -> In c b) /\ (forall c, count_occ ascii_dec a c <= count_occ ascii_dec b c) /\
  (forall c, is_space c = false -> count_occ ascii_dec a c = count_occ ascii_dec b c).
Proof.
  exact (fun a b H => conj (ws_subseq_no_new_byte a b H)
                           (conj (ws_subseq_no_more_bytes a b H) (ws_subseq_same_visible_bytes a b H))).
Qed.
Print Assumptions C13_ws_subseq_no_new_byte.

(* ---- compile: debug tokens = production tokens with separator groups inserted ---------------------------- *)
(* for ALL pug trees in the domain (every code node with several statements emits something in production mode):
   the debug-mode token list is the production one with groups  sep = "     " {{- "" -}} "\n"  inserted; the only
   production-side extra are the line feeds production puts around multi-line script content (si_pnl).
   Mixin definitions and mixin blocks collected in the compile state are covered (they are part of `compile`). *)
Theorem C13_tokens : forall funcs nodes td tp,
  dom_C13 nodes = true ->
  compile funcs true nodes = Some td -> compile funcs false nodes = Some tp -> sep_ins td tp.
Proof. exact compile_tokens. Qed.
Print Assumptions C13_tokens.

(* ---- the separator is neutral ----------------------------------------------------------------------------- *)
(* its action evaluates to the empty string in every environment ... *)
Theorem C13_sep_neutral_eval : forall E h, eval_pipeline E h neutral_pipe = Ok (VGoStr [], h).
Proof. exact neutral_eval. Qed.
Print Assumptions C13_sep_neutral_eval.

(* ... executing it prints nothing and changes no frame and no heap cell ... *)
Theorem C13_sep_neutral_action : forall defs f dot s,
  exec_node defs (S f) dot s (NAction neutral_pipe) = Ok (emit s []) /\
  output (emit s []) = output s /\ x_frames (emit s []) = x_frames s /\ x_heap (emit s []) = x_heap s.
Proof. exact neutral_step. Qed.
Print Assumptions C13_sep_neutral_action.

(* ... the lexer (lexed = one pass lexa with the pending text as accumulator) trims its two texts away ... *)
Theorem C13_lexed_is_lexa : forall ts, lexed ts = lexa false [] ts.
Proof. exact lexed_lexa. Qed.
Print Assumptions C13_lexed_is_lexa.

Theorem C13_sep_neutral_lexer : forall pr acc r,
  lexa pr acc (sep ++ r) =
  flush_text (trim_right (tlb pr (acc ++ sp5))) ++ TAct (B "{{- """" -}}") true true neutral_act :: lexa true nl r.
Proof. exact lexa_sep. Qed.
Print Assumptions C13_sep_neutral_lexer.

(* ... and its markers remove only white space from the neighbouring texts: what is left of  u "     " {{- "" -}} "\n" x
   (u after an action with / without a right trim marker, x before an action with / without a left one) is what is
   left of  u x  with white space deleted *)
Theorem C13_sep_neutral_texts : forall prd l u x,
  WsSub (trim_right (tlb prd (u ++ sp5)) ++ trb l (trim_left (nl ++ x))) (trb l (tlb prd (u ++ x))).
Proof. exact (sep_texts_trimmed sp5 nl eq_refl eq_refl). Qed.
Print Assumptions C13_sep_neutral_texts.

(* ---- lexing keeps the two token lists related -------------------------------------------------------------- *)
(* trel: same actions in the same order; between two common actions the debug side's texts, concatenated, are the
   production side's with white space deleted; the debug side may have extra neutral actions *)
Theorem C13_lexed_related : forall d p, sep_ins d p -> trel [] [] (lexed d) (lexed p).
Proof. exact lexed_related. Qed.
Print Assumptions C13_lexed_related.

(* ---- parsing: related token lists give trees of the same shape ---------------------------------------------- *)
Theorem C13_parse_related : forall d p pd pp,
  sep_ins d p -> parse_program d = Some pd -> parse_program p = Some pp -> prog_rel pd pp.
Proof. exact parse_program_rel. Qed.
Print Assumptions C13_parse_related.

(* ---- executing related trees -------------------------------------------------------------------------------- *)
(* for ALL template sets D / P related definition by definition, node lists, states, dot values and fuels: two
   executions that end end in states with equal frames and heaps and outputs related by white-space deletion *)
Theorem C13_exec_congruence : forall D P, defs_rel D P ->
  forall f g dot sd sp d p sd' sp',
    nrel [] [] d p -> same sd sp -> WsSub (output sd) (output sp) ->
    exec_nodes D f dot sd d = Ok sd' -> exec_nodes P g dot sp p = Ok sp' ->
    same sd' sp' /\ WsSub (output sd') (output sp').
Proof. exact exec_congruence. Qed.
Print Assumptions C13_exec_congruence.

(* ---- the property -------------------------------------------------------------------------------------------- *)
(* for every template in the domain and every data value: when both modes render successfully, the debug output is
   the production output with white-space bytes deleted *)
Theorem C13_main : forall c d od op,
  dom_C13 (c_nodes c) = true ->
  model_out true c d = OOk od -> model_out false c d = OOk op -> ws_subseq od op = true.
Proof. exact main_ws. Qed.
Print Assumptions C13_main.

Theorem C13_main_erase : forall c d od op,
  dom_C13 (c_nodes c) = true ->
  model_out true c d = OOk od -> model_out false c d = OOk op -> erase_ws od = erase_ws op.
Proof. exact main_erase. Qed.
Print Assumptions C13_main_erase.

Theorem C13_main_no_new_byte : forall c d od op,
  dom_C13 (c_nodes c) = true ->
  model_out true c d = OOk od -> model_out false c d = OOk op ->
  forall b, count_occ ascii_dec od b <= count_occ ascii_dec op b.
Proof. exact main_no_new_byte. Qed.
Print Assumptions C13_main_no_new_byte.

(* non-vacuity: a tree in the domain (nested block-level tags, multi-statement code) whose two renders succeed and differ *)
Theorem C13_nonvacuous :
  dom_C13 ex_nodes = true /\
  render [] false ex_nodes ex_data = OOk (B "<div>  lead <p> x </p> trail  1 after</div>  end") /\
  render [] true ex_nodes ex_data = OOk (B "<div>lead <p> x </p>trail  1 after</div>end").
Proof. exact (conj ex_in_domain (conj ex_prod ex_debug)). Qed.
Print Assumptions C13_nonvacuous.
