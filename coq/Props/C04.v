(* C04 — escaped output never lets data-supplied markup through.
   Property theorems only; proofs in Proofs/EscapeProofs.v, Proofs/C04Proofs.v and Proofs/C04ShapeProofs.v.
   M: Pug/Compile.v (renderExpression with wrap, rawmode) and Tmpl/Exec.v; S: the five-character escaper
   with its reader-side inverse, and the grammar EscText of harmless text. *)
From PV Require Import Base.Bytes Base.Escape Js.Ast Tmpl.Value Tmpl.IR Tmpl.Exec Pug.Compile
  Proofs.EscapeProofs Proofs.C04Proofs Proofs.C04ShapeProofs.

(* branch by branch: WHATEVER the expression (every constructor of the JS AST, any depth), an escaped
   buffered code node is lowered to static escaped text, a silent statement, `null`, or an action whose
   pipeline ends in the escaper *)
Theorem C04_wrap_shape : forall (funcs : list bytes) (e : jexpr) (toks : list tok),
  (forall t, e <> JNumF t) -> cwrap funcs false e = Some toks -> printing_shape toks.
Proof. exact cwrap_shape. Qed.
Print Assumptions C04_wrap_shape.

(* no choice for an expression that denotes a run-time VALUE (everything but the literals and the statements): if
   escaped buffered code compiles at all, it compiles to ONE action whose pipeline ends in the escaper *)
Theorem C04_value_escaped : forall (funcs : list bytes) (e : jexpr) (toks : list tok),
  value_expr e = true -> cwrap funcs false e = Some toks ->
  exists txt p, toks = [TAct txt false false (AcPipe p)] /\ ends_in_escaper p.
Proof. exact cwrap_value_expr_escaped. Qed.
Print Assumptions C04_value_escaped.

(* in particular for EVERY binary operator and EVERY pair of operands — `x || 0`, `n > 0 && x`, `true && x`,
   `(x || 0) + 1`: the compiler never concludes from the shape of an operand (number, boolean, null literal, comparison)
   that the value cannot be a string *)
Theorem C04_operator_escaped : forall (funcs : list bytes) (op : binop) (a b : jexpr) (toks : list tok),
  cwrap funcs false (JBin op a b) = Some toks ->
  exists txt p, toks = [TAct txt false false (AcPipe p)] /\ ends_in_escaper p.
Proof. exact cwrap_operator_escaped. Qed.
Print Assumptions C04_operator_escaped.

(* an action whose pipeline ends in the escaper writes escape w for some w, whatever the data, the
   variables, the heap and the first command are *)
Theorem C04_escaper_output : forall defs fuel dot s p s',
  ends_in_escaper p -> exec_node defs fuel dot s (NAction p) = Ok s' ->
  exists w, x_out s' = escape w :: x_out s.
Proof. exact action_escaped. Qed.
Print Assumptions C04_escaper_output.

(* declarations and assignments write nothing *)
Theorem C04_declaration_silent : forall defs fuel dot s x cmds s',
  exec_node defs fuel dot s (NAction ([x], cmds)) = Ok s' -> x_out s' = x_out s.
Proof. exact decl_silent. Qed.
Print Assumptions C04_declaration_silent.

(* what the escaper writes is harmless: none of < > double-quote apostrophe, every ampersand starts one
   of the five references ... *)
Theorem C04_escape_harmless : forall s : bytes,
  EscText (escape s) /\ (forall c, In c (escape s) -> hard_special c = false).
Proof. intros s; split; [exact (escape_EscText s)|exact (escape_no_hard s)]. Qed.
Print Assumptions C04_escape_harmless.

(* ... and a conforming reader gets back exactly the data *)
Theorem C04_reader_roundtrip : forall s : bytes, unescape5 (escape s) = s.
Proof. exact unescape_escape. Qed.
Print Assumptions C04_reader_roundtrip.

(* escaping distributes over concatenation: this is what makes rendering with a hostile string equal to
   rendering with a marker and substituting the escaped string afterwards, for every string-transparent
   context (the correspondence check applies that oracle to the implementation's own outputs) *)
Theorem C04_escape_concat : forall a b : bytes, escape (a ++ b) = escape a ++ escape b.
Proof. exact escape_app. Qed.
Print Assumptions C04_escape_concat.

(* ---- the program-level marker theorem on the proved fragment (Proofs/C04MarkerProofs.v) ------------------------
   Programs: the control fragment of Pug/Lower.v (text, tags, escaped buffered code, var / assignment / ++,
   if / else, while) in which the hostile names T — data variables and the variables declared or assigned from
   them — occur only in transparent positions ([safe_list T]: no test mentions T; a T-variable is printed by escaped
   buffered code `= e` and stored into T-variables only, e built from T-variables, T-free expressions, `+`, and
   `c ? a : b` with a T-free test; everything else is T-free).  Data: a map of scalars; [dset T h l] is the data with
   the string h — ANY bytes — at every name of T. *)
From PV Require Import Pug.Ast Pug.Lower Spec.Sem Run.Judge_Core Proofs.C01EvalProofs Proofs.C02InstProofs
  Proofs.C04MarkerProofs.

(* the key lemma: a T-free expression evaluates alike in every instance [mk SE base segs h] of a symbolic state
   (the variables hold their symbolic values with h in the holes, the output chunks have escape h in theirs; heap
   and flags as in base), when the variables outside T hold h-independent values: same value, same outcome kind,
   result states instances of one symbolic state again — so no test of the program can depend on h *)
Theorem C04_tfree_eval_independent : forall (T : list bytes) (e : jexpr) (f : nat) (SE : symenv) (base : sstate)
    (segs : list (list seg)) (h : bytes),
  Inv T SE -> tfree T e = true ->
  sem_expr f (mk SE base segs h) e = rmap (fun s' => mk SE s' segs h) (sem_expr f (reframe (inst [] SE) [] base) e).
Proof. exact tfree_mk. Qed.
Print Assumptions C04_tfree_eval_independent.

(* S: there is ONE list of segments (literal chunk | hole) — and one list of deviation flags, or one of the other
   outcomes — such that for EVERY string h the rendering is the segments with escape h in the holes *)
Theorem C04_fragment_marker_spec : forall (T : list bytes) (nodes : list pnode) (l : list (bytes * dval)),
  safe_list T nodes = true -> forallb (fun kv => scalar_d (snd kv)) l = true ->
  exists r : sym_final, forall h : bytes, sem_run nodes (sd_top (DMap (dset T h l))) = finst h r.
Proof. exact S_marker. Qed.
Print Assumptions C04_fragment_marker_spec.

(* M: the same for the executor model running the lowered program (through C02_program_scalar): whatever the bytes
   of h, they reach the output only through the escaper *)
Theorem C04_fragment_marker : forall (funcs names T : list bytes) (nodes : list pnode) (t : list tnode)
    (l : list (bytes * dval)),
  lower_nodes funcs (goodS funcs names) nodes = Some t -> safe_list T nodes = true ->
  data_ok names (DMap l) = true ->
  exists r : sym_final, forall h : bytes,
    sem_run nodes (sd_top (DMap (dset T h l))) = finst h r /\
    match r with
    | FOut cs [] => run_program {| p_main := t; p_defs := [] |} (DMap (dset T h l)) = OOk (fill_holes (escape h) cs) \/
                    run_program {| p_main := t; p_defs := [] |} (DMap (dset T h l)) = OFuel
    | FErr [] => run_program {| p_main := t; p_defs := [] |} (DMap (dset T h l)) = OPanic \/
                 run_program {| p_main := t; p_defs := [] |} (DMap (dset T h l)) = OFuel
    | _ => True
    end.
Proof. exact M_marker. Qed.
Print Assumptions C04_fragment_marker.

(* segments and substitution: a marker that holds none of the five characters and whose first byte occurs in no
   literal chunk (= not in the rendering with the empty string) *)
Theorem C04_marker_subst_segments : forall (cs : list seg) (c0 : ascii) (m' h : bytes),
  existsb is_special (c0 :: m') = false -> ~ In c0 (fill_holes [] cs) ->
  fill_holes (escape h) cs = replace_all (c0 :: m') (escape h) (fill_holes (escape (c0 :: m')) cs).
Proof. exact marker_subst. Qed.
Print Assumptions C04_marker_subst_segments.

(* the marker form, S: rendering with a hostile string = rendering with the marker, then substituting the escaped
   string for the marker *)
Theorem C04_fragment_marker_subst_spec : forall (T : list bytes) (nodes : list pnode) (l : list (bytes * dval))
    (c0 : ascii) (m' o0 : bytes) (fl : list nat),
  safe_list T nodes = true -> forallb (fun kv => scalar_d (snd kv)) l = true ->
  existsb is_special (c0 :: m') = false ->
  sem_run nodes (sd_top (DMap (dset T [] l))) = SOut o0 fl -> ~ In c0 o0 ->
  exists om, sem_run nodes (sd_top (DMap (dset T (c0 :: m') l))) = SOut om fl /\
    forall h, sem_run nodes (sd_top (DMap (dset T h l))) = SOut (replace_all (c0 :: m') (escape h) om) fl.
Proof. exact S_marker_subst. Qed.
Print Assumptions C04_fragment_marker_subst_spec.

(* the marker form, M: the oracle of the correspondence check, proved for the model on the fragment *)
Theorem C04_fragment_marker_subst : forall (funcs names T : list bytes) (nodes : list pnode)
    (t : list tnode) (l : list (bytes * dval)) (c0 : ascii) (m' o0 : bytes),
  lower_nodes funcs (goodS funcs names) nodes = Some t -> safe_list T nodes = true ->
  data_ok names (DMap l) = true ->
  existsb is_special (c0 :: m') = false ->
  sem_run nodes (sd_top (DMap (dset T [] l))) = SOut o0 [] -> ~ In c0 o0 ->
  forall h om oh,
    run_program {| p_main := t; p_defs := [] |} (DMap (dset T (c0 :: m') l)) = OOk om ->
    run_program {| p_main := t; p_defs := [] |} (DMap (dset T h l)) = OOk oh ->
    oh = replace_all (c0 :: m') (escape h) om.
Proof. exact M_marker_subst. Qed.
Print Assumptions C04_fragment_marker_subst.
