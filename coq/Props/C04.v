(* C04 — escaped output never lets data-supplied markup through.
   Property theorems only; proofs in Proofs/EscapeProofs.v and Proofs/C04Proofs.v.
   M: Pug/Compile.v (renderExpression with wrap, rawmode) and Tmpl/Exec.v; S: the five-character escaper
   with its reader-side inverse, and the grammar EscText of harmless text. *)
From PV Require Import Base.Bytes Base.Escape Js.Ast Tmpl.Value Tmpl.IR Tmpl.Exec Pug.Compile
  Proofs.EscapeProofs Proofs.C04Proofs.

(* branch by branch: WHATEVER the expression (every constructor of the JS AST, any depth), an escaped
   buffered code node is lowered to static escaped text, a silent statement, `null`, or an action whose
   pipeline ends in the escaper *)
Theorem C04_wrap_shape : forall (funcs : list bytes) (e : jexpr) (toks : list tok),
  (forall t, e <> JNumF t) -> cwrap funcs false e = Some toks -> printing_shape toks.
Proof. exact cwrap_shape. Qed.
Print Assumptions C04_wrap_shape.

(* an action whose pipeline ends in the escaper writes escape w for some w, whatever the data, the
   variables, the heap and the first command are *)
Theorem C04_escaper_output : forall defs fuel dot s p s',
  ends_in_escaper p -> exec_node defs fuel dot s (NAction p) = Ok s' ->
  exists w, x_out s' = escape w :: x_out s.
Proof. exact action_escaped. Qed.
Print Assumptions C04_escaper_output.

(* declarations and assignments write nothing *)
Theorem C04_declaration_silent : forall defs fuel dot s x cmds s',
  exec_node defs fuel dot s (NAction ([x], cmds)) = Ok s' -> x_out s' = x_out s.
Proof. exact decl_silent. Qed.
Print Assumptions C04_declaration_silent.

(* what the escaper writes is harmless: none of < > double-quote apostrophe, every ampersand starts one
   of the five references ... *)
Theorem C04_escape_harmless : forall s : bytes,
  EscText (escape s) /\ (forall c, In c (escape s) -> hard_special c = false).
Proof. intros s; split; [exact (escape_EscText s)|exact (escape_no_hard s)]. Qed.
Print Assumptions C04_escape_harmless.

(* ... and a conforming reader gets back exactly the data *)
Theorem C04_reader_roundtrip : forall s : bytes, unescape5 (escape s) = s.
Proof. exact unescape_escape. Qed.
Print Assumptions C04_reader_roundtrip.

(* escaping distributes over concatenation: this is what makes rendering with a hostile string equal to
   rendering with a marker and substituting the escaped string afterwards, for every string-transparent
   context (the correspondence check applies that oracle to the implementation's own outputs) *)
Theorem C04_escape_concat : forall a b : bytes, escape (a ++ b) = escape a ++ escape b.
Proof. exact escape_app. Qed.
Print Assumptions C04_escape_concat.
