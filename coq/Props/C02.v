(* C02 — conditionals, case, each and while select and repeat exactly as pug prescribes.
   Property theorems only (about the executor model Tmpl/Exec.v, for all programs, states, data and fuel);
   proofs are in Proofs/C02Proofs.v and Proofs/ExecMono.v. *)
From PV Require Import Base.Bytes Tmpl.Value Tmpl.IR Tmpl.Runtime Tmpl.Exec Proofs.ExecMono Proofs.C02Proofs.

(* "Variables assigned inside any of these bodies keep their value after the construct":
   the executor's variable list is never popped and is read from the top, so it behaves as one flat
   environment: an assignment is seen by every later read of that name and touches no other name. *)
Theorem C02_variables_flat : forall (vs : vars) (x : bytes) (v : val) (y : bytes),
  env_of_stack (var_set vs x v) y = if beqb x y then v else env_of_stack vs y.
Proof. exact env_sim_set. Qed.
Print Assumptions C02_variables_flat.

(* no assignment ever removes a variable *)
Theorem C02_variables_persist : forall (vs : vars) (x : bytes) (v : val) (y : bytes),
  var_get vs y <> None -> var_get (var_set vs x v) y <> None.
Proof. exact var_set_keeps. Qed.
Print Assumptions C02_variables_persist.

(* if / else if / else (and case, which lowers to the same chain): the tests are evaluated in order and
   EXACTLY the body of the first truthy test runs (the else list when there is none, nothing when that is
   empty), from the state the tests left — for chains of any length, any bodies, any state. *)
Theorem C02_if_chain_selects : forall defs dot s brs els s' body,
  chain_sel dot s brs els s' body ->
  forall f, fin (exec_nodes defs f dot s' body) ->
  exists f', forall g, f' <= g -> exec_nodes defs g dot s (mk_chain brs els) = exec_nodes defs f dot s' body.
Proof. exact chain_selects. Qed.
Print Assumptions C02_if_chain_selects.

(* each: what is iterated.  Arrays: (index, element) in index order; null/undefined: nothing;
   data maps: sorted keys, object literals: their own key order. *)
Theorem C02_each_array_plan : forall dot s p l h1 items,
  eval_pipeline (env_of (set_vars s (f_vars (cur s) ++ map (fun x => (x, VInvalid)) (fst p))) dot) (x_heap s) p
    = Ok (VArr l, h1) ->
  hget h1 l = Some (OArr items) ->
  exists s2, range_plan dot s p = Ok (match items with [] => RElse s2 | _ => RIter s2 (indexed items) end).
Proof. exact range_plan_array. Qed.
Print Assumptions C02_each_array_plan.

Theorem C02_each_missing_plan : forall dot s p v h1,
  eval_pipeline (env_of (set_vars s (f_vars (cur s) ++ map (fun x => (x, VInvalid)) (fst p))) dot) (x_heap s) p
    = Ok (v, h1) ->
  v = VNil \/ v = VInvalid ->
  exists s2, range_plan dot s p = Ok (RElse s2) /\ x_out s2 = x_out s.
Proof. exact range_plan_missing. Qed.
Print Assumptions C02_each_missing_plan.

Theorem C02_each_map_plan : forall dot s p l h1 items order,
  eval_pipeline (env_of (set_vars s (f_vars (cur s) ++ map (fun x => (x, VInvalid)) (fst p))) dot) (x_heap s) p
    = Ok (VMap l, h1) ->
  hget h1 l = Some (OMap items order) ->
  let ks := match order with [] => sort_bytes (keys items) | _ => filter (fun k => mem k (keys items)) order end in
  let pairs := map (fun k => (VGoStr k, member_lookup items k)) ks in
  exists s2, range_plan dot s p = Ok (match pairs with
                                      | [] => match order with [] => RElse s2 | _ => RDone s2 end
                                      | _ => RIter s2 pairs end).
Proof. exact range_plan_map. Qed.
Print Assumptions C02_each_map_plan.

(* each: the body runs once per element, in order, with key/index and element bound, every iteration
   starting where the previous one ended — for collections of any length. *)
Theorem C02_each_once_per_element_in_order : forall defs f dot s p body s2 pairs,
  range_plan dot s p = Ok (RIter s2 pairs) ->
  fin (iter_spec defs f s2 (fst p) body pairs) ->
  forall g, f + S (S (length pairs)) <= g ->
  exec_node defs g dot s (NRange p body []) = iter_spec defs f s2 (fst p) body pairs.
Proof. exact each_runs_in_order. Qed.
Print Assumptions C02_each_once_per_element_in_order.

Theorem C02_each_empty_prints_nothing : forall defs f dot s p body s2,
  range_plan dot s p = Ok (RElse s2) ->
  exec_node defs (S (S f)) dot s (NRange p body []) = Ok s2.
Proof. exact each_nothing. Qed.
Print Assumptions C02_each_empty_prints_nothing.

(* while: a false test on entry skips the body; one round = body, then the test again in the state the
   body left; a test that never becomes false ends with the execution error when the cap is used up —
   for every fuel it never ends normally, and with enough fuel the answer is the error itself. *)
Theorem C02_while_false_skips : forall defs dot s p body v h1,
  eval_pipeline (env_of (set_vars s (f_vars (cur s) ++ map (fun x => (x, VInvalid)) (fst p))) dot) (x_heap s) p
    = Ok (v, h1) ->
  v = VBool false \/ v = VGoBool false ->
  forall f, exists s2, exec_node defs (S f) dot s (NRange p body []) = Ok s2 /\ x_out s2 = x_out s.
Proof. exact while_false_skips. Qed.
Print Assumptions C02_while_false_skips.

Theorem C02_while_round : forall defs f dot s p body b v s1 v' h1,
  exec_nodes defs f v s body = Ok s1 ->
  eval_pipeline (env_of s1 dot) (x_heap s1) p = Ok (v', h1) ->
  exec_while defs (S f) dot s p body (S b) v =
  match v' with
  | VBool true | VGoBool true => exec_while defs f dot (set_heap s1 h1) p body b v'
  | VBool false | VGoBool false => Ok (set_heap s1 h1)
  | VAttrs _ | VMod _ => Unmod
  | _ => Panic
  end.
Proof. exact while_round. Qed.
Print Assumptions C02_while_round.

Theorem C02_while_never_ends_normally : forall defs dot p body,
  always_true dot p ->
  forall f s budget, ~ exists s', exec_while defs f dot s p body budget (VBool true) = Ok s'.
Proof. exact while_never_ok. Qed.
Print Assumptions C02_while_never_ends_normally.

Theorem C02_while_cap_is_an_error : forall defs dot s p body f0 s2,
  always_true dot p -> body_total defs body f0 ->
  range_plan dot s p = Ok (RWhile s2 (VBool true)) ->
  forall g, f0 + S (S while_cap) < g -> exec_node defs g dot s (NRange p body []) = Panic.
Proof. exact while_node_cap. Qed.
Print Assumptions C02_while_cap_is_an_error.

(* fuel: an execution that ended keeps its result under any larger fuel (no theorem holds "because fuel ran out") *)
Theorem C02_fuel_monotone : forall defs f f' dot s ns,
  f <= f' -> fin (exec_nodes defs f dot s ns) -> exec_nodes defs f' dot s ns = exec_nodes defs f dot s ns.
Proof. exact exec_nodes_mono. Qed.
Print Assumptions C02_fuel_monotone.

(* ---- the program-level theorems for the scalar, each-free control fragment -----------------------------------------
   Proofs: Proofs/C02SimProofs.v (simulation, parameterised by what is assumed about expressions),
   Proofs/C01EvalProofs.v (those assumptions for the scalar expression fragment [goodS funcs names]),
   Proofs/C02InstProofs.v (instantiation, initial states, whole renders).
   [lower] (Pug/Lower.v): the tree-level lowering of text, tags without attributes, escaped buffered code,
   var / assignment / ++, if / else-if / else, while; the judge ties it to parse_program (compile nodes) per case.
   [R names repu jv_ok s g]: the engine state s and S's state g are live, print the same, and every name holds
   a value representing S's (numbers in range). *)
From PV Require Import Js.Ast Pug.Ast Pug.Lower Spec.Sem Proofs.C01EvalProofs Proofs.C02SimProofs Proofs.C02InstProofs
  Run.Judge_Core.

(* whatever S prescribes for a node list of the fragment without raising a deviation flag, the executor does on
   the lowered tree: same output and related variables on a normal end, the execution error exactly when S
   prescribes the while-bound error — for every fuel of S, from every pair of related states *)
Theorem C02_control_simulation : forall funcs names globals fs,
  P_nodes funcs (goodS funcs names) names globals repu jv_ok fs /\
  P_node funcs (goodS funcs names) names globals repu jv_ok fs.
Proof. exact sim_scalar. Qed.
Print Assumptions C02_control_simulation.

(* whole renders: data = a map of scalars (numbers in range, keys not starting with an upper-case letter) *)
Theorem C02_program_scalar : forall funcs names nodes t d,
  lower_nodes funcs (goodS funcs names) nodes = Some t -> data_ok names d = true ->
  match sem_run nodes (sd_top d) with
  | SOut o [] => run_program {| p_main := t; p_defs := [] |} d = OOk o \/
                 run_program {| p_main := t; p_defs := [] |} d = OFuel
  | SError [] => run_program {| p_main := t; p_defs := [] |} d = OPanic \/
                 run_program {| p_main := t; p_defs := [] |} d = OFuel
  | _ => True
  end.
Proof. exact program_scalar. Qed.
Print Assumptions C02_program_scalar.

(* ---- each, case and buffered literals inside the program-level theorems ------------------------------------------------
   [lower] (Pug/Lower.v) also admits: each (with and without key) over a plain variable, case / when / default,
   buffered string / number / boolean literals.  Scoping discipline of the lowering: an each-variable is mentioned inside
   its own loop only (the engine never pops a variable, pug scopes it to the loop), the loop variables are distinct and
   not re-used by a nested each, the engine's `global` is never mentioned.  C02_control_simulation and C02_program_scalar
   above are stated about this [lower] (their proofs cover the whole fragment).
   [data_ok_arr names d]: [data_ok] extended, under keys that are not among the scalar names, by arrays of scalars (fewer
   than 10^10 elements) and maps of scalars (a Go map; its keys listed in ascending order in the data value). *)

(* whole renders of programs with each / case over data with arrays and maps: what S prescribes without a deviation
   flag is what the executor prints on the lowered tree *)
Theorem C02_program_each : forall funcs names nodes t d,
  lower_nodes funcs (goodS funcs names) nodes = Some t -> data_ok_arr names d = true ->
  match sem_run nodes (sd_top d) with
  | SOut o [] => run_program {| p_main := t; p_defs := [] |} d = OOk o \/
                 run_program {| p_main := t; p_defs := [] |} d = OFuel
  | SError [] => run_program {| p_main := t; p_defs := [] |} d = OPanic \/
                 run_program {| p_main := t; p_defs := [] |} d = OFuel
  | _ => True
  end.
Proof. exact program_each. Qed.
Print Assumptions C02_program_each.

(* one each node, from any pair of related states: the range node the lowering builds for `each v, k in c` does what S
   prescribes for the loop — once per element in index order (array) / per member in sorted key order (data map) with
   index / key and element bound, the body's assignments kept, nothing for an empty / null / undefined collection — and
   afterwards the states are related again with v and k dead *)
Theorem C02_each_simulation : forall funcs names globals fs m blk g D fl v k c body tb dot s,
  mem c D = false -> mem v D = true -> (forall k', k = Some k' -> mem k' D = true /\ k' <> v) ->
  lower_list (lower funcs (goodS funcs names) (undead (v :: opt_list k) D) fl) body = Some tb ->
  R names repu jv_ok D s g ->
  sim_res names repu jv_ok D (fun fM => exec_node [] fM dot s (NRange (opt_list k ++ [v], [[AVar c []]]) tb [])) g m
          (sem_node globals (S fs) m blk g (PEach v k (JId c) body)).
Proof. exact each_scalar. Qed.
Print Assumptions C02_each_simulation.

(* the two theorems are not vacuous: a concrete program with each (with / without key, over a filled, an empty and a
   missing array and over a data map), case and literals, run through both sides *)
Theorem C02_each_program_runs :
  data_ok_arr e_names e_data = true /\
  exists t, lower_nodes ex_funcs (goodS ex_funcs e_names) e_nodes = Some t /\
            (run_program {| p_main := t; p_defs := [] |} e_data = OOk e_out \/
             run_program {| p_main := t; p_defs := [] |} e_data = OFuel).
Proof. exact e_program_runs. Qed.
Print Assumptions C02_each_program_runs.
