(* C17 — Partial rendering returns exactly the requested partials, each as rendered alone.
   Property theorems only; each is closed by [exact] of a lemma from Proofs/. *)
From PV Require Import Base.Bytes Models.Partials Proofs.PartialsProofs.

(* exactly the keys p1..pk (as a set, each once) *)
Theorem C17_keys : forall (render : bytes -> option bytes) t ps m,
  render_partials render t ps = Some m ->
  NoDup (keys m) /\ forall x, In x (keys m) <-> In x ps.
Proof. exact keys_exact. Qed.
Print Assumptions C17_keys.

(* content under pi = Render("T.partial/pi") alone, whatever Render is *)
Theorem C17_content : forall (render : bytes -> option bytes) t ps m,
  render_partials render t ps = Some m ->
  forall p, In p ps -> lookup p m = render (partial_name t p).
Proof. exact content_alone. Qed.
Print Assumptions C17_content.

(* any missing partial: error and no content at all (and only then) *)
Theorem C17_error_atomic : forall (render : bytes -> option bytes) t ps,
  render_partials render t ps = None <->
  exists p, In p ps /\ render (partial_name t p) = None.
Proof. exact error_atomic. Qed.
Print Assumptions C17_error_atomic.

Theorem C17_empty : forall (render : bytes -> option bytes) t,
  render_partials render t [] = Some [].
Proof. exact empty_request. Qed.
Print Assumptions C17_empty.

(* duplicates and order of the request are irrelevant *)
Theorem C17_order_irrelevant : forall (render : bytes -> option bytes) t ps ps',
  (forall x, In x ps <-> In x ps') ->
  res_equiv (render_partials render t ps) (render_partials render t ps').
Proof. exact order_irrelevant. Qed.
Print Assumptions C17_order_irrelevant.
