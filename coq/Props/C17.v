(* C17 — Partial rendering returns exactly the requested partials, each as rendered alone.
   Property theorems only; each is closed by [exact] of a lemma from Proofs/. *)
From PV Require Import Base.Bytes Models.Partials Proofs.PartialsProofs.

(* exactly the keys p1..pk (as a set, each once) *)
Theorem C17_keys : forall (render : bytes -> option bytes) t ps m,
  render_partials render t ps = Some m ->
  NoDup (keys m) /\ forall x, In x (keys m) <-> In x ps.
Proof. exact keys_exact. Qed.
Print Assumptions C17_keys.

(* content under pi = Render("T.partial/pi") alone, whatever Render is *)
Theorem C17_content : forall (render : bytes -> option bytes) t ps m,
  render_partials render t ps = Some m ->
  forall p, In p ps -> lookup p m = render (partial_name t p).
Proof. exact content_alone. Qed.
Print Assumptions C17_content.

(* any missing partial: error and no content at all (and only then) *)
Theorem C17_error_atomic : forall (render : bytes -> option bytes) t ps,
  render_partials render t ps = None <->
  exists p, In p ps /\ render (partial_name t p) = None.
Proof. exact error_atomic. Qed.
Print Assumptions C17_error_atomic.

Theorem C17_empty : forall (render : bytes -> option bytes) t,
  render_partials render t [] = Some [].
Proof. exact empty_request. Qed.
Print Assumptions C17_empty.

(* duplicates and order of the request are irrelevant *)
Theorem C17_order_irrelevant : forall (render : bytes -> option bytes) t ps ps',
  (forall x, In x ps <-> In x ps') ->
  res_equiv (render_partials render t ps) (render_partials render t ps').
Proof. exact order_irrelevant. Qed.
Print Assumptions C17_order_irrelevant.

(* engine state that survives between calls (loaded templates, what earlier Render /
   RenderPartials calls left behind, the data object handed to the partials): as long
   as the RESULT of Render does not depend on it, RenderPartials after ANY history of
   earlier calls (renders, partial requests, and loads of templates, which may change
   the state in any way), from ANY initial state (a fresh engine included), is the pure loop,
   so C17_keys / C17_content / C17_error_atomic apply to it.  The correspondence check
   tests the hypothesis on the real engine (histories, fresh engines, mutating partials). *)
Theorem C17_history_independent :
  forall (St : Type) (renderS : St -> bytes -> St * option bytes) (loadS : St -> bytes -> St)
         (render : bytes -> option bytes),
  (forall s n, snd (renderS s n) = render n) ->
  forall s0 (h : list (call)) t ps,
    snd (render_partialsS St renderS (after St renderS loadS s0 h) t ps) = render_partials render t ps.
Proof. exact history_independent. Qed.
Print Assumptions C17_history_independent.

(* the hypothesis is needed: one data object shared by the partials of a request
   (a partial that pushes onto a list, then one that prints its length) *)
Theorem C17_shared_state_refuted :
  exists ps p m,
    snd (render_partialsS nat shared_render 2 (B "cart") ps) = Some m /\
    In p ps /\ lookup p m <> alone_render (partial_name (B "cart") p).
Proof. exact shared_state_refuted. Qed.
Print Assumptions C17_shared_state_refuted.

(* ... and: a lookup that does not load first fails on a fresh engine although every
   requested partial renders alone *)
Theorem C17_fresh_engine_refuted :
  exists ps, (forall p, In p ps -> alone_render (partial_name (B "cart") p) <> None) /\
    snd (render_partialsS nat lazy_render 0 (B "cart") ps) = None /\
    render_partials alone_render (B "cart") ps <> None.
Proof. exact fresh_engine_refuted. Qed.
Print Assumptions C17_fresh_engine_refuted.

(* WHICH partials exist.  Engine.Render = exact lookup of the name among the compiled
   templates (one per file <name>.ast.json of the tree), then execution.  Then the whole
   statement of C17 holds with existence = plain membership of the literal name
   T.partial/p in the file tree: success gives exactly the requested keys, every one an
   existing partial with the content of its execution; failure names a requested partial
   that is no file of the tree (or whose execution fails). *)
Theorem C17_spec_tree : forall (tree : list bytes) (exec : bytes -> option bytes) t ps,
  spec17 tree exec t ps (render_partials (render_lookup tree exec) t ps).
Proof. exact spec_tree. Qed.
Print Assumptions C17_spec_tree.

(* a requested name that is no file of the tree - whatever it would resolve to as a
   path - makes the whole call an error *)
Theorem C17_unknown_name_errors : forall (tree : list bytes) (exec : bytes -> option bytes) t ps,
  (exists p, In p ps /\ ~ In (partial_name t p) tree) ->
  render_partials (render_lookup tree exec) t ps = None.
Proof. exact unknown_name_errors. Qed.
Print Assumptions C17_unknown_name_errors.

Theorem C17_success_iff_all_exist : forall (tree : list bytes) (exec : bytes -> option bytes) t ps,
  (exists m, render_partials (render_lookup tree exec) t ps = Some m) <->
  forall p, In p ps -> In (partial_name t p) tree /\ exec (partial_name t p) <> None.
Proof. exact success_iff_all_exist. Qed.
Print Assumptions C17_success_iff_all_exist.

(* the exact lookup is needed: a Render that resolves names like file paths returns
   content for requests none of whose names exists *)
Theorem C17_resolving_lookup_refuted :
  exists ps m,
    (forall p, In p ps -> partial_exists nv_tree (B "cart") p = false) /\
    render_partials (resolving_lookup nv_tree nv_exec) (B "cart") ps = Some m /\
    render_partials (render_lookup nv_tree nv_exec) (B "cart") ps = None.
Proof. exact resolving_lookup_refuted. Qed.
Print Assumptions C17_resolving_lookup_refuted.

(* The engine's template set as state that survives between calls (Models.Partials,
   Section Engine: state = (templatesLoaded, compiled template names); [load] =
   LoadTemplates(filter) - also what the DebugController does -, [render_eng] =
   load-on-demand + exact lookup + execution; the code after repair dd313c0).  On a
   production-mode engine that satisfies the invariant [inv] (IF marked as loaded it holds
   all templates: a fresh engine, an engine after start-up preload), ANY history of full
   loads, filtered loads (of the page template itself, of a partial, of any prefix, of
   nothing - also as the very first call), renders and partial requests leaves
   RenderPartials the pure loop with the exact lookup in the tree - so C17_spec_tree,
   C17_keys, C17_content, C17_error_atomic apply to it. *)
Theorem C17_reloads_harmless : forall (tree : list bytes) (exec : bytes -> option bytes) s0 (h : list call) t ps,
  inv tree s0 ->
  snd (render_partialsS tset (render_eng tree exec false)
         (after tset (render_eng tree exec false) (load tree) s0 h) t ps)
  = render_partials (render_lookup tree exec) t ps.
Proof. exact reloads_harmless. Qed.
Print Assumptions C17_reloads_harmless.

(* in particular: an engine that never loaded, after EVERY history - no hypothesis *)
Theorem C17_every_history : forall (tree : list bytes) (exec : bytes -> option bytes) (h : list call) t ps,
  snd (render_partialsS tset (render_eng tree exec false)
         (after tset (render_eng tree exec false) (load tree) fresh h) t ps)
  = render_partials (render_lookup tree exec) t ps.
Proof. exact every_history. Qed.
Print Assumptions C17_every_history.

(* debug mode (every render reloads the templates its own name is a prefix of): in every
   state of the engine, hence after every history *)
Theorem C17_debug_engine : forall (tree : list bytes) (exec : bytes -> option bytes) s t ps,
  snd (render_partialsS tset (render_eng tree exec true) s t ps)
  = render_partials (render_lookup tree exec) t ps.
Proof. exact debug_engine_any_state. Qed.
Print Assumptions C17_debug_engine.

(* the repair is needed: a loader that marks the engine as loaded on every load (the code
   before dd313c0, [load_unrepaired]) leaves a production engine whose first call is a
   filtered load with the filtered templates only; existing partials are then reported missing *)
Theorem C17_filtered_first_unrepaired_refuted :
  exists f ps,
    (forall p, In p ps -> partial_exists nv_tree (B "cart") p = true) /\
    snd (render_partialsS tset (render_eng nv_tree nv_exec false)
           (after tset (render_eng nv_tree nv_exec false) (load_unrepaired nv_tree) fresh [CLoad f]) (B "cart") ps) = None /\
    snd (render_partialsS tset (render_eng nv_tree nv_exec false)
           (after tset (render_eng nv_tree nv_exec false) (load nv_tree) fresh [CLoad f]) (B "cart") ps) <> None.
Proof. exact filtered_first_unrepaired_refuted. Qed.
Print Assumptions C17_filtered_first_unrepaired_refuted.

(* the prefix rule of compileDir is needed: a filtered load that compiles only the template
   whose name equals the filter loses the partials of the page on LoadTemplates(page) *)
Theorem C17_exact_reload_refuted :
  exists ps,
    (forall p, In p ps -> partial_exists nv_tree (B "cart") p = true) /\
    complete nv_tree (true, Some nv_tree) /\
    snd (render_partialsS tset (render_eng nv_tree nv_exec false)
           (after tset (render_eng nv_tree nv_exec false) (load_exact nv_tree) (true, Some nv_tree) [CLoad (B "cart")])
           (B "cart") ps) = None /\
    snd (render_partialsS tset (render_eng nv_tree nv_exec false)
           (after tset (render_eng nv_tree nv_exec false) (load nv_tree) (true, Some nv_tree) [CLoad (B "cart")])
           (B "cart") ps) <> None.
Proof. exact exact_reload_refuted. Qed.
Print Assumptions C17_exact_reload_refuted.

(* a request whose context ends (cancelled / deadline passed - before the call, between or during its
   partials, while other renders hold the render slots): every Render of the request gives the
   partial's own content or is refused, in whatever way the engine's state (context, slots, scheduler)
   decides; then the call gives the complete answer or an error without content, never a part *)
Theorem C17_gone_all_or_nothing :
  forall (St : Type) (renderS : St -> bytes -> St * option bytes) (render : bytes -> option bytes),
  (forall s n, snd (renderS s n) = render n \/ snd (renderS s n) = None) ->
  forall s t ps,
    snd (render_partialsS St renderS s t ps) = render_partials render t ps \/
    snd (render_partialsS St renderS s t ps) = None.
Proof. exact gone_all_or_nothing. Qed.
Print Assumptions C17_gone_all_or_nothing.

(* a loop that stops quietly when a render is refused hands out a part of the request without an error *)
Theorem C17_gone_break_refuted :
  exists ps p m,
    rp_loopS_break nat leaving_render (Nat.eqb 0) 1 (B "cart") ps [] = Some m /\
    In p ps /\ lookup p m = None.
Proof. exact gone_break_refuted. Qed.
Print Assumptions C17_gone_break_refuted.
