(* C12 — Data handed to the browser as JSON is valid and equals the source data.
   Property theorems only; each is closed by [exact] of a lemma from Proofs/JsonProofs.v.

   stringify  = JSON.stringify(x) and json(x): encoding/json over Map/Array/Nil.MarshalJSON   (Models/Json.v)
   parse      = JSON.parse: json.Unmarshal into interface{} followed by pugjs.Convert
   decode     = a JSON reader written in Gallina; valid_json = an independent recogniser of compact RFC 8259 JSON
   dom_C12 d  = keys lower-case-initial (ASCII first byte, not A-Z) and pairwise distinct, |n| <= 2^53, text valid UTF-8

   and, for the process the texts are made in (Models/JsonHist.v):
   run_data d steps = the heap machine that follows the Go code: variables hold references, JSON.parse allocates
                      a new object on every call, mutations (assignment into a map, push / unshift / pop / shift /
                      splice on an array, at any depth) happen in place; steps = any history of HConv / HParse /
                      HMut / HOut, i.e. any number of renders, templates, copies
   spec_run j steps = value semantics on JSON trees: every variable owns its tree
   pristine_run     = which outputs are of a value nothing was done to
   run_memo         = the same machine with a table text -> parsed object *)
From PV Require Import Base.Bytes Models.Json Models.JsonHist Proofs.JsonProofs Proofs.JsonHistProofs.

(* the round trip is a theorem, not an assumption: canonical trees of ANY nesting and size, strings with quotes,
   backslashes, control characters, < > &, U+2028/9, 2-, 3- and 4-byte sequences *)
Theorem C12_decode_encode : forall j, wf_jv j = true -> decode (encode_go j) = Some j.
Proof. exact decode_encode. Qed.
Print Assumptions C12_decode_encode.

(* every text the encoder writes, for any tree whatsoever, is a JSON text *)
Theorem C12_encode_valid_json : forall j, valid_json (encode_go j) = true.
Proof. exact encode_valid_json. Qed.
Print Assumptions C12_encode_valid_json.

Theorem C12_stringify_valid : forall o, valid_json (stringify o) = true.
Proof. exact stringify_valid. Qed.
Print Assumptions C12_stringify_valid.

(* the text made from page data d decodes to d's own JSON value *)
Theorem C12_stringify_equals_source : forall d, dom_C12 d = true ->
  decode (stringify_data d) = Some (json_of d).
Proof. exact stringify_equals_source. Qed.
Print Assumptions C12_stringify_equals_source.

(* ... and it is, byte for byte, Go's encoding of that value *)
Theorem C12_stringify_text : forall d, dom_C12 d = true -> stringify_data d = encode_go (json_of d).
Proof. exact stringify_text. Qed.
Print Assumptions C12_stringify_text.

(* what is written for ANY template object (upper-case or colliding keys included) reads back as the tree
   MarshalJSON built: nothing is lost or altered between MarshalJSON and the browser *)
Theorem C12_decode_stringify : forall o, obj_ok o = true -> decode (stringify o) = Some (marshal o).
Proof. exact decode_stringify. Qed.
Print Assumptions C12_decode_stringify.

(* JSON.parse of the text gives an object on which stringify yields the same text again *)
Theorem C12_reparse_fixpoint : forall x, obj_ok x = true ->
  exists y, parse (stringify x) = Some y /\ stringify y = stringify x.
Proof. exact reparse_fixpoint. Qed.
Print Assumptions C12_reparse_fixpoint.

Theorem C12_data_reparse_fixpoint : forall d, dom_C12 d = true ->
  exists y, parse (stringify_data d) = Some y /\ stringify y = stringify_data d.
Proof. exact data_reparse_fixpoint. Qed.
Print Assumptions C12_data_reparse_fixpoint.

(* strings are not touched by convert / MarshalJSON, and every Unicode string survives the text *)
Theorem C12_string_transparent : forall s,
  marshal (convert (GStr s)) = JStr s /\
  (utf8_valid s = true -> decode (stringify_data (GStr s)) = Some (JStr s)).
Proof. exact string_transparent. Qed.
Print Assumptions C12_string_transparent.

(* different values never share a text *)
Theorem C12_encode_injective : forall a b,
  wf_jv a = true -> wf_jv b = true -> encode_go a = encode_go b -> a = b.
Proof. exact encode_injective. Qed.
Print Assumptions C12_encode_injective.

(* the judge's tree comparison is sound *)
Theorem C12_jv_eqb_sound : forall a b, jv_eqb a b = true -> a = b.
Proof. exact jv_eqb_eq. Qed.
Print Assumptions C12_jv_eqb_sound.

(* non-vacuity: a value with every kind of content is in the domain and round-trips *)
Theorem C12_domain_inhabited :
  dom_C12 ex_data = true /\ decode (stringify_data ex_data) = Some (json_of ex_data) /\
  valid_json (stringify_data ex_data) = true.
Proof. exact (conj ex_in_domain (conj ex_round_trip ex_valid)). Qed.
Print Assumptions C12_domain_inhabited.

(* empty array / empty object / null stay apart *)
Theorem C12_empty_array_is_not_null :
  stringify_data (GArr []) = B "[]" /\ stringify_data (GMap []) = B "{}" /\ stringify_data GNil = B "null" /\
  stringify_data (GMap [(B "a", GArr []); (B "b", GNil)]) = B "{""a"":[],""b"":null}".
Proof. exact ex_empty_vs_null. Qed.
Print Assumptions C12_empty_array_is_not_null.

(* ---- the hypotheses are forced: the faithful model refutes the statement outside them.
        C12_stringify_equals_source is the provable remainder (the property's own domain). *)

Theorem C12_upper_case_key_refuted :
  exists d, modelled d = true /\ dom_C12 d = false /\
            stringify_data d = B "{""foo"":1}" /\ decode (stringify_data d) <> Some (json_of d).
Proof. exact upper_case_key_refuted. Qed.
Print Assumptions C12_upper_case_key_refuted.

Theorem C12_colliding_keys_refuted :
  exists d, modelled d = true /\ dom_C12 d = false /\
            stringify_data d = B "{""foo"":2}" /\ decode (stringify_data d) <> Some (json_of d).
Proof. exact colliding_keys_refuted. Qed.
Print Assumptions C12_colliding_keys_refuted.

Theorem C12_beyond_2_53_refuted :
  exists d, modelled d = true /\ dom_C12 d = false /\
            decode (stringify_data d) = Some (JInt 9007199254740992) /\ json_of d = JInt 9007199254740993.
Proof. exact beyond_2_53_refuted. Qed.
Print Assumptions C12_beyond_2_53_refuted.

Theorem C12_not_utf8_refuted :
  exists d, modelled d = true /\ dom_C12 d = false /\
            decode (stringify_data d) = Some (JStr [chr 239; chr 191; chr 189]) /\ json_of d = JStr [chr 255].
Proof. exact not_utf8_refuted. Qed.
Print Assumptions C12_not_utf8_refuted.

Theorem C12_reparse_not_utf8_refuted :
  exists x y, obj_ok x = false /\ parse (stringify x) = Some y /\ stringify y <> stringify x.
Proof. exact reparse_not_utf8_refuted. Qed.
Print Assumptions C12_reparse_not_utf8_refuted.

Theorem C12_unsorted_tree_refuted :
  exists j, wf_jv j = false /\ decode (encode_go j) <> Some j /\ valid_json (encode_go j) = true.
Proof. exact unsorted_tree_refuted. Qed.
Print Assumptions C12_unsorted_tree_refuted.

(* ---- parse and stringify inside a process: functions of their argument, for EVERY history *)

(* one mutation of the domain on a template object of the domain: the object's JSON tree changes exactly as the
   mutation says, and the object stays in the domain *)
Theorem C12_mutation_commutes : forall op o, op_dom op = true -> goodb o = true ->
  marshal (obj_apply op o) = jv_apply op (marshal o) /\ goodb (obj_apply op o) = true.
Proof. exact mutation_commutes. Qed.
Print Assumptions C12_mutation_commutes.

(* whatever the history - copies parsed, assigned into, pushed onto, parsed again, in any order and number - every
   text the process writes is Go's encoding of the tree that value semantics gives the variable: no mutation of
   one copy is ever seen through another *)
Theorem C12_history_refines : forall d steps, dom_C12 d = true -> steps_dom steps = true ->
  run_data d steps = map (option_map encode_go) (spec_run (json_of d) steps []).
Proof. exact history_refines. Qed.
Print Assumptions C12_history_refines.

(* ... each of these texts is a JSON text that decodes to that tree *)
Theorem C12_history_outputs_read_back : forall d steps, dom_C12 d = true -> steps_dom steps = true ->
  Forall2 reads_back_as (run_data d steps) (spec_run (json_of d) steps []).
Proof. exact history_outputs. Qed.
Print Assumptions C12_history_outputs_read_back.

(* ... and the data itself, and every parse of its text, is written as THE text of the data, whatever happened
   to other copies before *)
Theorem C12_untouched_values_give_the_text : forall d steps, dom_C12 d = true -> steps_dom steps = true ->
  Forall2 (fun (b : bool) o => b = true -> o = Some (stringify_data d)) (pristine_run steps []) (run_data d steps).
Proof. exact pristine_text. Qed.
Print Assumptions C12_untouched_values_give_the_text.

(* non-vacuity: a history with assignments, pushes at depth, two renders, a copy of a mutated copy *)
Theorem C12_history_inhabited :
  (dom_C12 ex_hist_data = true /\ steps_dom ex_steps = true /\ steps_fit ex_steps [] (json_of ex_hist_data) = true) /\
  pristine_run ex_steps [] = [false; true; true; false; false; false] /\
  nth_error (run_data ex_hist_data ex_steps) 0 =
    Some (Some (B "{""limit"":25,""opts"":{""debug"":false,""ttl"":[5]},""renderedBy"":""widget"",""tags"":[""a"",""b"",""seen""]}")) /\
  nth_error (run_data ex_hist_data ex_steps) 1 = Some (Some (stringify_data ex_hist_data)).
Proof. exact ex_hist_inhabited. Qed.
Print Assumptions C12_history_inhabited.

(* the hypothesis "JSON.parse allocates" is forced: the same machine with a table of parsed texts hands the
   object that was assigned into out again, and an untouched parse of the text of {} is written as {"k":0} *)
Theorem C12_parse_table_refuted :
  exists d steps, dom_C12 d = true /\ steps_dom steps = true /\ steps_fit steps [] (json_of d) = true /\
                  pristine_run steps [] = [true] /\
                  run_data d steps = [Some (stringify_data d)] /\
                  run_memo d steps = [Some (B "{""k"":0}")] /\ stringify_data d = B "{}".
Proof. exact memo_table_refuted. Qed.
Print Assumptions C12_parse_table_refuted.
