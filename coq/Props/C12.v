(* C12 — Data handed to the browser as JSON is valid and equals the source data.
   Property theorems only; each is closed by [exact] of a lemma from Proofs/JsonProofs.v.

   stringify  = JSON.stringify(x) and json(x): encoding/json over Map/Array/Nil.MarshalJSON   (Models/Json.v)
   parse      = JSON.parse: json.Unmarshal into interface{} followed by pugjs.Convert
   decode     = a JSON reader written in Gallina; valid_json = an independent recogniser of compact RFC 8259 JSON
   dom_C12 d  = keys lower-case-initial (ASCII first byte, not A-Z) and pairwise distinct, |n| <= 2^53, text valid UTF-8 *)
From PV Require Import Base.Bytes Models.Json Proofs.JsonProofs.

(* the round trip is a theorem, not an assumption: canonical trees of ANY nesting and size, strings with quotes,
   backslashes, control characters, < > &, U+2028/9, 2-, 3- and 4-byte sequences *)
Theorem C12_decode_encode : forall j, wf_jv j = true -> decode (encode_go j) = Some j.
Proof. exact decode_encode. Qed.
Print Assumptions C12_decode_encode.

(* every text the encoder writes, for any tree whatsoever, is a JSON text *)
Theorem C12_encode_valid_json : forall j, valid_json (encode_go j) = true.
Proof. exact encode_valid_json. Qed.
Print Assumptions C12_encode_valid_json.

Theorem C12_stringify_valid : forall o, valid_json (stringify o) = true.
Proof. exact stringify_valid. Qed.
Print Assumptions C12_stringify_valid.

(* the text made from page data d decodes to d's own JSON value *)
Theorem C12_stringify_equals_source : forall d, dom_C12 d = true ->
  decode (stringify_data d) = Some (json_of d).
Proof. exact stringify_equals_source. Qed.
Print Assumptions C12_stringify_equals_source.

(* ... and it is, byte for byte, Go's encoding of that value *)
Theorem C12_stringify_text : forall d, dom_C12 d = true -> stringify_data d = encode_go (json_of d).
Proof. exact stringify_text. Qed.
Print Assumptions C12_stringify_text.

(* what is written for ANY template object (upper-case or colliding keys included) reads back as the tree
   MarshalJSON built: nothing is lost or altered between MarshalJSON and the browser *)
Theorem C12_decode_stringify : forall o, obj_ok o = true -> decode (stringify o) = Some (marshal o).
Proof. exact decode_stringify. Qed.
Print Assumptions C12_decode_stringify.

(* JSON.parse of the text gives an object on which stringify yields the same text again *)
Theorem C12_reparse_fixpoint : forall x, obj_ok x = true ->
  exists y, parse (stringify x) = Some y /\ stringify y = stringify x.
Proof. exact reparse_fixpoint. Qed.
Print Assumptions C12_reparse_fixpoint.

Theorem C12_data_reparse_fixpoint : forall d, dom_C12 d = true ->
  exists y, parse (stringify_data d) = Some y /\ stringify y = stringify_data d.
Proof. exact data_reparse_fixpoint. Qed.
Print Assumptions C12_data_reparse_fixpoint.

(* strings are not touched by convert / MarshalJSON, and every Unicode string survives the text *)
Theorem C12_string_transparent : forall s,
  marshal (convert (GStr s)) = JStr s /\
  (utf8_valid s = true -> decode (stringify_data (GStr s)) = Some (JStr s)).
Proof. exact string_transparent. Qed.
Print Assumptions C12_string_transparent.

(* different values never share a text *)
Theorem C12_encode_injective : forall a b,
  wf_jv a = true -> wf_jv b = true -> encode_go a = encode_go b -> a = b.
Proof. exact encode_injective. Qed.
Print Assumptions C12_encode_injective.

(* the judge's tree comparison is sound *)
Theorem C12_jv_eqb_sound : forall a b, jv_eqb a b = true -> a = b.
Proof. exact jv_eqb_eq. Qed.
Print Assumptions C12_jv_eqb_sound.

(* non-vacuity: a value with every kind of content is in the domain and round-trips *)
Theorem C12_domain_inhabited :
  dom_C12 ex_data = true /\ decode (stringify_data ex_data) = Some (json_of ex_data) /\
  valid_json (stringify_data ex_data) = true.
Proof. exact (conj ex_in_domain (conj ex_round_trip ex_valid)). Qed.
Print Assumptions C12_domain_inhabited.

(* empty array / empty object / null stay apart *)
Theorem C12_empty_array_is_not_null :
  stringify_data (GArr []) = B "[]" /\ stringify_data (GMap []) = B "{}" /\ stringify_data GNil = B "null" /\
  stringify_data (GMap [(B "a", GArr []); (B "b", GNil)]) = B "{""a"":[],""b"":null}".
Proof. exact ex_empty_vs_null. Qed.
Print Assumptions C12_empty_array_is_not_null.

(* ---- the hypotheses are forced: the faithful model refutes the statement outside them.
        C12_stringify_equals_source is the provable remainder (the property's own domain). *)

Theorem C12_upper_case_key_refuted :
  exists d, modelled d = true /\ dom_C12 d = false /\
            stringify_data d = B "{""foo"":1}" /\ decode (stringify_data d) <> Some (json_of d).
Proof. exact upper_case_key_refuted. Qed.
Print Assumptions C12_upper_case_key_refuted.

Theorem C12_colliding_keys_refuted :
  exists d, modelled d = true /\ dom_C12 d = false /\
            stringify_data d = B "{""foo"":2}" /\ decode (stringify_data d) <> Some (json_of d).
Proof. exact colliding_keys_refuted. Qed.
Print Assumptions C12_colliding_keys_refuted.

Theorem C12_beyond_2_53_refuted :
  exists d, modelled d = true /\ dom_C12 d = false /\
            decode (stringify_data d) = Some (JInt 9007199254740992) /\ json_of d = JInt 9007199254740993.
Proof. exact beyond_2_53_refuted. Qed.
Print Assumptions C12_beyond_2_53_refuted.

Theorem C12_not_utf8_refuted :
  exists d, modelled d = true /\ dom_C12 d = false /\
            decode (stringify_data d) = Some (JStr [chr 239; chr 191; chr 189]) /\ json_of d = JStr [chr 255].
Proof. exact not_utf8_refuted. Qed.
Print Assumptions C12_not_utf8_refuted.

Theorem C12_reparse_not_utf8_refuted :
  exists x y, obj_ok x = false /\ parse (stringify x) = Some y /\ stringify y <> stringify x.
Proof. exact reparse_not_utf8_refuted. Qed.
Print Assumptions C12_reparse_not_utf8_refuted.

Theorem C12_unsorted_tree_refuted :
  exists j, wf_jv j = false /\ decode (encode_go j) <> Some j /\ valid_json (encode_go j) = true.
Proof. exact unsorted_tree_refuted. Qed.
Print Assumptions C12_unsorted_tree_refuted.
