(* C18 — Math and number-parsing helpers agree with ECMAScript on finite numbers.
   Property theorems only; each is closed by [exact] of a lemma from Proofs/. *)
From Coq Require Import QArith.
From PV Require Import Base.Bytes Models.MathFns Proofs.MathFnsProofs.

(* Math.ceil of any number kind, any x with |x| < 2^52: the least integer >= x *)
Theorem C18_ceil : forall (k : kind) (x : Q),
  dom_num x = true -> go_ceil (ANum k x) = Val (inject_Z (es_ceil x)).
Proof. exact ceil_ok. Qed.
Print Assumptions C18_ceil.

(* Math.trunc: the integral part *)
Theorem C18_trunc : forall (k : kind) (x : Q),
  dom_num x = true -> go_trunc (ANum k x) = Val (inject_Z (es_trunc x)).
Proof. exact trunc_ok. Qed.
Print Assumptions C18_trunc.

(* Math.round (repaired): floor(x + 1/2), halves towards +infinity *)
Theorem C18_round : forall (k : kind) (x : Q),
  dom_num x = true -> go_round (ANum k x) = Val (inject_Z (es_round x)).
Proof. exact round_ok. Qed.
Print Assumptions C18_round.

(* Math.min of a non-empty list of any length: one of the arguments, below all of them *)
Theorem C18_min : forall (kvs : list (kind * Q)),
  dom_args (map snd kvs) = true ->
  exists m, go_min (map mk_arg kvs) = Val m /\
            In m (map snd kvs) /\ (forall y, In y (map snd kvs) -> (m <= y)%Q) /\
            (m == es_min (map snd kvs))%Q.
Proof. exact min_ok. Qed.
Print Assumptions C18_min.

(* Math.max (repaired) of a non-empty list of any length: one of the arguments, above all of them *)
Theorem C18_max : forall (kvs : list (kind * Q)),
  dom_args (map snd kvs) = true ->
  exists m, go_max (map mk_arg kvs) = Val m /\
            In m (map snd kvs) /\ (forall y, In y (map snd kvs) -> (y <= m)%Q) /\
            (m == es_max (map snd kvs))%Q.
Proof. exact max_ok. Qed.
Print Assumptions C18_max.

(* parseInt of a number: its integer part *)
Theorem C18_parseInt_number : forall (k : kind) (x : Q),
  dom_pnum x = true -> go_parse_int (ANum k x) = Val (inject_Z (es_parse_int_num x)).
Proof. exact parse_int_number_ok. Qed.
Print Assumptions C18_parseInt_number.

(* parseInt of sign? digit+ : its value *)
Theorem C18_parseInt_digits : forall (s : bytes),
  dom_digits s = true -> go_parse_int (AStr s) = Val (inject_Z (es_parse_int_digits s)).
Proof. exact parse_int_digits_ok. Qed.
Print Assumptions C18_parseInt_digits.

(* the source before the repairs: Max with the start value 5e-324 (F-C18-a) *)
Theorem C18_max_unrepaired_refuted :
  exists l, dom_args l = true /\ ~ (m_max_unrepaired l == es_max l)%Q.
Proof. exact max_unrepaired_refuted. Qed.
Print Assumptions C18_max_unrepaired_refuted.

Theorem C18_max_unrepaired_partial : forall (l : list Q),
  (exists y, In y l /\ (smallest_nonzero_float64 <= y)%Q) ->
  l <> [] /\ (m_max_unrepaired l == es_max l)%Q.
Proof. exact m_max_unrepaired_partial. Qed.
Print Assumptions C18_max_unrepaired_partial.

(* the source before the repairs: round's second arm Trunc(n - 0.5) (F-C18-b) *)
Theorem C18_round_unrepaired_refuted :
  (dom_num (-5 # 2) = true /\ m_round_unrepaired (-5 # 2) = (-3)%Z /\ es_round (-5 # 2) = (-2)%Z) /\
  (dom_num (-1 # 2) = true /\ m_round_unrepaired (-1 # 2) = (-1)%Z /\ es_round (-1 # 2) = 0%Z) /\
  exists x, dom_num x = true /\ m_round_unrepaired x <> es_round x.
Proof. exact round_unrepaired_refuted. Qed.
Print Assumptions C18_round_unrepaired_refuted.

Theorem C18_round_unrepaired_partial : forall (x : Q),
  (qle x (- (1 # 2)) = false \/
   Qeq_bool (inject_Z (es_floor (x + (1 # 2)))) (x + (1 # 2)) = false) ->
  m_round_unrepaired x = es_round x.
Proof. exact m_round_unrepaired_partial. Qed.
Print Assumptions C18_round_unrepaired_partial.
