(* C09 — The render rate limit bounds concurrency and never leaks a slot.
   Property theorems only; each is closed by [exact] of a lemma from Proofs/.
   All statements quantify over every limit [n] and every event sequence the
   gate accepts from its initial state ([reach n evs = Some s]). *)
From PV Require Import Base.Bytes Models.Gate Proofs.GateProofs.

(* at most n renders are past the gate at any instant *)
Theorem C09_bound : forall n evs s,
  0 < n -> reach n evs = Some s -> length (inflight s) <= n.
Proof. exact gate_bound. Qed.
Print Assumptions C09_bound.

(* the renders in flight are exactly those that entered and have not left, the
   renders waiting exactly those started and neither entered nor cancelled; once
   every started render has left or been cancelled nothing is in flight, nobody
   waits, and any n fresh renders all start and all enter: n renders proceed
   simultaneously again *)
Theorem C09_no_leak : forall n evs s,
  reach n evs = Some s ->
  inflight s = entered_not_left n evs /\
  waiting s = started_not_entered_not_cancelled n evs /\
  (all_started_done evs ->
     inflight s = [] /\ waiting s = [] /\
     forall rs, NoDup rs -> (forall r, In r rs -> ~ In r (started evs)) -> length rs = n ->
       exists s', reach n (evs ++ refill rs) = Some s' /\
                  (0 < n -> inflight s' = rs /\ waiting s' = [])).
Proof. exact gate_no_leak. Qed.
Print Assumptions C09_no_leak.

(* every way out (ok, missing template, failing template function, panic)
   is possible for a render in flight and frees exactly its one slot *)
Theorem C09_every_exit_releases : forall n evs s r o,
  reach n evs = Some s -> In r (inflight s) ->
  exists s', gate_step s (Leave r o) = Some s' /\
             S (length (inflight s')) = length (inflight s) /\
             ~ In r (inflight s') /\
             (forall x, x <> r -> (In x (inflight s') <-> In x (inflight s))) /\
             waiting s' = waiting s /\ cap s' = cap s.
Proof. exact gate_every_exit_releases. Qed.
Print Assumptions C09_every_exit_releases.

(* a render cancelled while waiting never was and never is past the gate *)
Theorem C09_cancel_takes_no_slot : forall n evs s r,
  reach n evs = Some s -> In r (cancelled_of evs) ->
  ~ In r (entered n evs) /\ ~ In r (inflight s) /\ ~ In r (waiting s).
Proof. exact gate_cancel_takes_no_slot. Qed.
Print Assumptions C09_cancel_takes_no_slot.

(* only a waiting render can be cancelled, and the cancellation leaves the set in flight alone *)
Theorem C09_cancel_step : forall s r s',
  gate_step s (Cancel r) = Some s' ->
  In r (waiting s) /\ inflight s' = inflight s /\ waiting s' = del r (waiting s).
Proof. exact gate_cancel_step. Qed.
Print Assumptions C09_cancel_step.

(* limit disabled: nobody ever waits; every started render that has not left is in flight *)
Theorem C09_disabled_never_waits : forall evs s,
  reach 0 evs = Some s ->
  waiting s = [] /\
  inflight s = filter (fun r => negb (memr r (left_of evs))) (started evs).
Proof. exact gate_disabled_never_waits. Qed.
Print Assumptions C09_disabled_never_waits.

(* a free slot and somebody waiting: every waiting render may enter (the
   runtime picks one); at the limit nobody may *)
Theorem C09_progress : forall n evs s,
  reach n evs = Some s -> waiting s <> [] -> length (inflight s) < cap s ->
  (exists r, In r (waiting s)) /\
  (forall r, In r (waiting s) -> exists s', gate_step s (Enter r) = Some s').
Proof. exact gate_progress. Qed.
Print Assumptions C09_progress.

Theorem C09_full_gate_waits : forall s r,
  cap s <= length (inflight s) -> gate_step s (Enter r) = None.
Proof. exact enter_needs_slot. Qed.
Print Assumptions C09_full_gate_waits.
