(* C09 — The render rate limit bounds concurrency and never leaks a slot.
   Property theorems only; each is closed by [exact] of a lemma from Proofs/.
   All statements quantify over every limit [n] and every event sequence the
   gate accepts from its initial state ([reach n evs = Some s]). *)
From PV Require Import Base.Bytes Models.Gate Proofs.GateProofs.

(* at most n renders are past the gate at any instant *)
Theorem C09_bound : forall n evs s,
  0 < n -> reach n evs = Some s -> length (inflight s) <= n.
Proof. exact gate_bound. Qed.
Print Assumptions C09_bound.

(* the renders in flight are exactly those that entered and have not left, the
   renders waiting exactly those started and neither entered nor cancelled; once
   every started render has left or been cancelled nothing is in flight, nobody
   waits, and any n fresh renders all start and all enter: n renders proceed
   simultaneously again *)
Theorem C09_no_leak : forall n evs s,
  reach n evs = Some s ->
  inflight s = entered_not_left n evs /\
  waiting s = started_not_entered_not_cancelled n evs /\
  (all_started_done evs ->
     inflight s = [] /\ waiting s = [] /\
     forall rs, NoDup rs -> (forall r, In r rs -> ~ In r (started evs)) -> length rs = n ->
       exists s', reach n (evs ++ refill rs) = Some s' /\
                  (0 < n -> inflight s' = rs /\ waiting s' = [])).
Proof. exact gate_no_leak. Qed.
Print Assumptions C09_no_leak.

(* every way out (ok, missing template, failing template function, panic)
   is possible for a render in flight and frees exactly its one slot *)
Theorem C09_every_exit_releases : forall n evs s r o,
  reach n evs = Some s -> In r (inflight s) ->
  exists s', gate_step s (Leave r o) = Some s' /\
             S (length (inflight s')) = length (inflight s) /\
             ~ In r (inflight s') /\
             (forall x, x <> r -> (In x (inflight s') <-> In x (inflight s))) /\
             waiting s' = waiting s /\ cap s' = cap s.
Proof. exact gate_every_exit_releases. Qed.
Print Assumptions C09_every_exit_releases.

(* a render that got the context error (its context ended while it was waiting,
   or was over when it called) never was and never is past the gate *)
Theorem C09_cancel_takes_no_slot : forall n evs s r,
  reach n evs = Some s -> In r (cancelled_of evs) ->
  ~ In r (entered n evs) /\ ~ In r (inflight s) /\ ~ In r (waiting s).
Proof. exact gate_cancel_takes_no_slot. Qed.
Print Assumptions C09_cancel_takes_no_slot.

(* only a waiting render whose context is over can get the context error, and
   that leaves the set in flight alone *)
Theorem C09_cancel_step : forall s r s',
  gate_step s (Cancel r) = Some s' ->
  In r (waiting s) /\ In r (ended s) /\ inflight s' = inflight s /\ waiting s' = del r (waiting s).
Proof. exact gate_cancel_step. Qed.
Print Assumptions C09_cancel_step.

(* over every accepted history the context error goes only to callers whose
   context is over (they were started with such a context, or it ended later) *)
Theorem C09_context_error_needs_ended_context : forall n evs s r,
  reach n evs = Some s -> In r (cancelled_of evs) -> In r (ended_of evs).
Proof. exact gate_cancel_needs_ended. Qed.
Print Assumptions C09_context_error_needs_ended_context.

(* a waiting render whose context is over can return its error in every state
   (promptly: nothing else has to happen first) and takes nothing with it *)
Theorem C09_ended_waiter_returns : forall n evs s r,
  reach n evs = Some s -> In r (waiting s) -> In r (ended s) ->
  exists s', gate_step s (Cancel r) = Some s' /\
             inflight s' = inflight s /\ waiting s' = del r (waiting s) /\ cap s' = cap s.
Proof. exact gate_ended_waiter_returns. Qed.
Print Assumptions C09_ended_waiter_returns.

(* Render called with a context that is already over: the error (gate exactly as
   before the call) is always possible; entering is possible exactly when a slot
   is free (Go's select may choose either) and makes it an ordinary render in
   flight; at a full gate only the error is possible; it cannot leave without
   having entered *)
Theorem C09_ended_start : forall n evs s r,
  0 < n -> reach n evs = Some s -> ~ In r (started evs) ->
  exists s1, gate_step s (Start r true) = Some s1 /\
    inflight s1 = inflight s /\ waiting s1 = waiting s ++ [r] /\ In r (ended s1) /\
    (exists s2, gate_step s1 (Cancel r) = Some s2 /\
                inflight s2 = inflight s /\ waiting s2 = waiting s /\ cap s2 = cap s) /\
    (length (inflight s) < n ->
       exists s2, gate_step s1 (Enter r) = Some s2 /\
                  inflight s2 = inflight s ++ [r] /\ waiting s2 = waiting s) /\
    (n <= length (inflight s) -> gate_step s1 (Enter r) = None) /\
    (forall o, gate_step s1 (Leave r o) = None).
Proof. exact gate_ended_start. Qed.
Print Assumptions C09_ended_start.

(* the context of a waiting render ends while a render in flight hands its slot
   back: the two events commute; the waiter then either returns the error (the
   slot is free) or takes the slot (as many in flight as before) - nothing else *)
Theorem C09_cancel_release_race : forall n evs s rw ri o,
  reach n evs = Some s -> In rw (waiting s) -> In ri (inflight s) ->
  exists s1, run (Some s) [CtxEnd rw; Leave ri o] = Some s1 /\
             run (Some s) [Leave ri o; CtxEnd rw] = Some s1 /\
    inflight s1 = del ri (inflight s) /\ waiting s1 = waiting s /\
    (exists s2, gate_step s1 (Cancel rw) = Some s2 /\
                inflight s2 = del ri (inflight s) /\ waiting s2 = del rw (waiting s)) /\
    (exists s2, gate_step s1 (Enter rw) = Some s2 /\
                inflight s2 = del ri (inflight s) ++ [rw] /\ waiting s2 = del rw (waiting s) /\
                length (inflight s2) = length (inflight s)) /\
    (forall o', gate_step s1 (Leave rw o') = None).
Proof. exact gate_cancel_release_race. Qed.
Print Assumptions C09_cancel_release_race.

(* limit disabled: nobody ever waits; every started render that has not left is in flight *)
Theorem C09_disabled_never_waits : forall evs s,
  reach 0 evs = Some s ->
  waiting s = [] /\
  inflight s = filter (fun r => negb (memr r (left_of evs))) (started evs).
Proof. exact gate_disabled_never_waits. Qed.
Print Assumptions C09_disabled_never_waits.

(* a free slot and somebody waiting: every waiting render may enter (the
   runtime picks one); at the limit nobody may *)
Theorem C09_progress : forall n evs s,
  reach n evs = Some s -> waiting s <> [] -> length (inflight s) < cap s ->
  (exists r, In r (waiting s)) /\
  (forall r, In r (waiting s) -> exists s', gate_step s (Enter r) = Some s').
Proof. exact gate_progress. Qed.
Print Assumptions C09_progress.

Theorem C09_full_gate_waits : forall s r,
  cap s <= length (inflight s) -> gate_step s (Enter r) = None.
Proof. exact enter_needs_slot. Qed.
Print Assumptions C09_full_gate_waits.

(* a render that waits at a full gate - e.g. one of several callers that arrived
   together beyond the free slots - cannot enter and cannot leave; when its
   context ends it still cannot enter, and it can return the error at once,
   with the renders in flight exactly as they are: no slot has to come back first *)
Theorem C09_full_gate_cancel : forall n evs s r,
  reach n evs = Some s -> In r (waiting s) -> cap s <= length (inflight s) ->
  gate_step s (Enter r) = None /\ (forall o, gate_step s (Leave r o) = None) /\
  exists s1, gate_step s (CtxEnd r) = Some s1 /\
    inflight s1 = inflight s /\ waiting s1 = waiting s /\ cap s1 = cap s /\
    gate_step s1 (Enter r) = None /\
    exists s2, gate_step s1 (Cancel r) = Some s2 /\
      inflight s2 = inflight s /\ waiting s2 = del r (waiting s) /\ cap s2 = cap s.
Proof. exact gate_full_gate_cancel. Qed.
Print Assumptions C09_full_gate_cancel.

(* rounds: after any accepted history in which every started render has left or
   got the context error, any further history (render names moved past all names
   used so far) is accepted exactly when a new gate with the same limit accepts
   it, and both gates then show the same renders in flight and waiting *)
Theorem C09_round_reset : forall n evs s d evs',
  reach n evs = Some s -> all_started_done evs ->
  (forall r, In r (started evs) -> r < d) ->
  same_upto d (reach n evs') (run (Some s) (map (shift d) evs')).
Proof. exact gate_round_reset. Qed.
Print Assumptions C09_round_reset.

(* ---- every way a render is started: requests (Engine.Render = one render,
   Engine.RenderPartials = one gated render per partial, one after the other,
   all with the request's context; failing at any partial), in every engine mode
   (the gate does not look at Engine.Debug: one machine for both modes) *)

(* every request history the machine accepts is carried out by gate events the gate
   accepts: all theorems above hold for histories of requests *)
Theorem C09_requests_refine : forall n qevs s,
  req_reach n qevs = Some s -> reach n (rev (trace s)) = Some (gate s).
Proof. exact req_refines. Qed.
Print Assumptions C09_requests_refine.

(* the renders at the gate or in flight are exactly the current renders of the
   requests in progress, one per request: a request holds at most one slot, and
   a request that is over holds none *)
Theorem C09_request_renders : forall n qevs s,
  req_reach n qevs = Some s ->
  (forall r, In r (inflight (gate s)) \/ In r (waiting (gate s)) <-> exists q, In (q, r) (cur s)) /\
  (forall q r q' r', In (q, r) (cur s) -> In (q', r') (cur s) -> (q = q' <-> r = r')).
Proof. exact req_renders. Qed.
Print Assumptions C09_request_renders.

(* at most n requests have a template executing at any instant *)
Theorem C09_requests_bound : forall n qevs s,
  0 < n -> req_reach n qevs = Some s -> length (q_inside s) <= n.
Proof. exact req_bound. Qed.
Print Assumptions C09_requests_bound.

(* after any history of requests: when every request is over (result, error,
   panic or context error, after any number of partials) nothing is in flight,
   nobody waits, and any n fresh renders all get past the gate together *)
Theorem C09_requests_all_returned : forall n qevs s,
  req_reach n qevs = Some s -> cur s = [] ->
  inflight (gate s) = [] /\ waiting (gate s) = [] /\
  forall rs, NoDup rs -> (forall r, In r rs -> ~ In r (started (rev (trace s)))) -> length rs = n ->
    exists g', reach n (rev (trace s) ++ refill rs) = Some g' /\
               (0 < n -> inflight g' = rs /\ waiting g' = []).
Proof. exact req_all_returned. Qed.
Print Assumptions C09_requests_all_returned.

(* a request whose template is executing can return for good in every way, and
   that hands back exactly its one slot *)
Theorem C09_request_return_releases : forall n qevs s q r o,
  req_reach n qevs = Some s -> In (q, r) (cur s) -> In r (inflight (gate s)) ->
  exists s', req_step s (RReturn q o) = Some s' /\
             inflight (gate s') = del r (inflight (gate s)) /\
             waiting (gate s') = waiting (gate s) /\ cur s' = drop q (cur s) /\
             S (length (inflight (gate s'))) = length (inflight (gate s)).
Proof. exact req_return_releases. Qed.
Print Assumptions C09_request_return_releases.

(* going on to the next partial hands the slot back first: the next render of
   the request queues at the gate like any other caller *)
Theorem C09_request_next_releases : forall n qevs s q r r',
  0 < n -> req_reach n qevs = Some s -> In (q, r) (cur s) -> In r (inflight (gate s)) ->
  ~ In r' (started (rev (trace s))) ->
  exists s', req_step s (RNext q r') = Some s' /\
             inflight (gate s') = del r (inflight (gate s)) /\
             waiting (gate s') = waiting (gate s) ++ [r'] /\
             cur s' = (q, r') :: drop q (cur s).
Proof. exact req_next_releases. Qed.
Print Assumptions C09_request_next_releases.
