(* C15 — the JavaScript snippet parser accepts or rejects every input without crashing;
   supported-subset expressions yield trees that reflect JavaScript precedence and associativity.
   Property theorems only; each is closed by [exact] of a lemma from Proofs/JsParseProofs.v.

   M = Js/Lex.v + Js/Parse.v (the scanner and the precedence ladder of otto/parser, with the
   entry points parse_file = parser.ParseFile and parse_function = parser.ParseFunction);
   S = Js/Prec.v (ECMA-262 precedence / associativity table) through the printers of Js/Show.v. *)
From PV Require Import Base.Bytes Js.Ast Js.Lex Js.Parse Js.Prec Js.Show Proofs.JsParseProofs.

(* termination, model level: for EVERY byte string the fuel 64 * (|src| + 2) is enough — every call of the
   modelled scanner/parser either consumes input or descends the fixed ladder *)
Theorem C15_fuel : forall src : bytes, parse_file src <> PFuel.
Proof. exact parse_file_fuel. Qed.
Print Assumptions C15_fuel.

Theorem C15_fuel_function : forall params body : bytes, parse_function params body <> PFuel.
Proof. exact parse_function_fuel. Qed.
Print Assumptions C15_fuel_function.

(* the scanner alone: never out of fuel, and every token except EOF consumes at least one byte *)
Theorem C15_scan_progress : forall (ins : bool) (s : bytes), lres_ok (scan ins s) (length s).
Proof. exact scan_ok. Qed.
Print Assumptions C15_scan_progress.

(* once an answer is reached, more fuel never changes it *)
Theorem C15_fuel_monotone : forall f f' c st v st',
  run f c st = ROk v st' -> f <= f' -> run f' c st = ROk v st'.
Proof. exact run_mono_ok. Qed.
Print Assumptions C15_fuel_monotone.

(* acceptance + precedence + associativity: EVERY expression tree of the supported subset (any depth),
   printed with every operand parenthesised, is accepted and parses back to exactly that tree *)
Theorem C15_roundtrip_full : forall e : expr, wf e = true ->
  parse_file (jshow_full e) = POk [SExpr e].
Proof. exact roundtrip_full_file. Qed.
Print Assumptions C15_roundtrip_full.

(* ... and printed with only the parentheses the ECMAScript table (Js/Prec.v) demands: the parser resolves
   every omitted parenthesis the way JavaScript does.  (An expression statement must not begin with "{".) *)
Theorem C15_roundtrip_min : forall e : expr, wf e = true -> stmt_start_ok (toks false e) = true ->
  parse_file (jshow_min e) = POk [SExpr e].
Proof. exact roundtrip_min_file. Qed.
Print Assumptions C15_roundtrip_min.

(* the path pugjs.FuncToStatements takes: ParseFunction("", "return " + expression); here no condition
   on the first token is needed *)
Theorem C15_roundtrip_min_function : forall e : expr, wf e = true ->
  parse_function [] (B "return" ++ jshow_min e) = POk [SExpr (EFun None [] [SReturn (Some e)])].
Proof. exact roundtrip_min_function. Qed.
Print Assumptions C15_roundtrip_min_function.

Theorem C15_roundtrip_full_function : forall e : expr, wf e = true ->
  parse_function [] (B "return" ++ jshow_full e) = POk [SExpr (EFun None [] [SReturn (Some e)])].
Proof. exact roundtrip_full_function. Qed.
Print Assumptions C15_roundtrip_full_function.

(* the entry points never reach an explicit panic(...) site of the modelled code: the scanner never hands
   parseStringLiteral a body ending in a lone backslash, and ParseFunction (repaired) checks the shape of
   the program instead of asserting it *)
Theorem C15_no_model_panic : forall src : bytes, parse_file src <> PPanic.
Proof. exact parse_file_no_panic. Qed.
Print Assumptions C15_no_model_panic.

Theorem C15_no_model_panic_function : forall params body : bytes, parse_function params body <> PPanic.
Proof. exact parse_function_no_panic. Qed.
Print Assumptions C15_no_model_panic_function.

(* F-C15-a: the entry point as it was before the repair does reach the panic outcome *)
Theorem C15_no_model_panic_unrepaired_refuted :
  exists body, unrepaired_parse_function [] body = PPanic.
Proof. exists (B "return 1}), (function(){ 2"). exact unrepaired_parse_function_panics. Qed.
Print Assumptions C15_no_model_panic_unrepaired_refuted.

(* same answer every time (the model is a function; on the Go side this is observed) *)
Theorem C15_deterministic : forall src r1 r2, parse_file src = r1 -> parse_file src = r2 -> r1 = r2.
Proof. exact parse_file_deterministic. Qed.
Print Assumptions C15_deterministic.

Theorem C15_deterministic_function : forall p b r1 r2,
  parse_function p b = r1 -> parse_function p b = r2 -> r1 = r2.
Proof. exact parse_function_deterministic. Qed.
Print Assumptions C15_deterministic_function.
