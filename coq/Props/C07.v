(* C07 — Rendering is a pure, deterministic function of template and data.
   Property theorems only; each is closed by [exact] of a lemma from Proofs/PurityProofs.v. *)
From PV Require Import Base.Bytes Tmpl.Value Models.Purity Proofs.PurityProofs.

(* (a) Whatever order the Go runtime picks at each map range (any two oracles returning permutations),
   every modelled site gives the same result: convert of Go maps, Map.Keys, walkRange, the
   template variables built by Template.execute, MarshalJSON, Object.keys, Object.assign,
   __op__map_params - for all data whose map key names are pairwise distinct (dom_C07). *)
Theorem C07_oracle_independent : forall pi1 pi2 : oracle,
  perm_oracle pi1 -> perm_oracle pi2 ->
  forall x, dom_C07 x = true -> all_sites pi1 x = all_sites pi2 x.
Proof. exact oracle_independent. Qed.
Print Assumptions C07_oracle_independent.

(* ... and so does every template shape the correspondence check renders, composed from those sites *)
Theorem C07_render_oracle_independent : forall pi1 pi2 : oracle,
  perm_oracle pi1 -> perm_oracle pi2 ->
  forall sh d, dom_data d = true -> render_shape pi1 sh d = render_shape pi2 sh d.
Proof. exact render_oracle_independent. Qed.
Print Assumptions C07_render_oracle_independent.

(* the domain restriction is forced: a map[interface{}] with the keys "1" and 1 *)
Theorem C07_oracle_independent_refuted :
  exists pi1 pi2 x, perm_oracle pi1 /\ perm_oracle pi2 /\ dom_C07 x = false /\
                    all_sites pi1 x <> all_sites pi2 x.
Proof. exact oracle_independent_refuted. Qed.
Print Assumptions C07_oracle_independent_refuted.

(* the code as it was before the three repairs: convert of non-string keys, Map.Keys, the
   variable `foo` with keys Foo/foo, and MarshalJSON all depend on the iteration order, inside dom_C07 *)
Theorem C07_unrepaired_sites_refuted :
  exists pi1 pi2 x, perm_oracle pi1 /\ perm_oracle pi2 /\ dom_C07 x = true /\
    let a := all_sites_unfixed pi1 x in let b := all_sites_unfixed pi2 x in
    fst (fst (fst a)) <> fst (fst (fst b))
    /\ snd (fst (fst a)) <> snd (fst (fst b))
    /\ var_lookup (B "foo") (snd (fst a)) <> var_lookup (B "foo") (snd (fst b))
    /\ snd a <> snd b.
Proof. exact unrepaired_sites_refuted. Qed.
Print Assumptions C07_unrepaired_sites_refuted.

(* (b) In production mode after a successful load, for ALL request sequences rs and requests r:
   what r is answered after rs is what it is answered alone - whatever Template.execute does with
   its per-execution state (new_exec, run_exec, output are arbitrary). *)
Theorem C07_history_independent :
  forall (tpl exec_state : Type) (new_exec : tpl -> gdata -> exec_state)
         (run_exec : exec_state -> exec_state) (output : exec_state -> option bytes)
         (e : engine tpl) (rs : list request) (r : request),
    resp tpl (run tpl exec_state new_exec run_exec output e (rs ++ [r]))
    = resp tpl (run tpl exec_state new_exec run_exec output e [r]).
Proof. exact history_independent. Qed.
Print Assumptions C07_history_independent.

(* ... and the same across engine instances holding the same templates *)
Theorem C07_engine_independent :
  forall (tpl exec_state : Type) (new_exec : tpl -> gdata -> exec_state)
         (run_exec : exec_state -> exec_state) (output : exec_state -> option bytes)
         (e e' : engine tpl) (rs rs' : list request) (r : request),
    templates tpl e = templates tpl e' ->
    resp tpl (run tpl exec_state new_exec run_exec output e (rs ++ [r]))
    = resp tpl (run tpl exec_state new_exec run_exec output e' (rs' ++ [r])).
Proof. exact engine_independent. Qed.
Print Assumptions C07_engine_independent.

(* ... and for a whole process: any number of engine instances, any history of requests addressed to
   any of them (irs, irs'), in two processes p, p' - a request to an engine holding the same templates
   gets the same answer.  (That nothing but the engines is state of the process - no package-level
   variable, pool or cache written by a render - is what the correspondence check samples.) *)
Theorem C07_process_history_independent :
  forall (tpl exec_state : Type) (new_exec : tpl -> gdata -> exec_state)
         (run_exec : exec_state -> exec_state) (output : exec_state -> option bytes)
         (p p' : process tpl) (irs irs' : list (nat * request)) (i j : nat) (r : request),
    option_map (templates tpl) (nth_error p i) = option_map (templates tpl) (nth_error p' j) ->
    presp tpl (prun tpl exec_state new_exec run_exec output p (irs ++ [(i, r)]))
    = presp tpl (prun tpl exec_state new_exec run_exec output p' (irs' ++ [(j, r)])).
Proof. exact process_history_independent. Qed.
Print Assumptions C07_process_history_independent.

(* (c) For ALL stores of caller data, roots, conversion fuel and ALL sequences of template operations
   (convert, member, index, push, unshift, pop, shift, sort, splice, slice, x.k = v, Object.assign,
   literals, new arrays/objects): the caller's cells are afterwards what they were before. *)
Theorem C07_input_untouched : forall (gstore : store) (root : mval) (fuel : nat) (ops : list op),
  gstore_after gstore (render_mem gstore root fuel ops) = gstore.
Proof. exact input_untouched. Qed.
Print Assumptions C07_input_untouched.

(* the fuel of the conversion is enough: on a store without forward references (caller data is built
   bottom-up, hence acyclic) fuel a+1 converts cell a completely - more fuel changes nothing *)
Theorem C07_convert_fuel_enough : forall g : store, wf_store g = true ->
  forall a, a < length g -> forall f ext, S a <= f ->
    mconvert f (g ++ ext) (MRef a) = mconvert (S a) (g ++ ext) (MRef a).
Proof. exact mconvert_fuel_enough. Qed.
Print Assumptions C07_convert_fuel_enough.

(* (d) Where the template set comes from (compileDir): every file of the directory tree is translated by a
   translator created for that file.  Two engines whose directories hold the same file under the requested
   name - alone, or among ANY sibling files, listed in ANY order - answer the request alike, after any
   histories, whatever the translator and the executor do. *)
Theorem C07_sibling_independent :
  forall (src tpl : Type) (translate : src -> tpl)
         (exec_state : Type) (new_exec : tpl -> gdata -> exec_state)
         (run_exec : exec_state -> exec_state) (output : exec_state -> option bytes)
         (files files' : list (bytes * src)) (st st' : list bytes) (rs rs' : list request) (n : bytes) (d : gdata),
    lookup n files = lookup n files' ->
    resp tpl (run tpl exec_state new_exec run_exec output (mk_engine tpl (load src tpl translate files) st)
                  (rs ++ [mk_request n d]))
    = resp tpl (run tpl exec_state new_exec run_exec output (mk_engine tpl (load src tpl translate files') st')
                    (rs' ++ [mk_request n d])).
Proof. exact sibling_independent. Qed.
Print Assumptions C07_sibling_independent.

(* ... in particular the order in which the directory is listed does not matter *)
Theorem C07_listing_order_independent :
  forall (src tpl : Type) (translate : src -> tpl) (files files' : list (bytes * src)) (n : bytes),
    NoDup (map fst files) -> Permutation.Permutation files files' ->
    lookup n (load src tpl translate files) = lookup n (load src tpl translate files').
Proof. exact load_order_independent. Qed.
Print Assumptions C07_listing_order_independent.

(* a translator that is carried from file to file (here: its mixin table, first definition of a name wins)
   makes both false: the template stored for `cart` depends on the listing order and on the sibling *)
Theorem C07_shared_translator_refuted :
  exists (files files' : list (bytes * mx_src)) n,
    NoDup (map fst files) /\ Permutation.Permutation files files' /\
    lookup n (load_shared mx_src (list bytes) (list (bytes * bytes)) mx_translate_st [] files)
    <> lookup n (load_shared mx_src (list bytes) (list (bytes * bytes)) mx_translate_st [] files')
    /\ lookup n (load_shared mx_src (list bytes) (list (bytes * bytes)) mx_translate_st [] files)
       <> lookup n (load_shared mx_src (list bytes) (list (bytes * bytes)) mx_translate_st [] [(B "cart", mx_cart)]).
Proof. exact shared_translator_refuted. Qed.
Print Assumptions C07_shared_translator_refuted.

(* (e) What Render returns is a reader over a buffer of its own.  For ALL processes, histories irs, requests
   (i, r) and ALL further renders [later]: what the caller reads from the result of (i, r) AFTER later is
   what r is answered by an engine with the same templates in any process p' after any history irs'. *)
Theorem C07_late_read_independent :
  forall (tpl exec_state : Type) (new_exec : tpl -> gdata -> exec_state)
         (run_exec : exec_state -> exec_state) (output : exec_state -> option bytes)
         (p p' : process tpl) (bufs : list response) (irs irs' later : list (nat * request)) (i j : nat) (r : request),
    option_map (templates tpl) (nth_error p i) = option_map (templates tpl) (nth_error p' j) ->
    rread tpl (rrun tpl exec_state new_exec run_exec output (mk_rproc tpl p bufs) (irs ++ (i, r) :: later))
          (length bufs + length irs)
    = Some (presp tpl (prun tpl exec_state new_exec run_exec output p' (irs' ++ [(j, r)]))).
Proof. exact late_read_independent. Qed.
Print Assumptions C07_late_read_independent.

(* with one recycled buffer behind all readers the first result, read after a second render, is the second *)
Theorem C07_pooled_buffer_refuted :
  exists (p : process bytes) (r1 r2 : nat * request),
    let new_exec := fun (t : bytes) (d : gdata) => t in
    let run_exec := fun (s : bytes) => s in
    let output := fun (s : bytes) => Some s in
    rread_pooled bytes (rrun_pooled bytes bytes new_exec run_exec output (mk_rproc bytes p []) [r1; r2]) 0
    <> Some (presp bytes (prun bytes bytes new_exec run_exec output p [r1]))
    /\ rread bytes (rrun bytes bytes new_exec run_exec output (mk_rproc bytes p []) [r1; r2]) 0
       = Some (presp bytes (prun bytes bytes new_exec run_exec output p [r1])).
Proof. exact pooled_buffer_refuted. Qed.
Print Assumptions C07_pooled_buffer_refuted.

(* (f) Several engines in one process, each with a function table (configuration) and a template directory
   of its own: compileDir translates every file with the function table of ITS engine.  In two processes
   that load ANY engines es, es' in any order, an engine with configuration c whose directory holds the same
   file under the requested name answers the request alike - whatever the other engines are, whatever
   they were asked before. *)
Theorem C07_other_engines_independent :
  forall (src tpl cfg : Type) (translate : cfg -> src -> tpl)
         (exec_state : Type) (new_exec : tpl -> gdata -> exec_state)
         (run_exec : exec_state -> exec_state) (output : exec_state -> option bytes)
         (es es' : list (cfg * list (bytes * src))) (i j : nat) (c : cfg) (files files' : list (bytes * src))
         (ts ts' : list (bytes * tpl)) (st st' : list bytes) (rs rs' : list request) (n : bytes) (d : gdata),
    nth_error es i = Some (c, files) -> nth_error es' j = Some (c, files') ->
    lookup n files = lookup n files' ->
    nth_error (load_all src tpl cfg translate es) i = Some ts ->
    nth_error (load_all src tpl cfg translate es') j = Some ts' ->
    resp tpl (run tpl exec_state new_exec run_exec output (mk_engine tpl ts st) (rs ++ [mk_request n d]))
    = resp tpl (run tpl exec_state new_exec run_exec output (mk_engine tpl ts' st') (rs' ++ [mk_request n d])).
Proof. exact other_engines_independent. Qed.
Print Assumptions C07_other_engines_independent.

(* a table of finished translations that belongs to the process and is keyed by the source text alone makes
   it false: the engine in which `motto` is a template function stores another template for `page` when an
   engine in which `motto` is a variable of the page data was loaded before it *)
Theorem C07_translation_memo_refuted :
  exists (e0 e1 : list bytes * list (bytes * list bytes)) n,
    lookup n (nth 1 (load_all_memo (list bytes) (list bytes) (list bytes) fn_translate names_eqb [] [e0; e1]) [])
    <> lookup n (nth 0 (load_all_memo (list bytes) (list bytes) (list bytes) fn_translate names_eqb [] [e1]) [])
    /\ lookup n (nth 1 (load_all (list bytes) (list bytes) (list bytes) fn_translate [e0; e1]) [])
       = lookup n (nth 0 (load_all (list bytes) (list bytes) (list bytes) fn_translate [e1]) []).
Proof. exact translation_memo_refuted. Qed.
Print Assumptions C07_translation_memo_refuted.

(* (g) Page data that already holds objects of the engine's own model.  C07_input_untouched is about a
   conversion that copies EVERY cell of the caller; a conversion that hands out some of the caller's cells
   unchanged (a *Array / *Map the caller got from pugjs.Convert before the repair F-C07-d; a []Object
   wrapped without copying) lets a template sort the caller's list - on a well-formed store, while the
   copying conversion leaves the same store untouched under the same operations. *)
Theorem C07_shared_object_refuted :
  exists (keep : nat -> bool) (g : store) (root : mval) (fuel : nat) (ops : list op),
    wf_store g = true /\
    gstore_after g (render_mem_keep keep g root fuel ops) <> g
    /\ gstore_after g (render_mem g root fuel ops) = g.
Proof. exact shared_object_refuted. Qed.
Print Assumptions C07_shared_object_refuted.

(* ... and a conversion that keeps nothing is the conversion of C07_input_untouched *)
Theorem C07_copy_all_untouched : forall (gstore : store) (root : mval) (fuel : nat) (ops : list op),
  render_mem_keep (fun _ => false) gstore root fuel ops = render_mem gstore root fuel ops
  /\ gstore_after gstore (render_mem_keep (fun _ => false) gstore root fuel ops) = gstore.
Proof. exact copy_all_untouched. Qed.
Print Assumptions C07_copy_all_untouched.
