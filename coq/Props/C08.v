(* C08 — Concurrent renders behave like the same renders run one at a time.
   Property theorems only; each is closed by [exact] of a lemma from Proofs/SchedProofs.v or
   Proofs/SchedOwnProofs.v.

   What is proved is LOGICAL non-interference for every step function that respects the
   footprint discipline (a render writes only its own state; what it reads of the shared
   state nobody writes), for ALL numbers of renders and ALL schedules, plus the atomicity of
   the template lookup behind the engine's RWMutex.  That the Go code's memory accesses really
   have these footprints is not a theorem: it is observed by the Go race detector in the
   correspondence run (gen/c08.py, harness/c08.go). *)
From PV Require Import Base.Bytes Models.Sched Proofs.SchedProofs Models.SchedOwn Proofs.SchedOwnProofs.

(* any k, any schedule: render i ends exactly where it ends when it runs alone for as many
   steps as the schedule gave it *)
Theorem C08_interleave :
  forall (shared priv view : Type) (gstep : shared -> priv -> option (shared * priv))
         (vw : shared -> view),
  view_preserved gstep vw -> view_determines gstep vw ->
  forall (sched : list nat) (h : shared) (l : list priv) (i : nat) (p : priv),
  nth_error l i = Some p ->
  nth_error (rs (run gstep sched (mkSys h l))) i =
  Some (snd (alone gstep (count i sched) h p)).
Proof. exact interleave. Qed.
Print Assumptions C08_interleave.

(* the same for steps that only read the shared state (identity view) *)
Theorem C08_interleave_reads_only :
  forall (shared priv : Type) (gstep : shared -> priv -> option (shared * priv)),
  reads_only gstep ->
  forall (sched : list nat) (h : shared) (l : list priv) (i : nat) (p : priv),
  nth_error l i = Some p ->
  nth_error (rs (run gstep sched (mkSys h l))) i =
  Some (snd (alone gstep (count i sched) h p)).
Proof. exact interleave_ro. Qed.
Print Assumptions C08_interleave_reads_only.

(* without the footprint hypotheses the statement is false: the debug-mode engine *)
Theorem C08_interleave_without_footprint_refuted :
  exists (sched : list nat) (h : eng) (l : list rstate) (i : nat) (p : rstate),
    nth_error l i = Some p /\
    nth_error (rs (run (estep true) sched (mkSys h l))) i <>
    Some (snd (alone (estep true) (count i sched) h p)).
Proof. exact interleave_without_footprint_refuted. Qed.
Print Assumptions C08_interleave_without_footprint_refuted.

(* what renders can see of the shared state never changes *)
Theorem C08_shared_unchanged :
  forall (shared priv view : Type) (gstep : shared -> priv -> option (shared * priv))
         (vw : shared -> view),
  view_preserved gstep vw ->
  forall (sched : list nat) (s : sys shared priv),
  vw (sh (run gstep sched s)) = vw (sh s).
Proof. exact shared_view_unchanged. Qed.
Print Assumptions C08_shared_unchanged.

Theorem C08_shared_unchanged_reads_only :
  forall (shared priv : Type) (gstep : shared -> priv -> option (shared * priv)),
  reads_only gstep ->
  forall (sched : list nat) (s : sys shared priv), sh (run gstep sched s) = sh s.
Proof. exact shared_unchanged_ro. Qed.
Print Assumptions C08_shared_unchanged_reads_only.

(* steps of different renders commute *)
Theorem C08_step_commute :
  forall (shared priv view : Type) (gstep : shared -> priv -> option (shared * priv))
         (vw : shared -> view),
  view_preserved gstep vw -> view_determines gstep vw ->
  forall (i j : nat) (s : sys shared priv), i <> j ->
  sys_equiv vw (sys_step gstep i (sys_step gstep j s)) (sys_step gstep j (sys_step gstep i s)).
Proof. exact step_commute. Qed.
Print Assumptions C08_step_commute.

(* every interleaving equals the run ONE RENDER AT A TIME with the same step counts *)
Theorem C08_equals_sequential :
  forall (shared priv view : Type) (gstep : shared -> priv -> option (shared * priv))
         (vw : shared -> view),
  view_preserved gstep vw -> view_determines gstep vw ->
  forall (sched : list nat) (s : sys shared priv),
  rs (run gstep sched s) =
  rs (run gstep (seq_sched 0 (steps_taken sched (length (rs s)))) s).
Proof. exact equals_sequential. Qed.
Print Assumptions C08_equals_sequential.

(* if every Render has returned, each one is in the state in which it finishes alone ... *)
Theorem C08_complete_is_alone :
  forall (shared priv view : Type) (gstep : shared -> priv -> option (shared * priv))
         (vw : shared -> view),
  view_preserved gstep vw -> view_determines gstep vw ->
  forall (sched : list nat) (s : sys shared priv) (i : nat) (p : priv),
  complete gstep (run gstep sched s) = true ->
  nth_error (rs s) i = Some p ->
  exists n, nth_error (rs (run gstep sched s)) i = Some (snd (alone gstep n (sh s) p))
            /\ finished gstep (sh s) (snd (alone gstep n (sh s) p)) = true.
Proof. exact complete_is_alone. Qed.
Print Assumptions C08_complete_is_alone.

(* ... and any two complete runs (in particular a concurrent and a sequential one) end with
   the same list of render states, hence the same outputs *)
Theorem C08_complete_runs_equal_sequential :
  forall (shared priv view : Type) (gstep : shared -> priv -> option (shared * priv))
         (vw : shared -> view),
  view_preserved gstep vw -> view_determines gstep vw ->
  forall (sched1 sched2 : list nat) (s : sys shared priv),
  complete gstep (run gstep sched1 s) = true ->
  complete gstep (run gstep sched2 s) = true ->
  rs (run gstep sched1 s) = rs (run gstep sched2 s).
Proof. exact complete_agree. Qed.
Print Assumptions C08_complete_runs_equal_sequential.

(* the concrete engine in production mode satisfies the discipline ... *)
Theorem C08_production_reads_only : reads_only (estep false).
Proof. exact estep_production_reads_only. Qed.
Print Assumptions C08_production_reads_only.

Theorem C08_production_engine :
  forall (sched : list nat) (e : eng) (l : list rstate) (i : nat) (r : rstate),
  nth_error l i = Some r ->
  nth_error (rs (run (estep false) sched (mkSys e l))) i =
  Some (snd (alone (estep false) (count i sched) e r))
  /\ sh (run (estep false) sched (mkSys e l)) = e.
Proof. exact engine_production_interleave. Qed.
Print Assumptions C08_production_engine.

(* ... and in debug mode it does not (every Render reloads: the claim is about loaded
   templates in production mode) *)
Theorem C08_debug_mode_reads_only_refuted : ~ reads_only (estep true).
Proof. exact engine_debug_not_reads_only. Qed.
Print Assumptions C08_debug_mode_reads_only_refuted.

(* the gate: a lookup under RLock, concurrent with any number of loads under Lock that write
   the shared set in several steps, returns the entry of ONE committed set *)
Theorem C08_lookup_atomic :
  forall (T : Type) (init : gset T) (ts : list (thread T)) (sched : list nat)
         (i : nat) (t : thread T) (name : bytes) (v : option T),
  Forall thread_initial ts ->
  nth_error (gs_ts (grun true sched (ginit init ts))) i = Some t ->
  observed t = Some (name, v) ->
  exists c, In c (init :: finals ts) /\ v = lookup name c.
Proof. exact @gate_atomic. Qed.
Print Assumptions C08_lookup_atomic.

Theorem C08_gate_mutex :
  forall (T : Type) (init : gset T) (ts : list (thread T)) (sched : list nat)
         (j : nat) (inter : list (gset T)) (final : gset T) (after : option bytes)
         (todo : list (gset T)),
  Forall thread_initial ts ->
  let s := grun true sched (ginit init ts) in
  nth_error (gs_ts s) j = Some (TLoader inter final after (LHold todo)) ->
  (forall i name ph, nth_error (gs_ts s) i = Some (TReader name ph) ->
     ph = RIdle \/ exists v, ph = RDone v)
  /\ (forall k inter' final' after' todo',
        nth_error (gs_ts s) k = Some (TLoader inter' final' after' (LHold todo')) -> k = j).
Proof. exact @gate_mutex. Qed.
Print Assumptions C08_gate_mutex.

(* the mutex is what makes it so *)
Theorem C08_lookup_without_lock_refuted :
  exists sched i t name v,
    nth_error (gs_ts (grun false sched (ginit gx_old gx_threads))) i = Some t /\
    observed t = Some (name, v) /\
    ~ exists c, In c (gx_old :: finals gx_threads) /\ v = lookup name c.
Proof. exact gate_without_lock_refuted. Qed.
Print Assumptions C08_lookup_without_lock_refuted.

(* the model the judge runs: under ANY schedule that lets every render return, render g
   returns the sequential result of its job *)
Theorem C08_replay_model_is_sequential :
  forall (seq : list result) (calls sched : list nat) (g j : nat),
  let s := mkSys (mk_jobtab seq) (map new_replay calls) in
  complete pstep (run pstep sched s) = true ->
  nth_error calls g = Some j ->
  option_map presult (nth_error (rs (run pstep sched s)) g) = Some (Some (nth j seq (inr 0))).
Proof. exact replay_model_is_sequential. Qed.
Print Assumptions C08_replay_model_is_sequential.

(* "each with its own data": the context of a call is part of the call.  Template functions
   are bound to the context of the render that uses them, every time (findFunction); any
   number of renders, any contexts, any schedule: each render returns what ITS context
   determines (the spec [cspec] never mentions another render), the shared table is unchanged *)
Theorem C08_context_functions_reads_only : reads_only (cstep false).
Proof. exact cstep_reads_only. Qed.
Print Assumptions C08_context_functions_reads_only.

Theorem C08_context_functions_see_own_context :
  forall (sched : list nat) (h : cshared) (l : list cstate) (i : nat)
         (c a : Z) (code : list bytes),
  nth_error l i = Some (mkC c a (CRun code)) ->
  length code < count i sched ->
  option_map cresult (nth_error (rs (run (cstep false) sched (mkSys h l))) i) =
    Some (Some (cspec (cs_funcs h) c code a))
  /\ sh (run (cstep false) sched (mkSys h l)) = h.
Proof. exact ctx_engine_own_context. Qed.
Print Assumptions C08_context_functions_see_own_context.

(* ... and it is the per-use binding that makes it so: with the bound functions remembered
   in the shared template set (keyed by the context that used them last) the same statement
   is false, although every render run one at a time is right *)
Theorem C08_context_functions_shared_memo_refuted :
  exists (sched : list nat) (h : cshared) (l : list cstate) (i : nat)
         (c a : Z) (code : list bytes),
    nth_error l i = Some (mkC c a (CRun code)) /\
    length code < count i sched /\
    option_map cresult (nth_error (rs (run (cstep true) sched (mkSys h l))) i) <>
      Some (Some (cspec (cs_funcs h) c code a)).
Proof. exact ctx_memo_refuted. Qed.
Print Assumptions C08_context_functions_shared_memo_refuted.

(* "each with its own data", struct data and members that are not there: the members of a value
   are derived from the call's own value by pure helpers, on the spot (Map.convert, Map.Member
   with its name-folding fallbacks); nothing is kept per Go type, no helper keeps state.  Any
   number of renders, struct or map data, any schedule, whether or not a type has ever been
   rendered before: each render returns the members of ITS value ([mspec] mentions neither
   another render nor any history), the shared state is unchanged *)
Theorem C08_member_conversion_reads_only : reads_only (mstep MAsIs).
Proof. exact mstep_reads_only. Qed.
Print Assumptions C08_member_conversion_reads_only.

Theorem C08_members_are_of_own_data :
  forall (sched : list nat) (h : mshared) (l : list mstate) (i : nat)
         (d : mdata) (code : list bytes),
  nth_error l i = Some (new_mrender d code) ->
  S (length code) < count i sched ->
  option_map mresult (nth_error (rs (run (mstep MAsIs) sched (mkSys h l))) i) =
    Some (Some (mspec (ms_types h) d code))
  /\ sh (run (mstep MAsIs) sched (mkSys h l)) = h.
Proof. exact member_engine_own_data. Qed.
Print Assumptions C08_members_are_of_own_data.

(* ... and it is the absence of shared helpers' state that makes it so.  With the member names
   remembered per type in the shared state, the entry published before it is filled, the same
   statement is false for renders that meet a type for the first time together (although one
   render at a time is right, and everything is right for ever once a type has been converted
   alone: SchedProofs.member_cache_sequential_is_right) ... *)
Theorem C08_member_names_per_type_cache_refuted :
  exists (sched : list nat) (h : mshared) (l : list mstate) (i : nat)
         (d : mdata) (code : list bytes),
    nth_error l i = Some (new_mrender d code) /\
    S (length code) < count i sched /\
    option_map mresult (nth_error (rs (run (mstep MTypeCache) sched (mkSys h l))) i) <>
      Some (Some (mspec (ms_types h) d code)).
Proof. exact member_type_cache_refuted. Qed.
Print Assumptions C08_member_names_per_type_cache_refuted.

(* ... and with the title-casing of the slow path done by one shared stateful helper it is false
   for renders that read members which are not there at the same time *)
Theorem C08_member_shared_caser_refuted :
  exists (sched : list nat) (h : mshared) (l : list mstate) (i : nat)
         (d : mdata) (code : list bytes),
    nth_error l i = Some (new_mrender d code) /\
    S (length code) < count i sched /\
    option_map mresult (nth_error (rs (run (mstep MSharedCaser) sched (mkSys h l))) i) <>
      Some (Some (mspec (ms_types h) d code)).
Proof. exact member_shared_caser_refuted. Qed.
Print Assumptions C08_member_shared_caser_refuted.

(* page data that holds objects SHARED between renders and with the caller (results of
   pugjs.Convert put into the data of many Render calls; Models/SchedOwn.v): Render copies every
   object its data leads to before the template runs (convertData), so the conversion only reads
   the caller's objects and the template's writes go to copies that only this render holds *)
Theorem C08_shared_objects_detached_reads_only : reads_only (ostep ODetach).
Proof. exact ostep_reads_only. Qed.
Print Assumptions C08_shared_objects_detached_reads_only.

(* any number of renders whose data lead to whatever objects of the caller (the same ones or not),
   any schedule: each render prints what it prints alone on the values its data had at the call -
   it sees its own writes and nobody else's ([ospec] mentions neither another render nor any
   history) - and the caller's objects are afterwards what they were *)
Theorem C08_renders_see_only_their_own_writes :
  forall (sched : list nat) (h : oheap) (l : list ostate) (i : nat)
         (refs : list nat) (code : list oop),
  nth_error l i = Some (new_orender refs code) ->
  S (length refs + length code) < count i sched ->
  option_map oresult (nth_error (rs (run (ostep ODetach) sched (mkSys h l))) i) =
    Some (Some (ospec h refs code))
  /\ sh (run (ostep ODetach) sched (mkSys h l)) = h.
Proof. exact own_engine_own_writes. Qed.
Print Assumptions C08_renders_see_only_their_own_writes.

(* ... and it is the copy that makes it so: with the object handed on as it is (the detach flag
   lost on some route into the data) the statement is false - a render prints the pushes of the
   others, and the caller's objects change (already with one render at a time:
   SchedOwnProofs.own_alias_sequential_is_wrong) *)
Theorem C08_shared_objects_aliased_refuted :
  exists (sched : list nat) (h : oheap) (l : list ostate) (i : nat)
         (refs : list nat) (code : list oop),
    nth_error l i = Some (new_orender refs code) /\
    S (length refs + length code) < count i sched /\
    (option_map oresult (nth_error (rs (run (ostep OAlias) sched (mkSys h l))) i) <>
       Some (Some (ospec h refs code))
     \/ sh (run (ostep OAlias) sched (mkSys h l)) <> h).
Proof. exact own_alias_refuted. Qed.
Print Assumptions C08_shared_objects_aliased_refuted.

Theorem C08_shared_objects_aliased_changes_callers_objects_refuted :
  exists (sched : list nat) (h : oheap) (l : list ostate),
    sh (run (ostep OAlias) sched (mkSys h l)) <> h.
Proof. exact own_alias_changes_callers_objects. Qed.
Print Assumptions C08_shared_objects_aliased_changes_callers_objects_refuted.
