(* C05 — Attributes: values escaped, booleans/null handled, classes merged, order kept.
   Property theorems only; each is closed by [exact] of a lemma from Proofs/AttrsProofs.v.
   [render_attrs] is the model of __attrs applied to the concatenated records of __attr / __and_attrs;
   the theorems hold for ALL record lists (any length, repeated names, any byte strings as values). *)
From PV Require Import Base.Bytes Base.Escape Models.Attrs Proofs.AttrsProofs.

(* what is rendered is a concatenation of  name="v"  with v in EscText (no quote, apostrophe, angle bracket;
   & only as one of the five references), so the reader finds exactly these attributes and nothing else;
   rec_okb: proper names, unescaped text only as a quoted run of plain characters (pug's shorthand) *)
Theorem C05_grammar : forall rs,
  forallb rec_okb rs = true ->
  render_attrs rs = Some (fmt_items (rendered_items rs))
  /\ forallb item_ok (rendered_items rs) = true
  /\ parse_attrs (fmt_items (rendered_items rs)) = Some (decode (rendered_items rs)).
Proof. exact grammar. Qed.
Print Assumptions C05_grammar.

(* an escaped value is read back as the original value (any bytes except NUL, which Go replaces by U+FFFD) *)
Theorem C05_value_roundtrip : forall s,
  no_nul s = true -> esc_text (go_escape s) = true /\ unescape5 (go_escape s) = s.
Proof. exact value_roundtrip. Qed.
Print Assumptions C05_value_roundtrip.

(* the map/slice built by __attrs in closed form: names by first occurrence, each with its group of entries *)
Theorem C05_collect_closed : forall rs,
  collect rs = map (fun n => (n, grp n rs)) (nodup_first (map a_name rs)).
Proof. exact collect_closed. Qed.
Print Assumptions C05_collect_closed.

(* every name is rendered at most once, in the order of first occurrence *)
Theorem C05_once_in_order : forall rs,
  map fst (rendered_items rs) =
  filter (fun n => negb (is_nil (item_of n (grp n rs)))) (nodup_first (map a_name rs))
  /\ NoDup (map fst (rendered_items rs)).
Proof. exact once_in_order. Qed.
Print Assumptions C05_once_in_order.

Theorem C05_rendered_closed : forall rs,
  rendered_items rs = flat_map (fun n => item_of n (grp n rs)) (nodup_first (map a_name rs)).
Proof. exact rendered_closed. Qed.
Print Assumptions C05_rendered_closed.

(* a name other than class: the last record given for it decides;
   false / null / undefined -> omitted, true -> name="name", a value -> its escaped text *)
Theorem C05_bool_nil : forall n rs a,
  is_class n = false -> last_named n rs = Some a -> name_ok (a_name a) = true ->
  item_of n (grp n rs) =
  match a_bool a with
  | Some false => []
  | Some true => [(n, a_name a)]
  | None => if a_esc a then [(n, go_escape (a_val a))]
            else match piece (to_tmp a) with Some p => [(n, p)] | None => [] end
  end.
Proof. exact nonclass_item. Qed.
Print Assumptions C05_bool_nil.

(* class accumulates all its records in source order; only a verbatim repetition is dropped *)
Theorem C05_class_accumulates : forall rs,
  let cl := map to_tmp (filter (fun a => beqb (a_name a) (B "class")) rs) in
  grp (B "class") rs = dedup_tmp cl [] /\ (tmp_nodupb cl = true -> grp (B "class") rs = cl).
Proof. exact class_accumulates. Qed.
Print Assumptions C05_class_accumulates.

(* the reader inverts the serialisation of any well-formed item list *)
Theorem C05_reader : forall items,
  forallb item_ok items = true -> parse_attrs (fmt_items items) = Some (decode items).
Proof. exact parse_attrs_items. Qed.
Print Assumptions C05_reader.

(* ---------------------------------------------------------------- source level (all attribute source lists) *)
From Coq Require Import Permutation.
(* C05_spec: for every list of attribute sources in the domain the model renders without panic, and reading the
   rendered text back (the judge's reader) gives exactly the specification: names in first-occurrence order, each
   once; false/null/undefined omitted; true -> name="name"; strings and numbers -> their text (escaped so that the
   reader returns the original); all class sources merged in source order, false/null/empty entries dropped, joined
   by one space, omitted when empty; spread objects in the object's own / sorted order *)
Theorem C05_spec : forall srcs,
  dom_C05 srcs = true ->
  exists text, model_attrs srcs = Some (Some text) /\ read_attrs text = Some (attr_spec srcs).
Proof. exact spec_holds_dom. Qed.
Print Assumptions C05_spec.

(* the same with the two parts of the domain visible: every source well-formed, and no class entry repeating an
   earlier one verbatim (such an entry is dropped by __attrs) *)
Theorem C05_spec_partial : forall srcs,
  forallb src_ok srcs = true -> tmp_nodupb (class_recs (lower srcs)) = true ->
  exists text, model_attrs srcs = Some (Some text) /\ read_attrs text = Some (attr_spec srcs).
Proof. exact spec_partial. Qed.
Print Assumptions C05_spec_partial.

(* F-C05-d: without the restriction of unescaped attributes (name!=value) to string literals the statement is false *)
Theorem C05_spec_refuted : exists srcs,
  forallb src_ok_d srcs = true /\ tmp_nodupb (class_recs (lower srcs)) = true /\
  ~ (exists text, model_attrs srcs = Some (Some text) /\ read_attrs text = Some (attr_spec srcs)).
Proof. exact spec_refuted_unescaped. Qed.
Print Assumptions C05_spec_refuted.

(* without the second hypothesis it is false as well: .a.a renders class="a" *)
Theorem C05_spec_dup_class_refuted : exists srcs,
  forallb src_ok srcs = true /\ tmp_nodupb (class_recs (lower srcs)) = false /\
  ~ (exists text, model_attrs srcs = Some (Some text) /\ read_attrs text = Some (attr_spec srcs)).
Proof. exact spec_refuted_dup_class. Qed.
Print Assumptions C05_spec_dup_class_refuted.

(* C05_class_merge: the class text __attrs builds, in closed form: the pieces of the entries (a false entry and an
   empty text count as the empty piece) joined by one space with empty pieces dropped ... *)
Theorem C05_class_merge : forall vals ps tmp,
  map cls_piece vals = map Some ps ->
  attr_value true vals tmp = AText (cat_sp tmp (joinne ps)).
Proof. exact class_merge. Qed.
Print Assumptions C05_class_merge.

(* ... and, for the sources of a tag in the domain, the escaped class text of all values given for class *)
Theorem C05_class_closed : forall srcs,
  dom_C05 srcs = true ->
  item_of (B "class") (grp (B "class") (lower srcs)) =
  match class_text (named (B "class") (flat_map contribs srcs)) with
  | [] => []
  | t => [(B "class", escape t)]
  end.
Proof. exact class_closed. Qed.
Print Assumptions C05_class_closed.

(* C05_spread_order: what a tag renders does not depend on the iteration order of the Go map behind
   &attributes(data) (the map is given as its entries in any order, without explicit key order) *)
Theorem C05_spread_order : forall pre post items items',
  Permutation items items' -> NoDup (keys items) ->
  render_attrs (pre ++ and_attrs (data_map items) ++ post) =
  render_attrs (pre ++ and_attrs (data_map items') ++ post).
Proof. exact spread_order. Qed.
Print Assumptions C05_spread_order.

Theorem C05_spread_order_src : forall pre post es es',
  Permutation es es' -> NoDup (map fst es) ->
  model_attrs (pre ++ SrcSpread false es :: post) = model_attrs (pre ++ SrcSpread false es' :: post)
  /\ attr_spec (pre ++ SrcSpread false es :: post) = attr_spec (pre ++ SrcSpread false es' :: post).
Proof. exact spread_order_src. Qed.
Print Assumptions C05_spread_order_src.

(* with Keys() ranging over the Go map (before the repair F-C05-c) the statement is false *)
Theorem C05_spread_order_unrepaired_refuted : exists items items',
  Permutation items items' /\ NoDup (keys items) /\
  render_attrs (and_attrs_iter (data_map items)) <> render_attrs (and_attrs_iter (data_map items')).
Proof. exact spread_order_unrepaired_refuted. Qed.
Print Assumptions C05_spread_order_unrepaired_refuted.
