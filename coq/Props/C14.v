(* C14 — stripTags emits only allow-listed tags/attributes; all else becomes inert text.
   Property theorems only; each is closed by [exact] of a lemma from Proofs/.
   Every statement holds for every node forest whatsoever (so for whatever tree
   the HTML5 parser returns for any byte string). *)
From PV Require Import Base.Bytes Gen.Tables Models.Strip Proofs.StripProofs.

(* the result is a concatenation of escaped text, start tags of allow-listed
   elements carrying only attributes allow-listed for that element (values
   escaped), and end tags of allow-listed elements *)
Theorem C14_safe : forall (allow : allowlist) (forest : list hnode),
  allow_ok allow = true -> SafeDoc allow (strip allow forest).
Proof. exact strip_safe. Qed.
Print Assumptions C14_safe.

(* every "<" of the result opens a start or end tag of an allow-listed element *)
Theorem C14_only_allowed_tags : forall (allow : allowlist) (forest : list hnode),
  allow_ok allow = true ->
  forall pre post, strip allow forest = pre ++ "<"%char :: post ->
  exists n aa post', allowed_b allow n = Some aa /\ elem_name_ok n = true /\
    (post = n ++ " "%char :: post' \/ post = n ++ ">"%char :: post' \/
     post = "/"%char :: n ++ ">"%char :: post').
Proof. exact strip_only_allowed_tags. Qed.
Print Assumptions C14_only_allowed_tags.

(* with an empty allow-list the result contains no "<" at all *)
Theorem C14_empty_no_lt : forall (allow : allowlist) (forest : list hnode),
  allow = [] -> ~ In "<"%char (strip allow forest).
Proof. exact strip_empty_no_lt. Qed.
Print Assumptions C14_empty_no_lt.

(* comments, doctypes and other non-element, non-text nodes contribute nothing:
   the result is that of the forest with all of them removed ... *)
Theorem C14_no_comment_decl : forall (allow : allowlist) (forest : list hnode),
  strip allow forest = strip allow (flat_map prune forest) /\
  forallb has_no_decl (flat_map prune forest) = true.
Proof. exact strip_no_comment_decl. Qed.
Print Assumptions C14_no_comment_decl.

(* ... and no "<" of the result is followed by anything but a letter, or "/" and a
   letter: no comment, declaration, CDATA section or processing instruction opens *)
Theorem C14_no_markup_declaration : forall (allow : allowlist) (forest : list hnode),
  allow_ok allow = true ->
  forall pre c post, strip allow forest = pre ++ "<"%char :: c :: post ->
  is_letter c = true \/
  (c = "/"%char /\ exists c' post', post = c' :: post' /\ is_letter c' = true).
Proof. exact strip_no_markup_declaration. Qed.
Print Assumptions C14_no_markup_declaration.

(* the text between the tags, unescaped, is the forest's character data in
   document order: markup that arrived entity-encoded is text and stays text *)
Theorem C14_text_escaped : forall (allow : allowlist) (forest : list hnode),
  allow_ok allow = true ->
  drop_tags false (strip allow forest) = esc6 (flat_map text_of forest) /\
  unesc6 (drop_tags false (strip allow forest)) = flat_map text_of forest.
Proof. exact strip_text_escaped. Qed.
Print Assumptions C14_text_escaped.

(* escaping leaves none of < > double-quote apostrophe CR, every & starts one of
   the six references, and unescaping gives the original bytes back *)
Theorem C14_escape_inert : forall s : bytes,
  EscText (esc6 s) /\
  (forall c, In c (esc6 s) ->
     c <> "<"%char /\ c <> ">"%char /\ c <> """"%char /\ c <> "'"%char /\ c <> "013"%char) /\
  unesc6 (esc6 s) = s.
Proof. exact esc6_escape_inert. Qed.
Print Assumptions C14_escape_inert.

(* the judge's executable oracle is sound for the specification, and its fuel is enough *)
Theorem C14_checker_sound : forall (allow : allowlist) (s : bytes),
  safe_doc_b allow s = true -> SafeDoc allow s.
Proof. exact safe_doc_b_sound. Qed.
Print Assumptions C14_checker_sound.

Theorem C14_checker_fuel : forall (allow : allowlist) (s : bytes),
  doc_chk (S (length s)) allow s <> POut.
Proof. exact safe_doc_b_fuel. Qed.
Print Assumptions C14_checker_fuel.

(* what the judge computes on forests thousands of levels deep (no copying per
   level) is the model's function *)
Theorem C14_fast_model : forall (slices : list (list (option bytes))) (forest : list hnode),
  striptags_fast slices forest = striptags slices forest.
Proof. exact striptags_fast_spec. Qed.
Print Assumptions C14_fast_model.

(* the flat, document-order encoding in which the harness hands a parse tree of
   any depth to the judge loses nothing *)
Theorem C14_flat_roundtrip : forall forest : list hnode,
  build_forest (flatten_forest forest) = forest.
Proof. exact build_flatten. Qed.
Print Assumptions C14_flat_roundtrip.
