(* C11 — Go data is reachable from templates by lower-camel paths; absent data prints nothing.
   Property theorems only; each is closed by [exact] of a lemma from Proofs/ConvertProofs.v.

   [run d p raw]    what Engine.Render prints for `= p` (raw = false) or `!= p` (raw = true) with page data d
   [go_path d p]    the leaf the same path reaches in plain Go (None = nothing)
   [Idx c i]        a bracket index that denotes the integer i - any integer, negative ones included; c = it is
                    computed at run time (`xs[d.pos]`, `xs[xs.length - 1]`) rather than written as a literal
   [dom_C11]        names_ok && shape_ok && fold_free && negb top_method && negb raw_undefined *)
From PV Require Import Base.Bytes Base.Escape Models.Convert Proofs.ConvertProofs.
From Coq Require Import Permutation.

(* every in-domain path, into every finite data tree, prints the Go leaf (escaped unless `!=`) and is no error *)
Theorem C11_path : forall (d : gv) (p : list step) (raw : bool),
  dom_C11 d p raw = true ->
  run d p raw = ROk (render raw (leaf_text (go_path d p))).
Proof. exact path_sound. Qed.
Print Assumptions C11_path.

(* the same with the forced hypotheses spelled out: the last three exclude exactly the listed findings
   F-C11-a (fold_free), F-C11-b (top_method), F-C11-c (raw_undefined) *)
Theorem C11_path_partial : forall (d : gv) (p : list step) (raw : bool),
  names_ok d p = true -> shape_ok d p = true -> fold_free d p = true ->
  top_method d p = false -> raw_undefined d p raw = false ->
  run d p raw = ROk (render raw (leaf_text (go_path d p))).
Proof. exact path_partial. Qed.
Print Assumptions C11_path_partial.

(* a zero-argument method of the value's method set is called by its lower-camel name (any value below the
   first name; paths through methods are covered by C11_path) *)
Theorem C11_methods : forall (g : gv) (n sg : bytes) (r : gv),
  opaque_free g = true -> beqb n (B "__assign") = false ->
  go_member g n = Some (MMeth sg r) ->
  eval_step (Some (convert g)) (Field n) = ROk (Some (convert r)) /\ go_step g (Field n) = Some r.
Proof. exact methods_callable. Qed.
Print Assumptions C11_methods.

(* the first name goes through the `$name` globals of execute: a field or key is found under its lower-camel
   name, an absent name that folds onto none is undefined *)
Theorem C11_toplevel : forall (d : gv) (n : bytes),
  node_ok d = true -> beqb n (B "global") = false ->
  (forall v, go_member d n = Some (MField v) -> var_value (globals (convert d)) n = Some (convert v)) /\
  (go_member d n = None -> top_fold_hit d n = false -> var_value (globals (convert d)) n = None).
Proof. exact toplevel_lookup. Qed.
Print Assumptions C11_toplevel.

(* a path that reaches nothing prints nothing and is no error *)
Theorem C11_absent_silent : forall (d : gv) (p : list step) (raw : bool),
  dom_C11 d p raw = true -> go_path d p = None -> run d p raw = ROk [].
Proof. exact absent_silent. Qed.
Print Assumptions C11_absent_silent.

(* nil pointer / nil interface, missing key, index out of range on either side (below 0, at or above the length;
   literal or computed; on a list, a nil list, a string), unexported or unknown name: one step each yields Nil - and
   reaches nothing in Go -, and whatever follows Nil prints nothing *)
Theorem C11_absent_steps :
  (forall s named, eval_step (Some (convert GPtrNil)) s = ROk (Some VNil) /\
                   eval_step (Some (convert (GIfaceNil named))) s = ROk (Some VNil) /\
                   eval_step (Some (convert (GIface named GPtrNil))) s = ROk (Some VNil)) /\
  (forall l k, find_last k l = None -> eval_step (Some (convert (GMap l))) (Key k) = ROk (Some VNil)) /\
  (forall l c i, (i < 0 \/ Z.of_nat (length l) <= i)%Z ->
                 eval_step (Some (convert (GSlice l))) (Idx c i) = ROk (Some VNil) /\ go_step (GSlice l) (Idx c i) = None) /\
  (forall c i, eval_step (Some (convert GSliceNil)) (Idx c i) = ROk (Some VNil) /\ go_step GSliceNil (Idx c i) = None) /\
  (forall s c i, (i < 0 \/ Z.of_nat (length s) <= i)%Z ->
                 eval_step (Some (convert (GStr s))) (Idx c i) = ROk (Some VNil) /\ go_step (GStr s) (Idx c i) = None) /\
  (forall g n, opaque_free g = true -> tabular (strip g) = true -> beqb n (B "__assign") = false ->
               go_member g n = None -> fold_hit g n = false ->
               eval_step (Some (convert g)) (Field n) = ROk (Some VNil)) /\
  (forall fs vm pm N v n, go_member (GStruct (fs ++ [(N, false, v)]) vm pm) n = go_member (GStruct fs vm pm) n) /\
  (forall p raw q, bind (eval_steps (Some VNil) p) (print_val raw q) = ROk []).
Proof. exact absent_steps. Qed.
Print Assumptions C11_absent_steps.

(* a bracket index on a list - held directly or behind pointers and interfaces, i.e. wherever it sits in the data -
   for EVERY integer and both ways of writing it: the element exactly when 0 <= i < length, Nil otherwise, and that
   is what the index reaches in Go; on a nil list every integer is out of range (paths through such an index are
   covered by C11_path) *)
Theorem C11_index_any_integer : forall (g : gv) (l : list gv) (c : bool) (i : Z),
  opaque_free g = true -> strip g = GSlice l ->
  eval_step (Some (convert g)) (Idx c i) = ROk (Some (match nth_z l i with Some x => convert x | None => VNil end)) /\
  go_step g (Idx c i) = nth_z l i /\
  ((i < 0 \/ Z.of_nat (length l) <= i)%Z -> nth_z l i = None) /\
  ((0 <= i < Z.of_nat (length l))%Z -> nth_z l i = nth_error l (Z.to_nat i) /\ nth_z l i <> None).
Proof. exact index_any_integer. Qed.
Print Assumptions C11_index_any_integer.

Theorem C11_index_nil_list : forall (g : gv) (c : bool) (i : Z),
  opaque_free g = true -> strip g = GSliceNil ->
  eval_step (Some (convert g)) (Idx c i) = ROk (Some VNil) /\ go_step g (Idx c i) = None.
Proof. exact index_nil_list. Qed.
Print Assumptions C11_index_nil_list.

(* members that collide after the lower-camel mapping (an exported field Title next to an unexported field title, an
   unexported field holder next to a method Holder(), an embedded type Inner next to a field inner). Unexported fields
   are invisible wherever they are declared: deleting them all changes neither the member table M builds - for the
   struct by value and behind a pointer - nor what S can select (so, by C11_path, no path sees them) ... *)
Theorem C11_unexported_invisible : forall (fs : list (bytes * bool * gv)) (vm pm : list (bytes * bytes * gv)),
  convert (GStruct fs vm pm) = convert (GStruct (exported_fields fs) vm pm) /\
  convert (GPtr (GStruct fs vm pm)) = convert (GPtr (GStruct (exported_fields fs) vm pm)) /\
  members (GStruct fs vm pm) = members (GStruct (exported_fields fs) vm pm) /\
  members (GPtr (GStruct fs vm pm)) = members (GPtr (GStruct (exported_fields fs) vm pm)).
Proof. exact unexported_invisible. Qed.
Print Assumptions C11_unexported_invisible.

(* ... and the order in which the fields of a struct are declared is immaterial: for EVERY permutation of the field
   list (the exported names being distinct under the mapping, as Go's are; the unexported ones are unrestricted) every
   name selects the same member in S and evaluates to the same value in M, by value and behind a pointer *)
Theorem C11_declaration_order :
  forall (fs fs' : list (bytes * bool * gv)) (vm pm : list (bytes * bytes * gv)),
  Permutation fs fs' -> NoDup (keys (field_members fs)) ->
  forall n : bytes,
    go_member (GStruct fs vm pm) n = go_member (GStruct fs' vm pm) n /\
    go_member (GPtr (GStruct fs vm pm)) n = go_member (GPtr (GStruct fs' vm pm)) n /\
    eval_step (Some (convert (GStruct fs vm pm))) (Field n) =
    eval_step (Some (convert (GStruct fs' vm pm))) (Field n) /\
    eval_step (Some (convert (GPtr (GStruct fs vm pm)))) (Field n) =
    eval_step (Some (convert (GPtr (GStruct fs' vm pm)))) (Field n).
Proof. exact declaration_order. Qed.
Print Assumptions C11_declaration_order.

(* what Map.convert's guard (`if val.Field(i).CanInterface()`) is for: a field loop that stored every field - an
   unreadable one as Nil - would let an unexported field hide the exported field of the same lower-camel name when it
   is declared after it, and only then *)
Theorem C11_unguarded_table_refuted :
  exists (fs fs' : list (bytes * bool * gv)) (n : bytes) (v : gv),
    Permutation fs fs' /\ NoDup (keys (field_members fs)) /\
    go_member (GStruct fs [] []) n = Some (MField v) /\ convert v <> VNil /\
    lookup n (table_unguarded fs) = Some VNil /\ lookup n (table_unguarded fs') = Some (convert v).
Proof. exact unguarded_refuted. Qed.
Print Assumptions C11_unguarded_table_refuted.

(* histories: any number of renders one after the other in one process. Every in-domain render of a history prints
   what the property demands of its own value ... *)
Theorem C11_history : forall (h : list render_req),
  dom_history h = true -> run_history h = spec_history h.
Proof. exact history_sound. Qed.
Print Assumptions C11_history.

(* ... and, in or out of the domain, exactly what the same render gives alone: nothing that was rendered before
   (or is rendered after) it has any influence. True of M by construction (M keeps nothing between renders); that it
   is true of the Go code is what the histories of the correspondence run explore. *)
Theorem C11_history_independent : forall (h1 h2 : list render_req) (d : gv) (p : list step) (raw : bool),
  nth_error (run_history (h1 ++ (d, p, raw) :: h2)) (length h1) = Some (run d p raw).
Proof. exact history_independent. Qed.
Print Assumptions C11_history_independent.

(* the full statement without fold_free is false of the faithful model: F-C11-a, nested and at the top level *)
Theorem C11_fold_refuted :
  exists d p raw,
    names_ok d p = true /\ shape_ok d p = true /\ top_method d p = false /\ raw_undefined d p raw = false /\
    fold_free d p = false /\ go_path d p = None /\ run d p raw = ROk (B "x") /\ ~ stated d p raw.
Proof. exact fold_refuted. Qed.
Print Assumptions C11_fold_refuted.

Theorem C11_fold_toplevel_refuted :
  exists d p raw,
    names_ok d p = true /\ shape_ok d p = true /\ top_method d p = false /\ raw_undefined d p raw = false /\
    fold_free d p = false /\ go_path d p = None /\ run d p raw = ROk (B "x") /\ ~ stated d p raw.
Proof. exact fold_top_refuted. Qed.
Print Assumptions C11_fold_toplevel_refuted.

(* ... without negb top_method: F-C11-b *)
Theorem C11_toplevel_method_refuted :
  exists d p raw,
    names_ok d p = true /\ shape_ok d p = true /\ fold_free d p = true /\ raw_undefined d p raw = false /\
    top_method d p = true /\ go_path d p = Some (LStr (B "L:n")) /\
    run d p raw = ROk (B "<func() string Value>") /\ ~ stated d p raw.
Proof. exact toplevel_method_refuted. Qed.
Print Assumptions C11_toplevel_method_refuted.

(* ... without negb raw_undefined: F-C11-c *)
Theorem C11_raw_undefined_refuted :
  exists d p raw,
    names_ok d p = true /\ shape_ok d p = true /\ fold_free d p = true /\ top_method d p = false /\
    raw_undefined d p raw = true /\ go_path d p = None /\
    run d p raw = ROk (B "ERR{{$missing}} <invalid reflect.Value>") /\ ~ stated d p raw.
Proof. exact raw_undefined_refuted. Qed.
Print Assumptions C11_raw_undefined_refuted.
