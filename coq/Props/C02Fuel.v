(* C02 (fuel) — the executor model has enough fuel on the proved control fragment, up to an explicit static measure.
   Property theorems only; proofs in Proofs/ExecFuelProofs.v (the general statement), Proofs/ExecFuelPure.v (pipelines
   that cannot change the heap), Proofs/ExecFuelLower.v (the lowered trees are such), Proofs/ExecFuelInst.v (whole
   renders), Proofs/ExecFuelExamples.v (witnesses).

   What consumes the statement fuel of Tmpl/Exec.v: one unit per position in a node list, one per nesting level
   (if / range), one per iteration of a range action (each element, each while round; the while cap is 10000 rounds);
   the expression evaluator has its own constant fuel (expr_fuel) that does not depend on it.
   [cost_nodes L t]: the static measure — 1 for [], 1 + max (head, tail) for a list, 1 + max (then, else) for an if,
   1 + max (else, L + body) for a range action, L = the iterations one range action can make:
   [rounds w] = max (while_cap + 1) w, w = the widest collection of the data.
   [run_program] runs with exec_fuel = 22500: two nested loops and some 2490 levels of position + nesting fit, three
   nested loops that all run to thousands of rounds do not (C02_exact_without_bound_refuted: a defect of the model's
   fuel, the Go engine has none). *)
From PV Require Import Base.Bytes Js.Ast Tmpl.Value Tmpl.IR Tmpl.Runtime Tmpl.Exec Pug.Ast Pug.Lower Spec.Sem
  Proofs.ExecMono Proofs.C01EvalProofs Proofs.C02InstProofs Run.Judge_Core
  Proofs.ExecFuelProofs Proofs.ExecFuelPure Proofs.ExecFuelExpr Proofs.ExecFuelInst Proofs.ExecFuelTotal
  Proofs.ExecFuelLower Proofs.ExecFuelExamples
  Base.Escape Proofs.C04MarkerProofs Proofs.ExecFuelMarker.

(* the general statement, for any tree (text, action, if, range, template actions without definitions): an
   execution that ends with SOME fuel g ends with the same result with EVERY fuel f of at least the measure — whatever
   the pipelines compute.  The one semantic hypothesis is the bound on what is iterated: a heap invariant HJ that the
   pipelines of the tree keep and that bounds the size of every heap object by L. *)
Theorem C02_fuel_measure_is_enough :
  forall (L : nat) (HJ : heap -> Prop) (okp : tpipe -> bool),
  S while_cap <= L ->
  (forall p E h v h', okp p = true -> HJ h -> eval_pipeline E h p = Ok (v, h') -> HJ h') ->
  (forall h l o, HJ h -> hget h l = Some o -> osize o <= L) ->
  forall g f dot s ns,
  nodes_ok okp ns = true -> HJ (x_heap s) -> cost_nodes L ns <= f ->
  fin (exec_nodes [] g dot s ns) -> exec_nodes [] f dot s ns = exec_nodes [] g dot s ns.
Proof. exact fuel_enough. Qed.
Print Assumptions C02_fuel_measure_is_enough.

(* pipelines without field access, method calls and the four allocating builtins leave the heap as it is ... *)
Theorem C02_pure_pipeline_keeps_heap : forall E h p v h',
  pure_pipe p = true -> eval_pipeline E h p = Ok (v, h') -> h' = h.
Proof. exact pure_pipeline_heap. Qed.
Print Assumptions C02_pure_pipeline_keeps_heap.

(* ... so on trees built from them the iterations are bounded by the largest object of the heap at the start *)
Theorem C02_pure_tree_fuel : forall g f dot s ns,
  pure_nodes ns = true -> cost_nodes (rounds (hsize (x_heap s))) ns <= f ->
  fin (exec_nodes [] g dot s ns) -> exec_nodes [] f dot s ns = exec_nodes [] g dot s ns.
Proof. exact pure_fuel_enough. Qed.
Print Assumptions C02_pure_tree_fuel.

(* the trees of the proved fragment are of that kind *)
Theorem C02_lowered_trees_pure : forall funcs names nodes t,
  lower_nodes funcs (goodS funcs names) nodes = Some t -> pure_nodes t = true.
Proof. exact lower_nodes_pure. Qed.
Print Assumptions C02_lowered_trees_pure.

(* whole renders, any data: with the measure within exec_fuel, [run_program] answers "out of fuel" only when NO fuel
   at all lets the execution end (the fuel of run_program is as good as unbounded fuel) *)
Theorem C02_out_of_fuel_means_never_ends : forall t d s,
  init_state d = Some s -> fuel_ok d t = true ->
  run_program {| p_main := t; p_defs := [] |} d = OFuel ->
  forall g, exec_nodes [] g VInvalid s t = OutOfFuel.
Proof. exact run_fuel_means_never. Qed.
Print Assumptions C02_out_of_fuel_means_never_ends.

(* C02_program_scalar / C02_program_each without the "or out of fuel" disjunct.
   [fuel_ok d t] = pure_nodes t && (cost_nodes (rounds (dwidth d)) t <=? exec_fuel); the first conjunct holds for every
   lowered tree (C02_lowered_trees_pure), so the hypothesis is the bound on the measure.  Where S itself has no
   result (off its domain, a deviation flag, out of ITS fuel) nothing is claimed, as before. *)
Theorem C02_program_scalar_exact : forall funcs names nodes t d,
  lower_nodes funcs (goodS funcs names) nodes = Some t -> data_ok names d = true ->
  Nat.leb (cost_nodes (rounds (dwidth d)) t) exec_fuel = true ->
  match sem_run nodes (sd_top d) with
  | SOut o [] => run_program {| p_main := t; p_defs := [] |} d = OOk o
  | SError [] => run_program {| p_main := t; p_defs := [] |} d = OPanic
  | _ => True
  end.
Proof. exact program_scalar_exact_cost. Qed.
Print Assumptions C02_program_scalar_exact.

Theorem C02_program_each_exact : forall funcs names nodes t d,
  lower_nodes funcs (goodS funcs names) nodes = Some t -> data_ok_arr names d = true ->
  Nat.leb (cost_nodes (rounds (dwidth d)) t) exec_fuel = true ->
  match sem_run nodes (sd_top d) with
  | SOut o [] => run_program {| p_main := t; p_defs := [] |} d = OOk o
  | SError [] => run_program {| p_main := t; p_defs := [] |} d = OPanic
  | _ => True
  end.
Proof. exact program_each_exact_cost. Qed.
Print Assumptions C02_program_each_exact.

(* ---- never out of fuel, with no reference to S and for ANY data ------------------------------------------------------
   The expression side: a pipeline of the core expression language (literals, variables, `.`, parenthesised pipelines,
   calls of the core helpers) ends — a value, the execution error or "not modelled", never "out of fuel" — when the
   expression fuel covers its syntactic measure [csneed], in every environment and heap. *)
Theorem C02_core_pipeline_ends : forall E h p,
  pipe_fuel_ok p = true -> fin (eval_pipeline E h p).
Proof. exact core_pipeline_fin. Qed.
Print Assumptions C02_core_pipeline_ends.

(* the statement side, for any tree: when its pipelines end and keep the heap invariant that bounds what is iterated,
   the execution with fuel of at least the measure is never out of fuel *)
Theorem C02_exec_ends_within_measure :
  forall (L : nat) (HJ : heap -> Prop) (okp : tpipe -> bool),
  S while_cap <= L ->
  (forall p E h v h', okp p = true -> HJ h -> eval_pipeline E h p = Ok (v, h') -> HJ h') ->
  (forall h l o, HJ h -> hget h l = Some o -> osize o <= L) ->
  (forall p E h, okp p = true -> fin (eval_pipeline E h p)) ->
  forall f dot s ns,
  nodes_ok okp ns = true -> HJ (x_heap s) -> cost_nodes L ns <= f -> fin (exec_nodes [] f dot s ns).
Proof. exact exec_never_out_of_fuel. Qed.
Print Assumptions C02_exec_ends_within_measure.

(* the lowered trees are trees of core pipelines within the expression fuel ([goodS] bounds the expression depth:
   need e < expr_fuel, and the lowered argument needs no more than need e) *)
Theorem C02_lowered_trees_core : forall funcs names nodes t,
  lower_nodes funcs (goodS funcs names) nodes = Some t -> core_nodes t = true.
Proof. exact lower_nodes_core. Qed.
Print Assumptions C02_lowered_trees_core.

(* THE FUEL-SUFFICIENCY THEOREM of the fragment: a lowered program whose measure is within exec_fuel is never out of
   fuel — for every data value, whether or not S defines the render *)
Theorem C02_fragment_never_out_of_fuel : forall funcs names nodes t d,
  lower_nodes funcs (goodS funcs names) nodes = Some t ->
  Nat.leb (cost_nodes (rounds (dwidth d)) t) exec_fuel = true ->
  run_program {| p_main := t; p_defs := [] |} d <> OFuel.
Proof. exact fragment_never_out_of_fuel. Qed.
Print Assumptions C02_fragment_never_out_of_fuel.

(* C04_fragment_marker (Props/C04.v) without the disjunct: whatever the bytes of h, the model's rendering is the one
   list of segments with escape h in the holes — one bound on the measure serves every h (substituting the string
   changes neither the tree nor the number of data entries) *)
Theorem C04_fragment_marker_exact : forall (funcs names T : list bytes) (nodes : list pnode) (t : list tnode)
    (l : list (bytes * dval)),
  lower_nodes funcs (goodS funcs names) nodes = Some t -> safe_list T nodes = true ->
  data_ok names (DMap l) = true ->
  Nat.leb (cost_nodes (rounds (length l)) t) exec_fuel = true ->
  exists r : sym_final, forall h : bytes,
    sem_run nodes (sd_top (DMap (dset T h l))) = finst h r /\
    match r with
    | FOut cs [] => run_program {| p_main := t; p_defs := [] |} (DMap (dset T h l)) = OOk (fill_holes (escape h) cs)
    | FErr [] => run_program {| p_main := t; p_defs := [] |} (DMap (dset T h l)) = OPanic
    | _ => True
    end.
Proof. exact marker_exact. Qed.
Print Assumptions C04_fragment_marker_exact.

(* a bound one can read off the program: the measure is at most the number of nodes of the tree plus L for every
   level of range nesting *)
Theorem C02_measure_by_size_and_loop_depth : forall L ns,
  cost_nodes L ns <= tsize_nodes ns + L * rdepth_nodes ns.
Proof. exact cost_le_size. Qed.
Print Assumptions C02_measure_by_size_and_loop_depth.

(* the bound is needed: a program of the fragment (three nested while loops) that S renders and on which the model
   is out of fuel *)
Theorem C02_exact_without_bound_refuted :
  exists funcs names nodes t d o,
    lower_nodes funcs (goodS funcs names) nodes = Some t /\ data_ok names d = true /\ pure_nodes t = true /\
    sem_run nodes (sd_top d) = SOut o [] /\
    run_program {| p_main := t; p_defs := [] |} d = OFuel.
Proof. exact exact_without_bound_refuted. Qed.
Print Assumptions C02_exact_without_bound_refuted.

(* non-vacuity, at the bound: two nested counting loops (10000 rounds each) around an if-nest 1240 deep — measure
   exec_fuel - 6: the theorem gives the rendering; 1245 deep — measure exec_fuel + 4: S renders, the model is out of
   fuel.  The bound is tight to a handful of units. *)
Theorem C02_fuel_near_bound :
  lower_nodes ex_funcs (goodS ex_funcs w_names) (w2 1240) = Some (w2_tree 1240) /\
  data_ok w_names w_data = true /\
  fuel_ok w_data (w2_tree 1240) = true /\
  cost_nodes (rounds (dwidth w_data)) (w2_tree 1240) + 6 = exec_fuel /\
  sem_run (w2 1240) (sd_top w_data) = SOut (B "x") [] /\
  run_program {| p_main := w2_tree 1240; p_defs := [] |} w_data = OOk (B "x").
Proof. exact near_bound. Qed.
Print Assumptions C02_fuel_near_bound.

Theorem C02_fuel_over_bound :
  lower_nodes ex_funcs (goodS ex_funcs w_names) (w2 1245) = Some (w2_tree 1245) /\
  data_ok w_names w_data = true /\
  pure_nodes (w2_tree 1245) = true /\
  cost_nodes (rounds (dwidth w_data)) (w2_tree 1245) = exec_fuel + 4 /\
  sem_run (w2 1245) (sd_top w_data) = SOut (B "x") [] /\
  run_program {| p_main := w2_tree 1245; p_defs := [] |} w_data = OFuel.
Proof. exact over_bound_out_of_fuel. Qed.
Print Assumptions C02_fuel_over_bound.
