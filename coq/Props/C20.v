(* C20 — Array/string methods match their JavaScript namesakes over any call sequence.
   Property theorems only; each is closed by [exact] of a lemma from Proofs/ArrayOpsProofs.v.
   M = m_run (pugjs/types.go + the call path of tpl_exec.go, after the repairs F-C20-a,b,d,e,f),
   S = js_run (JavaScript on plain lists in a JS heap).  js_run answers None outside the range
   the property speaks about and reports, as flags, the calls on which the code is listed as
   deviating (F-C20-c value of push/sort, F-C20-g null in sort / null needle, unstable long sort).
   Programs are flat: SCall / SAlias / SPrintVar and SPass (a value handed over to a mixin parameter,
   loop variable, holder member, or back from the holder); C20_refine_partial covers them all. *)
From Coq Require Import ZArith List.
From PV Require Import Base.Bytes Models.ArrayOps Proofs.ArrayOpsProofs.
Import ListNotations.

(* for ALL related initial states (any variables, any heaps, any aliasing) and ALL finite
   programs of method calls in range: the code writes what JavaScript writes and ends in a
   related state.  Forced hypothesis: no listed deviation occurs in the history (flags = []). *)
Theorem C20_refine_partial : forall (p : prog) (m : mstate) (j j' : jstate) (outs : list bytes),
  st_rel m j -> js_run p j = Some (j', outs, []) ->
  exists m', m_run p m = MOk (m', outs) /\ st_rel m' j'.
Proof. exact run_sim. Qed.
Print Assumptions C20_refine_partial.

(* without that hypothesis the statement is false: "= a.push(2)" (F-C20-c) ... *)
Theorem C20_refine_refuted_push_value :
  exists p m j j' m' o o' fl,
    st_rel m j /\ js_run p j = Some (j', o, fl) /\ m_run p m = MOk (m', o') /\ o <> o'.
Proof. exact refine_refuted_unit. Qed.
Print Assumptions C20_refine_refuted_push_value.

(* ... and ['b', null].sort() (F-C20-g) *)
Theorem C20_refine_refuted_null_sort :
  exists p m j j' m' o o' fl,
    st_rel m j /\ js_run p j = Some (j', o, fl) /\ m_run p m = MOk (m', o') /\ o <> o'.
Proof. exact refine_refuted_null_sort. Qed.
Print Assumptions C20_refine_refuted_null_sort.

(* one commuting step: any single call, any method *)
Theorem C20_call : forall (m : mstate) (j : jstate) recv f args jh' jr,
  st_rel m j -> js_call j recv f args = Some (jh', jr, []) ->
  exists mh' gr, m_call m recv f args = MOk (mh', gr) /\ heap_rel mh' jh' /\
    (unit_meth f = false -> vrel gr jr) /\ (unit_meth f = true -> gr = Nil).
Proof. exact call_sim. Qed.
Print Assumptions C20_call.

(* mutations made through one variable are the mutations made through any other variable
   bound to the same array: the two statements are the same state transformer *)
Theorem C20_alias : forall (st : mstate) (x y : nat) md f args,
  env_get x (m_env st) = env_get y (m_env st) ->
  m_step st (SCall md x f args) = m_step st (SCall md y f args).
Proof. exact alias_same. Qed.
Print Assumptions C20_alias.

(* every other way a template makes a second name for an array - a mixin parameter bound from the
   argument list, the loop variable of an each over an array of arrays, a member of an object or
   an element of an array holding it, the result of a method that hands it back - binds the new name
   to the same location: no array is created or changed, the old name keeps its binding ... *)
Theorem C20_pass_shares : forall (st : mstate) (x y l : nat),
  env_get y (m_env st) = Some (Arr l) ->
  exists st', m_step st (SPass x (AVar y)) = MOk (st', []) /\
    env_get x (m_env st') = Some (Arr l) /\ env_get y (m_env st') = Some (Arr l) /\
    m_heap st' = m_heap st.
Proof. exact pass_shares. Qed.
Print Assumptions C20_pass_shares.

(* ... and from then on, for ALL programs that re-bind neither name, it makes no difference through
   which of the two names any receiver, argument, assignment source or printed variable is written:
   the two programs write the same text and end in the same state (for the code ...) *)
Theorem C20_names_interchangeable : forall (x y : nat) (p p' : prog) (st : mstate),
  env_get x (m_env st) = env_get y (m_env st) ->
  Forall2 (swapped x y) p p' -> m_run p st = m_run p' st.
Proof. exact names_interchangeable. Qed.
Print Assumptions C20_names_interchangeable.

(* (... and for JavaScript: the specification demands exactly this) *)
Theorem C20_names_interchangeable_js : forall (x y : nat) (p p' : prog) (st : jstate),
  env_get x (j_env st) = env_get y (j_env st) ->
  Forall2 (swapped x y) p p' -> js_run p st = js_run p' st.
Proof. exact names_interchangeable_js. Qed.
Print Assumptions C20_names_interchangeable_js.

(* splice / slice results live at a location that did not exist before ... *)
Theorem C20_fresh : forall h l items f n h' r,
  (f = MSplice \/ f = MSlice) ->
  arr_method h l items f [Num n] = MOk (h', r) ->
  r = Arr (length h) /\ length h' = S (length h) /\
  nth_error h' (length h) = Some (skipn (Z.to_nat n) items).
Proof. exact splice_slice_fresh. Qed.
Print Assumptions C20_fresh.

(* ... and no call on one array changes any other existing array *)
Theorem C20_frame : forall h l items f gs h' r,
  arr_method h l items f gs = MOk (h', r) ->
  forall k, k <> l -> k < length h -> nth_error h' k = nth_error h k.
Proof. exact arr_frame. Qed.
Print Assumptions C20_frame.

(* before the repair (F-C20-a): the old Splice shared storage, a push overwrote the result *)
Theorem C20_fresh_refuted_before_repair :
  exists mem s n x,
    let '(a, r) := old_splice s n in
    let '(mem', _) := old_push mem a x in
    sl_items mem r = [3; 4]%Z /\ sl_items mem' r = [9; 4]%Z.
Proof. exact old_splice_shares. Qed.
Print Assumptions C20_fresh_refuted_before_repair.

(* the String methods, for all ASCII strings and all in-range arguments *)
Theorem C20_string_methods : forall me je mh jh s args js f jh' jr,
  env_rel me je -> heap_rel mh jh ->
  omap (jeval je) args = Some js ->
  js_str_method jh s f js = Some (jh', jr, []) ->
  exists fixed var gs mh' gr,
    str_sig f = Some (fixed, var) /\ arity_ok fixed var (length args) = true /\
    eval_args me fixed var args = MOk gs /\
    str_method mh s f gs = MOk (mh', gr) /\ heap_rel mh' jh' /\ vrel gr jr /\ unit_meth f = false.
Proof. exact str_sim. Qed.
Print Assumptions C20_string_methods.

(* split, indexOf and the case mappings as ECMA-262 words them (SplitMatch loop, smallest matching
   position, the 26 letter pairs) are, on every string and separator, what the Go library
   routines the code calls compute (strings.Split / Index / ToUpper / ToLower on ASCII) *)
Theorem C20_string_readings_agree : forall r s : bytes,
  js_split r s = str_split r s /\ js_index_of r s = str_index r s /\
  map js_up s = map up_char s /\ map js_low s = map low_char s.
Proof. exact js_string_readings. Qed.
Print Assumptions C20_string_readings_agree.

(* split drops and trims nothing: joining the pieces with the separator gives the string back
   (blanks at the ends and adjacent blanks therefore give empty pieces) *)
Theorem C20_split_join : forall sep s : bytes, join sep (js_split sep s) = s.
Proof. exact split_join. Qed.
Print Assumptions C20_split_join.

(* the sort both sides apply to the (ToString key, element) pairs is a sort: a permutation,
   ordered by the byte order of the keys (= UTF-16 code unit order on ASCII) *)
Theorem C20_sort_spec : forall (A : Type) (l : list (bytes * A)),
  Permutation.Permutation l (ssort l) /\ Sorted.Sorted key_le (ssort l).
Proof. exact @ssort_spec. Qed.
Print Assumptions C20_sort_spec.
