(* C19 — Static assets are served only from the dist directory; CORS follows whitelist.
   Property theorems only; each is closed by [exact] of a lemma from Proofs/.
   [dec] ranges over ALL decoded request paths (whatever net/url produced),
   [m] over all three ServeMux decisions, [raw] over all raw request targets. *)
From PV Require Import Base.Bytes Models.Assets Proofs.AssetsProofs.

(* path.Clean of any rooted path is rooted and has no ".." component *)
Theorem C19_clean_rooted : forall p : bytes,
  prefixb [slash] (clean (slash :: p)) = true /\
  mem dotdot (split_slash (clean (slash :: p))) = false.
Proof. exact clean_rooted. Qed.
Print Assumptions C19_clean_rooted.

(* the NAME that is opened lies in frontend/dist, whatever the request *)
Theorem C19_inside : forall req : bytes, inside (resolve req) = true.
Proof. exact resolve_inside. Qed.
Print Assumptions C19_inside.

(* the fuel of the link resolution is enough: no answer exists "because fuel ran out" *)
Theorem C19_walk_fuel_enough : forall (t : tree) (comps : list bytes), os_walk t comps <> WFuel.
Proof. exact walk_fuel_enough. Qed.
Print Assumptions C19_walk_fuel_enough.

(* never a directory listing, whatever the request resolves to: a directory
   - reached directly or through links - is never answered with content, and
   content means that the resolution (all links followed) ended at a regular
   file with exactly these bytes *)
Theorem C19_no_listing : forall (t : tree) (m : muxd) (dec : bytes),
  serve_at t m dec <> Listing /\
  (forall at_, os_resolve t (resolve dec) = WNode at_ Dir -> content (serve_at t m dec) = None) /\
  (forall b, content (serve_at t m dec) = Some b ->
             exists at_, os_resolve t (resolve dec) = WNode at_ (Reg b)).
Proof. exact no_listing. Qed.
Print Assumptions C19_no_listing.

(* a File answer carries exactly the bytes of the regular file that the OS
   finds, all links followed, at the name [resolve dec] (a name inside dist);
   every other answer carries no file content *)
Theorem C19_only_file_bytes : forall (t : tree) (m : muxd) (dec : bytes),
  match serve_at t m dec with
  | File b => (exists at_, os_resolve t (resolve dec) = WNode at_ (Reg b)) /\
              inside (resolve dec) = true
  | Listing => False
  | Redirect | NotFound | ServerError | BadRequest => True
  end.
Proof. exact only_file_bytes. Qed.
Print Assumptions C19_only_file_bytes.

(* the same from the raw request target (percent-decoding and mux model included) *)
Theorem C19_only_file_bytes_raw : forall (t : tree) (raw : bytes),
  match serve t raw with
  | File b => exists dec, pct_decode raw = Some dec /\
                          (exists at_, os_resolve t (resolve dec) = WNode at_ (Reg b)) /\
                          inside (resolve dec) = true
  | Listing => False
  | Redirect | NotFound | ServerError | BadRequest => True
  end.
Proof. exact raw_only_file_bytes. Qed.
Print Assumptions C19_only_file_bytes_raw.

(* F-C19-b: "the served file lies inside dist" is FALSE of the faithful model
   when a link leaves dist ... *)
Theorem C19_file_outside_refuted :
  exists t dec b at_,
    dom_C19 t = false /\ serve_at t MuxPass dec = File b /\
    os_resolve t (resolve dec) = WNode at_ (Reg b) /\ ~ below_dist at_.
Proof. exact file_outside_refuted. Qed.
Print Assumptions C19_file_outside_refuted.

(* ... and holds on the domain [dom_C19] (no link target is absolute or has a
   ".." component): there the served regular file lies physically inside dist *)
Theorem C19_only_file_bytes_partial : forall (t : tree) (m : muxd) (dec : bytes),
  dom_C19 t = true ->
  match serve_at t m dec with
  | File b => exists at_, os_resolve t (resolve dec) = WNode at_ (Reg b) /\ below_dist at_
  | Listing => False
  | Redirect | NotFound | ServerError | BadRequest => True
  end.
Proof. exact only_file_bytes_confined. Qed.
Print Assumptions C19_only_file_bytes_partial.

(* not vacuous the other way: a regular file below dist is served, also when
   the name is, or leads through, a link *)
Theorem C19_serves : forall (t : tree) (dec b : bytes) (at_ : loc),
  os_resolve t (resolve dec) = WNode at_ (Reg b) -> has_nul (resolve dec) = false ->
  suffixb index_page (rooted dec) = false -> ends_slash (rooted dec) = false ->
  handler t dec = File b.
Proof. exact handler_serves. Qed.
Print Assumptions C19_serves.

(* repaired CORS test = specification, all whitelists and all Origin header values *)
Theorem C19_cors : forall (wl : list bytes) (hdr : bytes),
  cors wl hdr = cors_spec_req wl (origin_of hdr).
Proof. exact cors_correct. Qed.
Print Assumptions C19_cors.

(* the header is set only to the request's Origin and only when whitelisted *)
Theorem C19_cors_only_when_whitelisted : forall (m : muxd) (wl : list bytes) (hdr v : bytes),
  acao_at m wl hdr = Some v -> v = hdr /\ hdr <> [] /\ (In hdr wl \/ In (B "*") wl).
Proof. exact acao_only_when_whitelisted. Qed.
Print Assumptions C19_cors_only_when_whitelisted.

(* F-C19-a: the "!"-joined containment test of the pinned tree is not the specification *)
Theorem C19_cors_unrepaired_refuted :
  (cors_unrepaired [B "a"; B "b"] (B "a!b") = Some (B "a!b") /\
   cors_spec_req [B "a"; B "b"] (origin_of (B "a!b")) = None) /\
  (cors_unrepaired [] [] = Some [] /\ cors_spec_req [] (origin_of []) = None) /\
  (cors_unrepaired [B "*"] [] = Some [] /\ cors_spec_req [B "*"] (origin_of []) = None).
Proof. exact cors_unrepaired_refuted. Qed.
Print Assumptions C19_cors_unrepaired_refuted.

(* ---- the request as a whole: [meth] ranges over ALL methods, [hs] over ALL lists of header lines
   (several Origin lines, preflight headers, anything else) *)

(* the Access-Control-* headers of the answer are none at all, or exactly one
   Access-Control-Allow-Origin with exactly one value, the request's Origin,
   non-empty and whitelisted *)
Theorem C19_cors_all_requests : forall (m : muxd) (wl : list bytes) (meth : bytes) (hs : list (bytes * bytes)),
  resp_ac m wl meth hs = [] \/
  (let o := header_get h_origin hs in
   resp_ac m wl meth hs = [(acao_name, [o])] /\ m = MuxPass /\ o <> [] /\ (In o wl \/ In (B "*") wl)).
Proof. exact resp_ac_only_when_whitelisted. Qed.
Print Assumptions C19_cors_all_requests.

(* the decision depends on the Origin and the whitelist only: not on the
   method, not on preflight or any other header lines *)
Theorem C19_cors_origin_only : forall (m : muxd) (wl : list bytes) (meth meth' : bytes) (hs hs' : list (bytes * bytes)),
  header_get h_origin hs = header_get h_origin hs' ->
  resp_ac m wl meth hs = resp_ac m wl meth' hs'.
Proof. exact resp_ac_origin_only. Qed.
Print Assumptions C19_cors_origin_only.

(* a whitelisted Origin gets the header whenever the handler runs *)
Theorem C19_cors_complete : forall (wl : list bytes) (meth : bytes) (hs : list (bytes * bytes)),
  allowedb wl (header_get h_origin hs) = true ->
  resp_ac MuxPass wl meth hs = [(acao_name, [header_get h_origin hs])].
Proof. exact resp_ac_complete. Qed.
Print Assumptions C19_cors_complete.

(* the model meets the executable clause [ac_spec] that the judge evaluates on
   the real response's headers, and that clause means what the property says *)
Theorem C19_cors_meets_spec : forall (m : muxd) (wl : list bytes) (meth : bytes) (hs : list (bytes * bytes)),
  ac_spec wl (header_values h_origin hs) (resp_ac m wl meth hs) = true.
Proof. exact resp_ac_meets_spec. Qed.
Print Assumptions C19_cors_meets_spec.

Theorem C19_ac_spec_sound : forall (wl origins : list bytes) (acs : list (bytes * list bytes)),
  ac_spec wl origins acs = true ->
  (acs <> [] -> exists o, In o origins /\ o <> [] /\ (In o wl \/ In (B "*") wl)) /\
  (forall n vs, In (n, vs) acs -> name_eqb n acao_name = true ->
     exists o, vs = [o] /\ In o origins /\ o <> [] /\ (In o wl \/ In (B "*") wl)).
Proof. exact ac_spec_sound. Qed.
Print Assumptions C19_ac_spec_sound.

(* what is sent as body is the file's bytes or, for HEAD, nothing *)
Theorem C19_sent_body : forall (meth : bytes) (a : answer) (b : bytes),
  sent_body meth a = Some b -> b = [] \/ content a = Some b.
Proof. exact sent_body_content. Qed.
Print Assumptions C19_sent_body.

(* a handler that answers preflights itself and writes the Origin there
   without asking the whitelist is rejected by the clause *)
Theorem C19_cors_preflight_set_refuted :
  (let hs := [(B "Origin", B "https://evil.test"); (B "Access-Control-Request-Method", B "GET")] in
   ac_spec [B "http://a.test"] (header_values h_origin hs)
           (resp_ac_preflight MuxPass [B "http://a.test"] (B "OPTIONS") hs) = false /\
   ac_spec [B "http://a.test"] (header_values h_origin hs)
           (resp_ac MuxPass [B "http://a.test"] (B "OPTIONS") hs) = true) /\
  (let hs := [(B "access-control-request-method", B "PUT")] in
   ac_spec [B "*"] (header_values h_origin hs) (resp_ac_preflight MuxPass [B "*"] (B "OPTIONS") hs) = false).
Proof. exact resp_ac_preflight_refuted. Qed.
Print Assumptions C19_cors_preflight_set_refuted.
