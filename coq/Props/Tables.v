(* Tables — the facts the hand-written models repeat from the Go sources, against the tables that
   tools/extract regenerates from the working tree on every check (Gen/Sigs.v): helper and method
   signatures, the while-loop cap, the HTML escaper.  Property theorems only; each is closed by [exact]
   of a lemma from Proofs/SigsProofs.v.  A source edit that changes one of these facts changes
   Gen/Sigs.v, and the lemma concerned no longer compiles. *)
From PV Require Import Base.Bytes Base.Escape Tmpl.Value Tmpl.Runtime Tmpl.Exec Gen.Sigs Proofs.SigsProofs.
From PV Require Spec.Sem.

(* 1. every entry of the model's helper table is a function of the source (module.go template functions,
      then pugjs.funcmap, then pugjs.builtins) whose parameter list reads as the model says *)
Theorem Tables_builtin_sigs_agree : forall name sg,
  lookup name builtin_sigs = Some sg ->
  exists g, source_sig name = Some g /\ model_sig g = Some sg.
Proof. exact builtin_sigs_agree. Qed.
Print Assumptions Tables_builtin_sigs_agree.

Theorem Tables_builtin_sigs_none_disagrees : builtin_sigs_disagreeing = [].
Proof. exact builtin_sigs_none_disagrees. Qed.
Print Assumptions Tables_builtin_sigs_none_disagrees.

(*    Math, JSON, Object: the model's method signatures are those of the source, and nothing else *)
Theorem Tables_mod_sig_in_source : forall m name sg,
  mod_sig m name = Some sg ->
  existsb (fun x => beqb (fst x) m && beqb (snd x) name) mod_sig_names = true.
Proof. exact mod_sig_dom. Qed.
Print Assumptions Tables_mod_sig_in_source.

Theorem Tables_mod_sig_agree :
  forallb (fun x => match mod_sig (fst x) (snd x), lookup (snd x) (module_methods_of (fst x)) with
                    | Some sg, Some g => agrees sg g
                    | _, _ => false
                    end) mod_sig_names = true.
Proof. exact mod_sig_names_in_source. Qed.
Print Assumptions Tables_mod_sig_agree.

(* 2. a method name the model accepts on an array / a string is dispatched by Member in the source, to a
      method whose parameter list reads as the model says *)
Theorem Tables_array_sig_agrees : forall name sg,
  array_sig name = Some sg ->
  exists g, In (name, g) (methods_of (B "*Array")) /\ model_sig g = Some sg.
Proof. exact array_sig_agrees. Qed.
Print Assumptions Tables_array_sig_agrees.

Theorem Tables_string_sig_agrees : forall name sg,
  string_sig name = Some sg ->
  exists g, In (name, g) (methods_of (B "String")) /\ model_sig g = Some sg.
Proof. exact string_sig_agrees. Qed.
Print Assumptions Tables_string_sig_agrees.

(*    a name the source dispatches and the model knows has the model's signature; a map's __assign is [two] *)
Theorem Tables_array_methods_agree :
  forallb (fun e => match array_sig (fst e) with Some sg => agrees sg (snd e) | None => true end)
          (methods_of (B "*Array")) = true.
Proof. exact array_sig_agrees_b. Qed.
Print Assumptions Tables_array_methods_agree.

Theorem Tables_string_methods_agree :
  forallb (fun e => match string_sig (fst e) with Some sg => agrees sg (snd e) | None => true end)
          (methods_of (B "String")) = true.
Proof. exact string_sig_agrees_b. Qed.
Print Assumptions Tables_string_methods_agree.

Theorem Tables_map_assign_agrees :
  match lookup (B "__assign") (methods_of (B "*Map")) with
  | Some g => agrees two g
  | None => false
  end = true.
Proof. exact map_assign_agrees_b. Qed.
Print Assumptions Tables_map_assign_agrees.

(* 3. the while-loop cap of the executor model and of the specification is the literal of walkRange *)
Theorem Tables_while_cap : while_cap = N.to_nat go_while_cap.
Proof. exact while_cap_is_source. Qed.
Print Assumptions Tables_while_cap.

Theorem Tables_while_limit : Spec.Sem.while_limit = N.to_nat go_while_cap.
Proof. exact while_limit_is_source. Qed.
Print Assumptions Tables_while_limit.

(* 4. the model's escaper is HTMLEscape as read off the source: on every byte, hence on every string *)
Theorem Tables_esc_char : forall c, esc_char c = table_esc_char c.
Proof. exact esc_char_is_table. Qed.
Print Assumptions Tables_esc_char.

Theorem Tables_escape : forall s, escape s = table_escape s.
Proof. exact escape_is_table. Qed.
Print Assumptions Tables_escape.

Theorem Tables_esc_char_256 :
  forallb (fun n => beqb (esc_char (ascii_of_N n)) (table_esc_char (ascii_of_N n))) (N_upto 256) = true.
Proof. exact esc_char_table_256. Qed.
Print Assumptions Tables_esc_char_256.
