(* C06 — static structure and text are reproduced faithfully.
   Property theorems only; proofs in Proofs/C06Proofs.v.
   M: Pug/Compile.v (quote_text = the Text arm of buildNode after the repairs 59a1cb6 and F-C06-d; cnode/compile
      for Tag, Text, Doctype, Block, Comment), Tmpl/Lexer.v (byte-level model of the top level of
      pugjs/parse/lex.go: [segment]), Tmpl/IR.v (apply_trims: the lexer's trimming on tokens).
   S: Spec/HtmlSer.v (html_ser, wf_html); the value of an item ([seg_value]: a text prints itself, an
      action that is one string literal prints the literal). *)
From PV Require Import Base.Bytes Js.Ast Tmpl.Value Tmpl.IR Tmpl.Lexer Tmpl.Exec Pug.Ast Pug.Compile Spec.HtmlSer
  Proofs.C06Proofs Proofs.C06ExecProofs.

(* ---- one text ------------------------------------------------------------------------------------------ *)
(* the five strings.Replace passes and the HasSuffix rule are ONE pass over the greedy tokenisation of the
   text into "{{", "}}" and single bytes ([tokz], with flat (tokz s) = s): "{{" and "}}" become the actions
   {{"{{"}} and {{"}}"}}, a single "{" becomes {{"{"}} exactly when a quoted "}}" follows or the text ends *)
Theorem C06_quote_one_pass : forall s : bytes,
  quote_text s = rend true (tokz s) /\ flat LBR RBR (tokz s) = s.
Proof. exact quote_one_pass. Qed.
Print Assumptions C06_quote_one_pass.

(* ALL byte strings: the quoted text, standing alone, is cut by the lexer into text items and the three
   string-literal actions (no trim marker anywhere), and what these print, in order, is the text itself *)
Theorem C06_text_roundtrip : forall s : bytes,
  segment (quote_text s) = Some (text_segs s) /\
  segs_value (text_segs s) = Some s /\
  forallb lit_seg (text_segs s) = true.
Proof. exact text_roundtrip. Qed.
Print Assumptions C06_text_roundtrip.

(* the compiler's own view: a Text node never makes the model decline, and its tokens print quote_text *)
Theorem C06_text_never_declines : forall s : bytes,
  ctext s = Some (text_toks (quote_text s)) /\ show_toks (text_toks (quote_text s)) = quote_text s.
Proof. exact text_never_declines. Qed.
Print Assumptions C06_text_never_declines.

(* no delimiter forms across the seam, WHATEVER follows (no hypothesis on k): the complete items of the
   text are delivered as if it stood alone, and the lexer reaches k in text state, holding the text's last
   run, which does not end in "{" *)
Theorem C06_text_adjacent : forall s k : bytes,
  segment (quote_text s ++ k) = oapp (text_pre s) (lex_text false (rev (text_last s)) k) /\
  text_segs s = text_pre s ++ emit_text (text_last s) [] /\
  no_trail (rev (text_last s)) = true.
Proof. exact text_adjacent_full. Qed.
Print Assumptions C06_text_adjacent.

(* ... followed by an action without left trim marker (buffered code, attributes, a mixin call, the quoting
   actions of the next text): the items of the text, then those of what follows *)
Theorem C06_text_then_action : forall s k1 : bytes,
  starts_trim k1 = false ->
  segment (quote_text s ++ "{"%char :: "{"%char :: k1) = oapp (text_segs s) (segment ("{"%char :: "{"%char :: k1)).
Proof. exact text_adjacent_action. Qed.
Print Assumptions C06_text_then_action.

(* ... followed by an action WITH a left trim marker ("{{- "): only white space at the end of the last text
   run is removed (trim_right), nothing else changes *)
Theorem C06_text_then_trimming_action : forall s k1 : bytes,
  starts_trim k1 = true ->
  segment (quote_text s ++ "{"%char :: "{"%char :: k1) =
  oapp (text_pre s ++ emit_text (trim_right (text_last s)) []) (segment ("{"%char :: "{"%char :: k1)).
Proof. exact text_adjacent_trim_action. Qed.
Print Assumptions C06_text_then_trimming_action.

(* ... followed by brace-free source text (a start tag, an end tag): it joins the last text run *)
Theorem C06_text_then_plain : forall s k : bytes,
  forallb (fun c => negb (Ascii.eqb c "{")) k = true ->
  segment (quote_text s ++ k) = Some (text_pre s ++ emit_text (text_last s ++ k) []).
Proof. exact text_adjacent_plain. Qed.
Print Assumptions C06_text_then_plain.

(* ... followed by another text (the F-C06-a pair "...{" "{..." included): together they print s1 ++ s2 *)
Theorem C06_text_then_text : forall s1 s2 : bytes,
  exists l, segment (quote_text s1 ++ quote_text s2) = Some l /\ segs_value l = Some (s1 ++ s2) /\
            forallb lit_seg l = true.
Proof. exact text_adjacent_text_value. Qed.
Print Assumptions C06_text_then_text.

(* ---- static trees --------------------------------------------------------------------------------------- *)
(* ALL static trees (any depth; tags without attributes, text, doctype, blocks, comments) whose names contain
   no "{{" and are not `script`: production-mode compilation succeeds, and the emitted template SOURCE TEXT,
   cut by the lexer, consists of text and string-literal actions only (so nothing is trimmed and nothing is
   executed), whose values in order are exactly the HTML serialisation *)
Theorem C06_static_partial : forall (funcs : list bytes) (nodes : list pnode),
  forallb static nodes = true -> forallb names_ok nodes = true ->
  exists ts l, compile funcs false nodes = Some ts /\ segment (show_toks ts) = Some l /\
               segs_value l = Some (html_ser nodes) /\ forallb lit_seg l = true.
Proof. exact static_bytes. Qed.
Print Assumptions C06_static_partial.

(* the hypothesis names_ok (no element called script) is forced: F-C06-e.  A script element whose body
   contains a line feed gets one more after the start tag and before the end tag *)
Theorem C06_static_refuted : exists nodes : list pnode,
  forallb static nodes = true /\
  (match compile [] false nodes with
   | Some ts => match segment (show_toks ts) with Some l => segs_value l | None => None end
   | None => None
   end) <> Some (html_ser nodes).
Proof. exact static_refuted. Qed.
Print Assumptions C06_static_refuted.

(* the same, compositional (whatever text run is open before and whatever follows), and on the compiler's
   own tokens: they are text and string-literal actions whose values, in order, are the serialisation *)
Theorem C06_static_in_context : forall (funcs : list bytes) (nodes : list pnode),
  forallb static nodes = true -> forallb names_ok nodes = true ->
  exists ts, compile funcs false nodes = Some ts /\ renders (show_toks ts) (html_ser nodes) /\
             toks_value ts = Some (html_ser nodes).
Proof. exact static_compile. Qed.
Print Assumptions C06_static_in_context.

(* model render in production mode = html_ser: the model of the whole pipeline (compile, lex/trim on
   tokens, parse, execute with the model's fixed fuel) prints exactly the serialisation, for every data
   value the executor starts on, provided the fixed fuel of Tmpl/Exec.v (22500 steps) covers the token
   count -- the bound is explicit, nothing holds "because fuel ran out" *)
Theorem C06_static_model_output : forall (funcs : list bytes) (nodes : list pnode) (data : dval),
  forallb static nodes = true -> forallb names_ok nodes = true -> init_state data <> None ->
  exists ts p, compile funcs false nodes = Some ts /\ parse_program ts = Some p /\
               (S (length ts) < exec_fuel -> run_program p data = OOk (html_ser nodes)).
Proof. exact static_model_output'. Qed.
Print Assumptions C06_static_model_output.

(* the serialisation is a well-formed document: it is the printing of an event sequence in which every
   element that is opened is closed in order, void elements have neither content nor end tag, and the
   doctype, declared first, comes first *)
Theorem C06_static_wf : forall nodes : list pnode,
  forallb static nodes = true -> doctype_ok nodes = true ->
  ser_events (events nodes) = html_ser nodes /\ wf_html (events nodes) = true.
Proof. exact html_ser_wf. Qed.
Print Assumptions C06_static_wf.

(* the void-element table extracted from pug_parser.go is HTML's *)
Theorem C06_void_table : forall name : bytes, is_void name = void_el name.
Proof. exact is_void_spec. Qed.
Print Assumptions C06_void_table.

(* ---- trimming ---------------------------------------------------------------------------------------------- *)
(* the lexer's trimming on ANY token list: actions stay as they are, a text loses white space only
   (space, tab, CR, LF), only at its edges, at the left edge only when the action before it carries a right
   trim marker and at the right edge only when the action after it carries a left trim marker *)
Theorem C06_lexer_trims_only_ws : forall (ts : list tok) (p : bool), trims_rel p ts (apply_trims p ts).
Proof. exact apply_trims_rel. Qed.
Print Assumptions C06_lexer_trims_only_ws.

(* without trim markers nothing is removed but empty texts *)
Theorem C06_no_marker_no_trim : forall ts : list tok,
  forallb marker_free ts = true ->
  apply_trims false ts = filter (fun t => match t with TText [] => false | _ => true end) ts.
Proof. exact apply_trims_marker_free. Qed.
Print Assumptions C06_no_marker_no_trim.

(* ALL programs (every construct, any depth), production mode: a token that carries a trim marker is a
   control action (if / else if / else / end, range, define, template $block, a variable declaration or
   assignment) -- never text, never an action that prints (buffered code, attributes, the quoting actions
   of a text, a mixin call); and lexing the program removes nothing but edge white space next to such a
   token.  (In debug mode the separator {{- "" -}} carries markers: C13.) *)
Theorem C06_trim_only_ws : forall (funcs : list bytes) (nodes : list pnode) (ts : list tok),
  compile funcs false nodes = Some ts ->
  forallb marker_ctl (merge_text ts) = true /\ trims_rel false (merge_text ts) (lexed ts).
Proof. exact trim_only_ws. Qed.
Print Assumptions C06_trim_only_ws.

(* ---- why both repairs were needed ---------------------------------------------------------------------------- *)
(* the original Text arm (four Replace calls): a text ending in "{" is not separated from a following action *)
Theorem C06_text_adjacent_unrepaired_refuted :
  segment (quote_text_v0 (B "{") ++ B "{{$p}}") = Some [SAct false (B "{$p") false] /\
  segment (quote_text (B "{") ++ B "{{$p}}") = Some [SAct false (B """{""") false; SAct false (B "$p") false].
Proof. exact adjacent_v0_refuted. Qed.
Print Assumptions C06_text_adjacent_unrepaired_refuted.

(* with the first repair only (59a1cb6) the round trip still failed for the text {}} (F-C06-d) *)
Theorem C06_text_roundtrip_first_repair_refuted :
  segment (quote_text_v1 (B "{}}")) = Some [SAct false (B "{""}}""") false] /\
  (match segment (quote_text_v1 (B "{}}")) with Some l => segs_value l | None => None end) = None /\
  (match segment (quote_text (B "{}}")) with Some l => segs_value l | None => None end) = Some (B "{}}").
Proof. exact roundtrip_v1_refuted. Qed.
Print Assumptions C06_text_roundtrip_first_repair_refuted.

(* ---- the lexer seam ------------------------------------------------------------------------------------------ *)
From PV Require Import Base.Escape Proofs.C06SeamProofs Proofs.C06SeamCompile.

(* ALL token lists whose tokens are well-formed (a text holds no "{{" and does not end in "{"; an action is
   its delimiters, with the trim markers the token says, around a body in which every "}", quote and line end
   lies inside a closed "..." literal, that does not begin like a comment or a trim marker and does not end in
   a blank before " -}}" or in "-" before "}}"): the byte-level lexer (Tmpl/Lexer.v) run on the printed text
   delivers exactly the token-level view of Tmpl/IR.v -- neighbouring texts merged, white space trimmed where
   the markers say, empty texts dropped, the action bodies cut at the right places *)
Theorem C06_lexer_seam_wf : forall ts : list tok,
  wf_toks ts -> segment (show_toks ts) = Some (map seg_of_tok (lexed ts)).
Proof. exact seam_wf. Qed.
Print Assumptions C06_lexer_seam_wf.

(* ALL programs, every node kind (tags with attributes and &attributes, text, buffered/unbuffered code with
   declarations, assignments and JS if/else, conditionals, case, each, while, mixin definitions, calls and
   blocks, doctype, blocks, comments), production AND debug mode: every token the compiler emits -- the main
   template, the mixin blocks and the mixin definitions -- is well-formed.  Domain (node_dom): expressions of
   any shape and depth (template literals included) whose float literals are numbers; an element name does
   not end in "{" *)
Theorem C06_compile_wf : forall (funcs : list bytes) (debug : bool) (nodes : list pnode) (ts : list tok),
  forallb node_dom nodes = true -> compile funcs debug nodes = Some ts -> wf_toks ts.
Proof. exact compile_wf. Qed.
Print Assumptions C06_compile_wf.

(* hence THE SEAM for every compiled program of that domain: what the lexer makes of the emitted template
   source is what the token-level model (parse_program, the executor model) works on *)
Theorem C06_lexer_seam_partial : forall (funcs : list bytes) (debug : bool) (nodes : list pnode) (ts : list tok),
  forallb node_dom nodes = true -> compile funcs debug nodes = Some ts ->
  segment (show_toks ts) = Some (map seg_of_tok (lexed ts)).
Proof. exact lexer_seam. Qed.
Print Assumptions C06_lexer_seam_partial.

(* both exclusions are forced: a program that violates only that one compiles, and the lexer cuts the emitted
   source differently from the token view.  The first is outside the pug grammar, the second an artefact of
   the model's JNumF *)
Theorem C06_lexer_seam_refuted :
  (exists ts, compile [] false prog_name_brace = Some ts /\ segment (show_toks ts) <> Some (map seg_of_tok (lexed ts))) /\
  (exists ts, compile [] false prog_numf = Some ts /\ segment (show_toks ts) <> Some (map seg_of_tok (lexed ts))).
Proof. exact lexer_seam_refuted. Qed.
Print Assumptions C06_lexer_seam_refuted.

(* why the repairs F-C06-f and F-C01-h were needed.  The StringLiteral arm of renderExpression as it was
   ([cwrap_str_v0]: the escaped value as one text): `= "a{"` followed by `= p` gives a{{{$p | __pug__html}},
   which the lexer cuts differently from the token view (the engine failed to load it).  interpolate as it was
   ([tpl_text_v0]: literal parts pasted between quotes, every "" deleted): a template literal whose literal
   part is one double quote gives an action with an unterminated string (load error).  Both programs are in
   node_dom now, so C06_lexer_seam_partial covers them *)
Theorem C06_lexer_seam_unrepaired_refuted :
  (exists ts2, compile [] false [PCode [SExpr (JId (B "p"))] true true] = Some ts2 /\
     segment (show_toks (cwrap_str_v0 (B "a{") ++ ts2)) <> Some (map seg_of_tok (lexed (cwrap_str_v0 (B "a{") ++ ts2)))) /\
  (exists t, tpl_text_v0 [] [inl (B """"); inr (JId (B "x"))] = Some t /\
     segment (B "{{" ++ t ++ B " | __pug__html}}") = None) /\
  forallb node_dom prog_str_brace = true /\ forallb node_dom prog_tpl_quote = true.
Proof. exact lexer_seam_unrepaired_refuted. Qed.
Print Assumptions C06_lexer_seam_unrepaired_refuted.

(* a buffered string literal (`= "..."`, any bytes): the compiler never declines (it did for "{{" before the
   repair), the tokens are well-formed, and their values, in order, are the escaped literal *)
Theorem C06_code_literal : forall (funcs : list bytes) (raw : bool) (s : bytes),
  exists ts, cwrap funcs raw (JStr s) = Some ts /\ toks_value ts = Some (escape s) /\ wf_toks ts.
Proof. exact cwrap_str_total. Qed.
Print Assumptions C06_code_literal.

(* ---- fields of the AST JSON that ordinary templates never set -------------------------------------------------- *)
From PV Require Import Models.AstFields Proofs.C06AstProofs.

(* the Tag arm of buildNode (bn_tag, assignment by assignment): whether the built tag is written without end tag
   and content is decided by the void-element table alone; `selfClosing` of the AST (pug source `div/`, any of
   absent / false / true) has no say *)
Theorem C06_ast_selfclosing_table_only : forall (name : bytes) (self : option bool),
  b_name (bn_tag name self) = name /\ b_self (bn_tag name self) = void_el name.
Proof. exact bn_tag_table. Qed.
Print Assumptions C06_ast_selfclosing_table_only.

(* ALL trees as the decoder sees them, ANY flag on ANY element: what CommonTag.render writes on the built tags
   (as document events) is what the specification says of the tree with the flags erased -- so every theorem
   above, stated on pnode, speaks about the decoded trees *)
Theorem C06_ast_flag_erased : forall l : list tnode, mevents bn_tag l = events (map erase l).
Proof. exact mevents_erase. Qed.
Print Assumptions C06_ast_flag_erased.

(* ALL static decoded trees: the emitted template source consists of text and string-literal actions whose values
   are the printing of these events, which is the HTML serialisation of the erased tree *)
Theorem C06_ast_static : forall (funcs : list bytes) (l : list tnode),
  forallb static (map erase l) = true -> forallb names_ok (map erase l) = true ->
  ser_events (mevents bn_tag l) = html_ser (map erase l) /\
  exists ts segs, compile funcs false (map erase l) = Some ts /\ segment (show_toks ts) = Some segs /\
                  segs_value segs = Some (ser_events (mevents bn_tag l)) /\ forallb lit_seg segs = true.
Proof. exact ast_static. Qed.
Print Assumptions C06_ast_static.

(* ... a well-formed document: an end tag for every element that is not void, none for void elements, whatever
   the flags say *)
Theorem C06_ast_static_wf : forall l : list tnode,
  forallb static (map erase l) = true -> doctype_ok (map erase l) = true ->
  wf_html (mevents bn_tag l) = true.
Proof. exact ast_static_wf. Qed.
Print Assumptions C06_ast_static_wf.

(* the overwrite is needed: were the table only able to ADD the mark (bn_tag_guarded), a template pug accepts
   (an empty `div/` between siblings) would render without the element's end tag -- not the serialisation, not
   well-formed *)
Theorem C06_ast_selfclosing_guarded_refuted : exists l : list tnode,
  forallb sc_dom l = true /\ forallb static (map erase l) = true /\ doctype_ok (map erase l) = true /\
  wf_html (mevents bn_tag_guarded l) = false /\
  ser_events (mevents bn_tag_guarded l) <> html_ser (map erase l).
Proof. exact guarded_refuted. Qed.
Print Assumptions C06_ast_selfclosing_guarded_refuted.
