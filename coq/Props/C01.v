(* C01 — embedded JavaScript expressions evaluate as JavaScript does (core subset).
   Property theorems only; proofs are in Proofs/C01Proofs.v. S = Spec/Sem.v (ECMA-262 reading),
   M = Pug/Compile.v + Tmpl/Runtime.v + Tmpl/Exec.v. [rep v j]: engine value v represents JS scalar j. *)
From PV Require Import Base.Bytes Js.Ast Tmpl.Value Tmpl.Runtime Tmpl.Exec Pug.Compile Spec.Sem Proofs.C01Proofs.
Local Open Scope Z_scope.

(* every core operator token is lowered to the helper that the lemmas below characterise
   (the table is the one in pugjs/transform_js_.go; an edit of it breaks this proof) *)
Theorem C01_ops_table :
  forallb (fun p => beqb (op_name (binop_token (fst p))) (snd p)) core_binops = true /\
  op_name (unop_token UNot) = B "__op__not" /\ op_name (unop_token UNeg) = B "__op__sub".
Proof. exact ops_table_core. Qed.
Print Assumptions C01_ops_table.

(* ToBoolean: what ! && || ?: (and if) use is JavaScript's truthiness on every scalar *)
Theorem C01_truthiness : forall h v j s, rep v j -> truthy h v = Ok (fst (to_boolean s j)).
Proof. exact truthy_js. Qed.
Print Assumptions C01_truthiness.

(* arithmetic on numbers, for all integers whose result stays in the range where the engine's
   number formatting coincides with JavaScript's *)
Theorem C01_add_numbers : forall h x y a b,
  rep x (JN a) -> rep y (JN b) -> in_range (a + b) = true -> rt_add h x y = Ok (VNum (a + b)).
Proof. exact rt_add_num_js. Qed.
Print Assumptions C01_add_numbers.

Theorem C01_sub : forall x y a b,
  rep x (JN a) -> rep y (JN b) -> in_range (a - b) = true -> rt_sub [x; y] = Ok (VNum (a - b)).
Proof. exact rt_sub_js. Qed.
Print Assumptions C01_sub.

Theorem C01_neg : forall x a, rep x (JN a) -> in_range (- a) = true -> rt_sub [x] = Ok (VNum (- a)).
Proof. exact rt_neg_js. Qed.
Print Assumptions C01_neg.

Theorem C01_mul : forall x y a b,
  rep x (JN a) -> rep y (JN b) -> in_range (a * b) = true -> rt_mul x y = Ok (VNum (a * b)).
Proof. exact rt_mul_js. Qed.
Print Assumptions C01_mul.

Theorem C01_div_exact : forall x y a b,
  rep x (JN a) -> rep y (JN b) -> b <> 0 -> Z.rem a b = 0 -> in_range (Z.quot a b) = true ->
  rt_quo x y = Ok (VNum (Z.quot a b)).
Proof. exact rt_quo_js. Qed.
Print Assumptions C01_div_exact.

(* string concatenation: string + string and string + number *)
Theorem C01_concat : forall h x y a b, rep x (JS a) -> rep y (JS b) -> rt_add h x y = Ok (VStr (a ++ b)).
Proof. exact rt_add_str_str_js. Qed.
Print Assumptions C01_concat.

Theorem C01_concat_number : forall h x y a b,
  rep x (JS a) -> rep y (JN b) -> in_range b = true -> rt_add h x y = Ok (VStr (a ++ show_Z b)).
Proof. exact rt_add_str_num_js. Qed.
Print Assumptions C01_concat_number.

(* same-type comparison and equality *)
Theorem C01_less_numbers : forall x y a b, rep x (JN a) -> rep y (JN b) -> rt_lss x y = Ok (Z.ltb a b).
Proof. exact rt_lss_num_js. Qed.
Print Assumptions C01_less_numbers.

Theorem C01_less_strings : forall x y a b, rep x (JS a) -> rep y (JS b) -> rt_lss x y = Ok (bytes_lt a b).
Proof. exact rt_lss_str_js. Qed.
Print Assumptions C01_less_strings.

Theorem C01_equal_numbers : forall h x y a b, rep x (JN a) -> rep y (JN b) -> rt_eql h x y = Ok (Z.eqb a b).
Proof. exact rt_eql_num_js. Qed.
Print Assumptions C01_equal_numbers.

Theorem C01_equal_strings : forall h x y a b, rep x (JS a) -> rep y (JS b) -> rt_eql h x y = Ok (beqb a b).
Proof. exact rt_eql_str_js. Qed.
Print Assumptions C01_equal_strings.

Theorem C01_equal_booleans : forall h x y a b, rep x (JB a) -> rep y (JB b) -> rt_eql h x y = Ok (Bool.eqb a b).
Proof. exact rt_eql_bool_js. Qed.
Print Assumptions C01_equal_booleans.

(* short-circuit results are the operand itself, not a boolean *)
Theorem C01_and_operand : forall h s x y jx jy, rep x jx -> rep y jy ->
  exists v, rt_and h x [y] = Ok v /\ rep v (if fst (to_boolean s jx) then jy else jx).
Proof. exact rt_and_js. Qed.
Print Assumptions C01_and_operand.

Theorem C01_or_operand : forall h s x y jx jy, rep x jx -> rep y jy ->
  exists v, rt_or h x [y] = Ok v /\ rep v (if fst (to_boolean s jx) then jx else jy).
Proof. exact rt_or_js. Qed.
Print Assumptions C01_or_operand.

(* what is printed for a scalar is JavaScript's ToString of it (null/undefined: nothing) *)
Theorem C01_print : forall h v j s t s',
  rep v j -> j <> JUndef -> print_string s j = SOk (t, s') ->
  (forall z, j = JN z -> in_range z = true) -> print_text h v = Ok t.
Proof. exact text_js. Qed.
Print Assumptions C01_print.
