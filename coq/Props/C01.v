(* C01 — embedded JavaScript expressions evaluate as JavaScript does (core subset).
   Property theorems only; proofs are in Proofs/C01Proofs.v. S = Spec/Sem.v (ECMA-262 reading),
   M = Pug/Compile.v + Tmpl/Runtime.v + Tmpl/Exec.v. [rep v j]: engine value v represents JS scalar j. *)
From PV Require Import Base.Bytes Js.Ast Tmpl.Value Tmpl.Runtime Tmpl.Exec Pug.Compile Spec.Sem Proofs.C01Proofs.
Local Open Scope Z_scope.

(* every core operator token is lowered to the helper that the lemmas below characterise
   (the table is the one in pugjs/transform_js_.go; an edit of it breaks this proof) *)
Theorem C01_ops_table :
  forallb (fun p => beqb (op_name (binop_token (fst p))) (snd p)) core_binops = true /\
  op_name (unop_token UNot) = B "__op__not" /\ op_name (unop_token UNeg) = B "__op__sub".
Proof. exact ops_table_core. Qed.
Print Assumptions C01_ops_table.

(* ToBoolean: what ! && || ?: (and if) use is JavaScript's truthiness on every scalar *)
Theorem C01_truthiness : forall h v j s, rep v j -> truthy h v = Ok (fst (to_boolean s j)).
Proof. exact truthy_js. Qed.
Print Assumptions C01_truthiness.

(* arithmetic on numbers, for all integers whose result stays in the range where the engine's
   number formatting coincides with JavaScript's *)
Theorem C01_add_numbers : forall h x y a b,
  rep x (JN a) -> rep y (JN b) -> in_range (a + b) = true -> rt_add h x y = Ok (VNum (a + b)).
Proof. exact rt_add_num_js. Qed.
Print Assumptions C01_add_numbers.

Theorem C01_sub : forall x y a b,
  rep x (JN a) -> rep y (JN b) -> in_range (a - b) = true -> rt_sub [x; y] = Ok (VNum (a - b)).
Proof. exact rt_sub_js. Qed.
Print Assumptions C01_sub.

Theorem C01_neg : forall x a, rep x (JN a) -> in_range (- a) = true -> rt_sub [x] = Ok (VNum (- a)).
Proof. exact rt_neg_js. Qed.
Print Assumptions C01_neg.

Theorem C01_mul : forall x y a b,
  rep x (JN a) -> rep y (JN b) -> in_range (a * b) = true -> rt_mul x y = Ok (VNum (a * b)).
Proof. exact rt_mul_js. Qed.
Print Assumptions C01_mul.

Theorem C01_div_exact : forall x y a b,
  rep x (JN a) -> rep y (JN b) -> b <> 0 -> Z.rem a b = 0 -> in_range (Z.quot a b) = true ->
  rt_quo x y = Ok (VNum (Z.quot a b)).
Proof. exact rt_quo_js. Qed.
Print Assumptions C01_div_exact.

(* string concatenation: string + string and string + number *)
Theorem C01_concat : forall h x y a b, rep x (JS a) -> rep y (JS b) -> rt_add h x y = Ok (VStr (a ++ b)).
Proof. exact rt_add_str_str_js. Qed.
Print Assumptions C01_concat.

Theorem C01_concat_number : forall h x y a b,
  rep x (JS a) -> rep y (JN b) -> in_range b = true -> rt_add h x y = Ok (VStr (a ++ show_Z b)).
Proof. exact rt_add_str_num_js. Qed.
Print Assumptions C01_concat_number.

(* same-type comparison and equality *)
Theorem C01_less_numbers : forall x y a b, rep x (JN a) -> rep y (JN b) -> rt_lss x y = Ok (Z.ltb a b).
Proof. exact rt_lss_num_js. Qed.
Print Assumptions C01_less_numbers.

Theorem C01_less_strings : forall x y a b, rep x (JS a) -> rep y (JS b) -> rt_lss x y = Ok (bytes_lt a b).
Proof. exact rt_lss_str_js. Qed.
Print Assumptions C01_less_strings.

Theorem C01_equal_numbers : forall h x y a b, rep x (JN a) -> rep y (JN b) -> rt_eql h x y = Ok (Z.eqb a b).
Proof. exact rt_eql_num_js. Qed.
Print Assumptions C01_equal_numbers.

Theorem C01_equal_strings : forall h x y a b, rep x (JS a) -> rep y (JS b) -> rt_eql h x y = Ok (beqb a b).
Proof. exact rt_eql_str_js. Qed.
Print Assumptions C01_equal_strings.

Theorem C01_equal_booleans : forall h x y a b, rep x (JB a) -> rep y (JB b) -> rt_eql h x y = Ok (Bool.eqb a b).
Proof. exact rt_eql_bool_js. Qed.
Print Assumptions C01_equal_booleans.

(* short-circuit results are the operand itself, not a boolean *)
Theorem C01_and_operand : forall h s x y jx jy, rep x jx -> rep y jy ->
  exists v, rt_and h x [y] = Ok v /\ rep v (if fst (to_boolean s jx) then jy else jx).
Proof. exact rt_and_js. Qed.
Print Assumptions C01_and_operand.

Theorem C01_or_operand : forall h s x y jx jy, rep x jx -> rep y jy ->
  exists v, rt_or h x [y] = Ok v /\ rep v (if fst (to_boolean s jx) then jx else jy).
Proof. exact rt_or_js. Qed.
Print Assumptions C01_or_operand.

(* what is printed for a scalar is JavaScript's ToString of it (null/undefined: nothing) *)
Theorem C01_print : forall h v j s t s',
  rep v j -> j <> JUndef -> print_string s j = SOk (t, s') ->
  (forall z, j = JN z -> in_range z = true) -> print_text h v = Ok t.
Proof. exact text_js. Qed.
Print Assumptions C01_print.

(* ---- composition over arbitrary nesting (scalar fragment); proofs in Proofs/C01EvalProofs.v ---------------------
   [scalar_core funcs e]: literals, template variables, the fifteen core binary operators, ! and unary -, ?: .
   [repu v j]: [rep v j], or v = Nil and j = undefined (an undefined value that went through ?:).
   [env_repu_on (fv e)] / [env_range_on (fv e)]: the variables of e hold values representing S's (repu), numbers in range.
   [dead_quiet fs s e]: the operands S evaluates "for the domain check only" raise no flag either;
   [dead_safe e]: the syntactic condition that implies it — operands that can be dead contain no + . *)
From PV Require Import Base.Escape Tmpl.IR Pug.Ast Pug.Lower Proofs.C01EvalProofs.

(* S alone: on the fragment the state changes by consed flags only *)
Theorem C01_flags_mono : forall funcs fs s e j s',
  scalar_core funcs e = true -> sem_expr fs s e = SOk (j, s') -> exists l, s_flags s' = l ++ s_flags s.
Proof. exact sem_flags_mono. Qed.
Print Assumptions C01_flags_mono.

Theorem C01_state_unchanged : forall funcs fs s e j s',
  scalar_core funcs e = true -> sem_expr fs s e = SOk (j, s') ->
  s_env s' = s_env s /\ s_heap s' = s_heap s /\ s_out s' = s_out s /\ s_grown s' = s_grown s.
Proof. exact sem_unchanged. Qed.
Print Assumptions C01_state_unchanged.

(* the fuel-explicit statement: any expression of the fragment, any fuel F >= need e (5 per operator level,
   7 per ?: level, 1 for a leaf: need e <= 7 * depth e + 1), as an operand and as a stand-alone command *)
Theorem C01_compile_eval_fuel : forall funcs E h e F fs s j s',
  scalar_core funcs e = true -> (need e <= F)%nat ->
  env_repu_on (fv e) (e_vars E) (s_env s) -> env_range_on (fv e) (s_env s) ->
  sem_expr fs s e = SOk (j, s') -> s_flags s' = s_flags s -> dead_quiet fs s e = true ->
  exists t a v,
    carg funcs true e = Some (t, Some a) /\
    eval_operand F E h a = Ok (v, h) /\ eval_cmd F E h [a] VInvalid = Ok (v, h) /\
    repu v j /\ jv_ok j /\
    s_env s' = s_env s /\ s_heap s' = s_heap s /\ s_out s' = s_out s /\ s_grown s' = s_grown s.
Proof. exact compile_eval_fuel. Qed.
Print Assumptions C01_compile_eval_fuel.

Theorem C01_need_depth : forall e, (need e <= 7 * depth e + 1)%nat.
Proof. exact need_depth. Qed.
Print Assumptions C01_need_depth.

(* expr_fuel = 400 is enough for every expression of nesting depth <= 56 (eval_pipeline reaches eval_cmd with 399) *)
Theorem C01_compile_eval : forall funcs E h e fs s j s',
  scalar_core funcs e = true -> (depth e <= 56)%nat ->
  env_repu_on (fv e) (e_vars E) (s_env s) -> env_range_on (fv e) (s_env s) ->
  sem_expr fs s e = SOk (j, s') -> s_flags s' = s_flags s -> dead_quiet fs s e = true ->
  exists t a v,
    carg funcs true e = Some (t, Some a) /\
    eval_cmd (pred expr_fuel) E h [a] VInvalid = Ok (v, h) /\
    eval_cmds expr_fuel E h [[a]] VInvalid = Ok (v, h) /\
    repu v j /\ jv_ok j /\
    s_env s' = s_env s /\ s_heap s' = s_heap s /\ s_out s' = s_out s /\ s_grown s' = s_grown s.
Proof. exact compile_eval. Qed.
Print Assumptions C01_compile_eval.

(* buffered escaped code `= e`: the action wrap_value emits prints escape (print_string j) in any live state *)
Theorem C01_text : forall funcs defs fuel dot st e fs s j s' t s2,
  scalar_core funcs e = true -> (need e < expr_fuel)%nat ->
  env_repu_on (fv e) (e_vars (env_of st dot)) (s_env s) -> env_range_on (fv e) (s_env s) ->
  sem_expr fs s e = SOk (j, s') -> s_flags s' = s_flags s -> dead_quiet fs s e = true ->
  printable j = true -> print_string s' j = SOk (t, s2) ->
  exists tx a,
    carg funcs true e = Some (tx, Some a) /\
    wrap_value false tx a = [TAct (B "{{" ++ tx ++ B " | __pug__html" ++ B "}}") false false
                                  (AcPipe ([], [[a]; [AIdent (B "__pug__html")]]))] /\
    exec_node defs (S fuel) dot st (NAction ([], [[a]; [AIdent (B "__pug__html")]])) = Ok (emit st (escape t)).
Proof. exact text_action. Qed.
Print Assumptions C01_text.

(* the same through cwrap, which emits static text for a literal and `{{op x | __pug__html}}` for ! and unary -.
   [str_single]: since the repair F-C06-f a string literal with a template delimiter in it is written as
   several tokens (text and quoting actions, C06_code_literal); the one-token statement is for the others *)
Theorem C01_text_cwrap : forall funcs defs fuel dot st e fs s j s' t s2 toks,
  scalar_core funcs e = true -> (need e < expr_fuel)%nat ->
  env_repu_on (fv e) (e_vars (env_of st dot)) (s_env s) -> env_range_on (fv e) (s_env s) ->
  sem_expr fs s e = SOk (j, s') -> s_flags s' = s_flags s -> dead_quiet fs s e = true ->
  printable j = true -> print_string s' j = SOk (t, s2) ->
  str_single e = true ->
  cwrap funcs false e = Some toks ->
  exists tk n, toks = [tk] /\ node_of_tok tk = Some n /\
               exec_node defs (S fuel) dot st n = Ok (emit st (escape t)).
Proof. exact text_cwrap. Qed.
Print Assumptions C01_text_cwrap.

(* the hypothesis holds for every literal without a brace in its escaped text, and it is forced *)
Theorem C01_text_cwrap_single : forall s : bytes,
  forallb no_brace (escape s) = true -> str_single (JStr s) = true.
Proof. exact str_single_no_brace. Qed.
Print Assumptions C01_text_cwrap_single.
Theorem C01_text_cwrap_quoted_literal :
  scalar_core [] (JStr (B "a}}")) = true /\ str_single (JStr (B "a}}")) = false /\
  cwrap [] false (JStr (B "a}}")) = Some [TText (B "a"); lit_close].
Proof. exact text_cwrap_quoted_literal. Qed.
Print Assumptions C01_text_cwrap_quoted_literal.

(* the syntactic condition implies the semantic one wherever S answers without a new flag *)
Theorem C01_dead_safe : forall funcs e fs s j s',
  scalar_core funcs e = true -> env_scalar_on (fv e) (s_env s) ->
  sem_expr fs s e = SOk (j, s') -> s_flags s' = s_flags s ->
  dead_safe e = true -> dead_quiet fs s e = true.
Proof. exact dead_safe_dead_quiet. Qed.
Print Assumptions C01_dead_safe.

Theorem C01_compile_eval_safe : forall funcs E h e fs s j s',
  scalar_core funcs e = true -> (depth e <= 56)%nat ->
  env_repu_on (fv e) (e_vars E) (s_env s) -> env_range_on (fv e) (s_env s) ->
  sem_expr fs s e = SOk (j, s') -> s_flags s' = s_flags s -> dead_safe e = true ->
  exists t a v,
    carg funcs true e = Some (t, Some a) /\
    eval_cmd (pred expr_fuel) E h [a] VInvalid = Ok (v, h) /\
    eval_cmds expr_fuel E h [[a]] VInvalid = Ok (v, h) /\
    repu v j /\ jv_ok j /\
    s_env s' = s_env s /\ s_heap s' = s_heap s /\ s_out s' = s_out s /\ s_grown s' = s_grown s.
Proof. exact compile_eval_safe. Qed.
Print Assumptions C01_compile_eval_safe.

(* buffered code over the names in scope, escaped (`= e`) and unescaped (`!= e`), any scalar value
   (null / undefined print nothing; unescaped undefined is the listed deviation F-C11-c and excluded) *)
Theorem C01_print_code : forall funcs names e esc,
  goodS funcs names e = true -> Pug.Lower.printable e = true ->
  forall defs f dot st g g1 j t g2,
    env_repu_on names (f_vars (cur st)) (s_env g) -> env_range_on names (s_env g) ->
    sem_expr efuel g e = SOk (j, g1) -> print_string g1 j = SOk (t, g2) -> s_flags g2 = s_flags g ->
    esc || negb (jv_undef j) = true ->
    exists a,
      Pug.Lower.lexpr funcs (goodS funcs names) e = Some a /\
      exec_node defs (S f) dot st (NAction ([], [a] :: esc_cmds (negb esc))) = Ok (emit st (if esc then escape t else t)) /\
      s_env g2 = s_env g /\ s_out g2 = s_out g.
Proof. exact goodS_print. Qed.
Print Assumptions C01_print_code.
