(* TablesCover — everything the source tables list (Gen/Sigs.v) is known to the model or named as not
   modelled.  Property theorems only; each is closed by [exact] of a lemma from Proofs/SigsCoverProofs.v.
   Not a dependency of any check (a failure means the model is incomplete, not wrong); built by setup.sh. *)
From PV Require Import Base.Bytes Tmpl.Value Tmpl.Runtime Tmpl.Exec Gen.Sigs Proofs.SigsProofs Proofs.SigsCoverProofs.

Theorem TablesCover_helpers :
  forallb (fun n => match lookup n builtin_sigs with
                    | Some _ => true
                    | None => mem n helpers_special || mem n helpers_not_modelled
                    end) source_names = true.
Proof. exact source_helpers_covered. Qed.
Print Assumptions TablesCover_helpers.

Theorem TablesCover_module_methods :
  forallb (fun m =>
    forallb (fun e => match mod_sig m (fst e) with
                      | Some _ => true
                      | None => existsb (fun x => beqb (fst x) m && beqb (snd x) (fst e)) module_methods_not_modelled
                      end) (module_methods_of m)) module_names = true.
Proof. exact module_methods_covered. Qed.
Print Assumptions TablesCover_module_methods.

Theorem TablesCover_array_methods :
  forallb (fun e => match array_sig (fst e) with Some _ => true | None => false end)
          (methods_of (B "*Array")) = true.
Proof. exact array_methods_covered. Qed.
Print Assumptions TablesCover_array_methods.

Theorem TablesCover_string_methods :
  forallb (fun e => match string_sig (fst e) with
                    | Some _ => true
                    | None => mem (fst e) string_methods_not_modelled
                    end) (methods_of (B "String")) = true.
Proof. exact string_methods_covered. Qed.
Print Assumptions TablesCover_string_methods.

Theorem TablesCover_only_array_string_map_dispatch :
  forallb (fun e => let '(r, _, _, _) := e in mem r [B "*Array"; B "String"; B "*Map"]) method_sigs = true.
Proof. exact only_array_string_map_dispatch. Qed.
Print Assumptions TablesCover_only_array_string_map_dispatch.
