(* C16 — The readiness endpoint says ready only after all startup work has ended.
   Property theorems only; each is closed by [exact] of a lemma from Proofs/.
   All of them quantify over every enabled event history [evs] (any number of
   processes, any completion order, any failing subset, probes and waiter
   steps anywhere); [su_reach evs = Some s] says that [evs] is such a history
   and [s] the state it leads to. *)
From PV Require Import Base.Bytes Models.Startup Proofs.StartupProofs.

(* 200 only after Finish was called and every registered process has ended *)
Theorem C16_200_sound : forall evs s,
  su_reach evs = Some s -> probe s = 200%N ->
  finished s = true /\ Forall ended (procs s).
Proof. exact sound_200. Qed.
Print Assumptions C16_200_sound.

(* as long as startup was not finished or some process is still running: 425 *)
Theorem C16_425_otherwise : forall evs s,
  su_reach evs = Some s ->
  (finished s = false \/ exists p, running s p) -> probe s = 425%N.
Proof. exact otherwise_425. Qed.
Print Assumptions C16_425_otherwise.

(* never back from 200 to 425, whatever happens next; nothing more is delivered *)
Theorem C16_monotone : forall evs evs' s s',
  su_reach evs = Some s -> probe s = 200%N ->
  su_reach (evs ++ evs') = Some s' ->
  probe s' = 200%N /\ delivered s' = delivered s.
Proof. exact monotone. Qed.
Print Assumptions C16_monotone.

(* once every process has ended and Finish was called: the waiter step stays
   enabled until 200, only probes and waiter steps can happen, and at most two
   waiter steps (Wait returns; the listener receives) lead to 200 *)
Theorem C16_live : forall evs s,
  su_reach evs = Some s -> finished s = true -> all_ended (procs s) = true ->
  (probe s = 425%N -> exists s1, su_step s WaiterStep = Some s1) /\
  (forall e s1, su_step s e = Some s1 ->
     (e = WaiterStep \/ e = Probe) /\ finished s1 = true /\ all_ended (procs s1) = true) /\
  exists n s', n <= 2 /\ su_reach (evs ++ repeat WaiterStep n) = Some s' /\ probe s' = 200%N.
Proof. exact live. Qed.
Print Assumptions C16_live.

(* the listener has received nothing, or exactly the first error in completion
   order, once; and at 200 it has received it if there is one *)
Theorem C16_first_error_once : forall evs s,
  su_reach evs = Some s ->
  (delivered s = [] \/ exists e, first_error evs = Some e /\ delivered s = [e]) /\
  (probe s = 200%N ->
   delivered s = match first_error evs with Some e => [e] | None => [] end).
Proof. exact first_error_once. Qed.
Print Assumptions C16_first_error_once.

(* the correspondence judge's acceptor only accepts visible traces of model
   runs, so the theorems above apply to every accepted trace *)
Theorem C16_acceptor_sound : forall tr sf,
  run_trace su_init tr = Accepted sf ->
  exists evs, su_reach evs = Some sf /\ observe su_init evs = Some (map vis_of tr, sf).
Proof. exact acceptor_sound. Qed.
Print Assumptions C16_acceptor_sound.

(* how the probe asks (method, query, headers, body, HTTP version, a reused
   connection) does not matter: its client reads [probe s], so every statement
   above holds for every request *)
Theorem C16_answer_of_state_only : forall evs s r,
  su_reach evs = Some s ->
  serve s r = probe s /\
  (forall r', serve s r' = serve s r) /\
  (serve s r = 200%N -> finished s = true /\ Forall ended (procs s)) /\
  ((finished s = false \/ exists p, running s p) -> serve s r = 425%N).
Proof. exact answer_of_state_only. Qed.
Print Assumptions C16_answer_of_state_only.

(* a handler that, for some kind of request, writes its document before the
   status answers 200 to such a request while a process is still running *)
Theorem C16_body_before_status_refuted : forall (wants : request -> bool) r,
  wants r = true ->
  exists evs s, su_reach evs = Some s /\ finished s = false /\ (exists p, running s p) /\
                probe s = 425%N /\ client_status (body_first_ops wants s r) = 200%N.
Proof. exact body_first_refuted. Qed.
Print Assumptions C16_body_before_status_refuted.
