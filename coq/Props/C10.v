(* C10 — Template loading: every AST file addressable; loads atomic and concurrency-safe.
   Property theorems only; each is closed by [exact] of a lemma from Proofs/LoaderProofs.v.

   Vocabulary (Models/Loader.v): a file tree [t : fstree] (None = template/page missing); [tnames t] the
   (name, file) pairs of its *.ast.json files (S); [compile_dir debug flt t] the loader (M);
   [reach debug ops t0 evs] the engine state after the schedule [evs] (any interleaving of steps of the
   calls [ops i] between yield points [EStep i], of steps from one compiled file to the next inside a
   load [ECompile i], and of replacements of the file tree [EFs t]) from a new engine over [t0]; [pcs s i = PDone r]:
   call i has returned r.  All statements hold for every [ops : nat -> op] (any number of calls) and
   every schedule. *)
From PV Require Import Base.Bytes Models.Loader Proofs.LoaderProofs.

(* ---- names *)

(* after a successful full load, looking a name up answers exactly what the tree says: the template
   compiled from the file of that name, "not found" for every other name; both modes *)
Theorem C10_names : forall debug t m n,
  dom_fs t = true -> compile_dir debug [] t = COk m ->
  lookup_result n (Some m) = spec_render debug t n.
Proof. exact names_render. Qed.
Print Assumptions C10_names.

(* ... where the specification's answer is the output of the file with exactly that relative path
   (never another template's) ... *)
Theorem C10_names_found : forall debug t n out,
  dom_fs t = true ->
  (spec_render debug t n = ROk out <->
   exists k, In (n, k) (tnames t) /\ compile_file debug k = COk out).
Proof. exact spec_render_found. Qed.
Print Assumptions C10_names_found.

(* ... and a name that is not the relative path of a *.ast.json file is not found *)
Theorem C10_names_unknown : forall debug t n,
  (forall k, ~ In (n, k) (tnames t)) -> spec_render debug t n = RNotFound.
Proof. exact spec_render_unknown. Qed.
Print Assumptions C10_names_unknown.

(* a filtered load yields the same templates, restricted to the names the filter is a prefix of *)
Theorem C10_names_filtered : forall debug flt t m,
  dom_fs t = true -> compile_dir debug flt t = COk m ->
  forall n, lookup n m = if prefixb flt n then spec_find debug t n else None.
Proof. exact names_exact. Qed.
Print Assumptions C10_names_filtered.

(* a load succeeds iff the page directory exists and every template file the filter selects compiles;
   a failure comes from a selected file of that failure kind (or the missing directory) *)
Theorem C10_load_succeeds_iff : forall debug flt t,
  (exists m, compile_dir debug flt t = COk m) <-> good_under debug flt t = true.
Proof. exact compile_dir_ok_iff. Qed.
Print Assumptions C10_load_succeeds_iff.

Theorem C10_load_failure_has_cause : forall debug flt t,
  match compile_dir debug flt t with
  | COk _ => True
  | CErr => t = None \/ fails_with debug flt (tnames t) CErr
  | CPanic => fails_with debug flt (tnames t) CPanic
  end.
Proof. exact compile_dir_fail. Qed.
Print Assumptions C10_load_failure_has_cause.

(* ---- atomicity: all modes, all calls, all schedules *)

(* the write lock is held exactly by the call inside a load, by at most one call, and the engine is
   never marked loaded without a template set unless a load is in progress *)
Theorem C10_loads_atomic : forall debug ops t0 evs,
  let s := reach debug ops t0 evs in
  (forall i, pcs s i = PLocked <-> wlock s = Some i) /\
  (forall i j, pcs s i = PLocked -> pcs s j = PLocked -> i = j) /\
  (wlock s = None -> loaded s = true -> tpls s <> None).
Proof. exact lock_reach. Qed.
Print Assumptions C10_loads_atomic.

(* no deadlock: a call that has not returned can step, or the call holding the lock can *)
Theorem C10_no_deadlock : forall debug ops t0 evs i,
  let s := reach debug ops t0 evs in
  (forall r, pcs s i <> PDone r) ->
  (exists s', step debug ops s i = Some s') \/
  (exists j s', wlock s = Some j /\ pcs s j = PLocked /\ step debug ops s j = Some s').
Proof. exact no_deadlock_reach. Qed.
Print Assumptions C10_no_deadlock.

(* every call returns after at most four steps of its own plus one per template file of the load it
   makes (N bounds the number of template files of every tree of the history), whatever the schedule *)
Theorem C10_calls_terminate : forall debug ops t0 evs i N,
  length (tnames t0) <= N -> trees_le N evs ->
  eff_steps debug ops (init t0) evs i <= N + 4.
Proof. exact steps_bounded_reach. Qed.
Print Assumptions C10_calls_terminate.

(* ---- a load is a long operation: the steps inside it *)

(* while a call is inside a load - parked at "load:locked" or compiling any of its files - every other
   call waits: its step is refused; only the flag test of a production render can still be passed, and
   that render is then refused as well: at the lookup if the flag was set (always so when the load in
   progress is a load of all templates), for the lock if it was not (a filtered load on an engine that has
   not loaded yet).  In particular no call returns anything during a load *)
Theorem C10_waits_for_load : forall debug ops t0 evs j i,
  let s := reach debug ops t0 evs in
  pcs s j = PLocked -> i <> j ->
  step debug ops s i = None \/
  (debug = false /\ pcs s i = PStart /\ (exists n, ops i = ORender n) /\
   let p := if loaded s then PAfterLoad else PAfterCheck in
   step debug ops s i = Some (set_pc s i p) /\
   step debug ops (set_pc s i p) i = None /\
   (is_empty (filter_of debug (ops j)) = true -> p = PAfterLoad)).
Proof. exact waits_for_load. Qed.
Print Assumptions C10_waits_for_load.

(* a compile step (the load goes on to its next file) changes nothing but the progress counter; the one
   after the last file ends the load exactly like the plain step *)
Theorem C10_compile_step : forall debug ops s i,
  pcs s i = PLocked ->
  let s' := apply_ev debug ops s (ECompile i) in
  (prog s < load_calls debug (filter_of debug (ops i)) (fs s) ->
     same_core s' s /\ prog s' = S (prog s)) /\
  (load_calls debug (filter_of debug (ops i)) (fs s) <= prog s ->
     s' = finish_load debug ops s i).
Proof. exact compile_step_alone. Qed.
Print Assumptions C10_compile_step.

(* a load of a tree that compiles under the filter calls FuncProvider once per selected template file *)
Theorem C10_load_calls : forall debug f t,
  good_under debug f t = true ->
  load_calls debug f t = length (filter (fun nk => prefixb f (fst nk)) (tnames t)).
Proof. exact load_calls_good. Qed.
Print Assumptions C10_load_calls.

(* the yield-point granularity covers the compile steps: every schedule, compile steps included, reaches
   the state (up to the progress counter) of a schedule without compile steps - each one dropped or, if it
   ends the load, replaced by the plain step - so every theorem about reachable states below holds at every
   moment of every load *)
Theorem C10_compile_steps_refine : forall debug ops t0 evs,
  let evs' := erase debug ops (init t0) evs in
  Forall no_compile_ev evs' /\ same_core (reach debug ops t0 evs') (reach debug ops t0 evs).
Proof. exact compile_erase_reach. Qed.
Print Assumptions C10_compile_steps_refine.

(* ---- production mode *)

(* load once: for every schedule of renders, full explicit loads and arbitrary file edits, a template set
   in place is the compile of the tree as it was at one moment of the history, it is never replaced
   afterwards, and every render that returned output read it from that set *)
Theorem C10_prod_once : forall ops t0 evs,
  full_loads ops ->
  let s := reach false ops t0 evs in
  (forall m, tpls s = Some m ->
     (exists evs1 evs2, evs = evs1 ++ evs2 /\
                        compile_dir false [] (fs (reach false ops t0 evs1)) = COk m) /\
     (forall more, tpls (run false ops s more) = Some m)) /\
  (forall i n out, ops i = ORender n -> pcs s i = PDone (ROk out) ->
     exists m, tpls s = Some m /\ lookup n m = Some out).
Proof. exact prod_once_reach. Qed.
Print Assumptions C10_prod_once.

(* cold start: however many first renders and explicit loads - loads of all templates AND filtered loads
   of a template, a directory prefix or a missing name - arrive, in every interleaving, on a tree that
   compiles: every render answers as the specification says (its template, or not found for an unknown
   name); an explicit load succeeds, or, if it is a load of all templates, is told "again" *)
Theorem C10_prod_cold_start_all_succeed : forall ops t0 evs,
  dom_fs t0 = true -> good_under false [] t0 = true -> no_edits evs ->
  forall i r, pcs (reach false ops t0 evs) i = PDone r ->
    match ops i with
    | ORender n => r = spec_render false t0 n
    | OLoad f => r = RLoaded \/ (r = RAgain /\ is_empty f = true)
    end.
Proof. exact cold_start_fixed_any. Qed.
Print Assumptions C10_prod_cold_start_all_succeed.

(* filtered loads first: after ANY history in which only filtered explicit loads have been started (any
   number, any interleaving, succeeding or failing, any file edits in between) the engine is not marked
   loaded, and the first render - or the first load of all templates - loads everything from the tree as
   it is then: exactly the compile of that tree is in place and answers the render; the filtered loads
   before it change nothing about that *)
Theorem C10_prod_filtered_first_harmless : forall ops t0 evs j t' m,
  let s := reach false ops t0 evs in
  (forall i, pcs s i <> PStart -> exists f, ops i = OLoad f /\ is_empty f = false) ->
  wlock s = None -> pcs s j = PStart -> compile_dir false [] t' = COk m ->
  (forall n, ops j = ORender n ->
     let s4 := run false ops (set_fs s t') [EStep j; EStep j; EStep j; EStep j] in
     pcs s4 j = PDone (lookup_result n (Some m)) /\ tpls s4 = Some m /\ loaded s4 = true /\ wlock s4 = None) /\
  (ops j = OLoad [] ->
     let s2 := run false ops (set_fs s t') [EStep j; EStep j] in
     pcs s2 j = PDone RLoaded /\ tpls s2 = Some m /\ loaded s2 = true /\ wlock s2 = None).
Proof. exact filtered_first_harmless. Qed.
Print Assumptions C10_prod_filtered_first_harmless.

Theorem C10_prod_only_filtered_not_loaded : forall ops t0 evs,
  let s := reach false ops t0 evs in
  (forall i, pcs s i <> PStart -> exists f, ops i = OLoad f /\ is_empty f = false) ->
  loaded s = false.
Proof. exact only_filtered_not_loaded. Qed.
Print Assumptions C10_prod_only_filtered_not_loaded.

(* a load of all templates - explicit, or by a first render in production mode - at any moment of any
   history, whatever filtered or other loads put in place before: when it ends, exactly the files of the
   tree version it saw are renderable, each under its name, every other name not found; both modes *)
Theorem C10_full_load_exact : forall debug ops s i m,
  pcs s i = PLocked -> is_empty (filter_of debug (ops i)) = true ->
  compile_dir debug [] (fs s) = COk m ->
  step debug ops s i = Some (finish_load debug ops s i) /\
  tpls (finish_load debug ops s i) = Some m /\
  (dom_fs (fs s) = true ->
   forall n, lookup_result n (tpls (finish_load debug ops s i)) = spec_render debug (fs s) n).
Proof. exact full_load_exact. Qed.
Print Assumptions C10_full_load_exact.

(* the counter-model: the machine before repair dd313c0, in which every load - a filtered one too - marks
   the engine loaded.  A filtered load as the FIRST load of a production engine leaves every template
   outside the filter "not found"; the repaired machine answers the same schedule as the specification says *)
Theorem C10_filtered_first_unrepaired_refuted :
  exists ops t0 evs i n r,
    dom_fs t0 = true /\ good_under false [] t0 = true /\ no_edits evs /\
    ops i = ORender n /\ pcs (reach_u false ops t0 evs) i = PDone r /\ r <> spec_render false t0 n /\
    pcs (reach false ops t0 evs) i = PDone (spec_render false t0 n).
Proof. exact filtered_first_unrepaired_refuted. Qed.
Print Assumptions C10_filtered_first_unrepaired_refuted.

(* the same with file edits during the cold start, as long as every version of the tree compiles:
   every render answers from the one template set *)
Theorem C10_prod_cold_start_with_edits : forall ops t0 evs,
  full_loads ops -> good_under false [] t0 = true -> Forall good_ev evs ->
  let s := reach false ops t0 evs in
  forall i r, pcs s i = PDone r ->
    match ops i with
    | ORender n => exists m, tpls s = Some m /\ r = lookup_result n (Some m)
    | OLoad _ => r = RLoaded \/ r = RAgain
    end.
Proof. exact cold_start_good_histories. Qed.
Print Assumptions C10_prod_cold_start_with_edits.

(* forced hypotheses: "never replaced" (C10_prod_once) needs full_loads - an explicit filtered load after the
   load of all templates re-reads the files under its filter, which is what it is for; the cold start on a
   tree that does not compile does not make every render succeed *)
Theorem C10_prod_once_filtered_refuted :
  exists ops t0 evs more m,
    tpls (reach false ops t0 evs) = Some m /\
    tpls (run false ops (reach false ops t0 evs) more) <> Some m /\
    results (run false ops (reach false ops t0 evs) more) 3
    = [PDone (ROk (B "OLD")); PDone RLoaded; PDone (ROk (B "NEW"))].
Proof. exact prod_once_filtered_refuted. Qed.
Print Assumptions C10_prod_once_filtered_refuted.

Theorem C10_prod_cold_start_bad_tree_refuted :
  exists ops t0 evs i n r,
    full_loads ops /\ dom_fs t0 = true /\ no_edits evs /\
    ops i = ORender n /\ pcs (reach false ops t0 evs) i = PDone r /\
    spec_render false t0 n = ROk (B "A") /\ r = RNotFound.
Proof. exact cold_start_bad_tree_refuted. Qed.
Print Assumptions C10_prod_cold_start_bad_tree_refuted.

(* ---- debug mode *)

(* freshness: after ANY history (any calls, interleavings, edits), a render that runs without
   interruption reflects the file as it is now; if a file under its name prefix does not compile it
   reports that failure and leaves the engine able to load *)
Theorem C10_debug_fresh : forall ops s i n,
  wlock s = None -> pcs s i = PStart -> ops i = ORender n -> is_empty n = false ->
  dom_fs (fs s) = true ->
  let s3 := run true ops s [EStep i; EStep i; EStep i] in
  match compile_dir true n (fs s) with
  | COk _ => pcs s3 i = PDone (spec_render true (fs s) n)
  | CErr => pcs s3 i = PDone RLoadErr /\ loaded s3 = false /\ wlock s3 = None /\ tpls s3 = tpls s
  | CPanic => pcs s3 i = PDone RLoadPanic /\ loaded s3 = false /\ wlock s3 = None /\ tpls s3 = tpls s
  end.
Proof. exact debug_fresh. Qed.
Print Assumptions C10_debug_fresh.

(* no hiding: any number of concurrent renders of any templates (prefixes of each other included) and
   explicit loads, every interleaving: every render answers as the specification says *)
Theorem C10_debug_no_hiding_partial : forall ops t0 evs,
  dom_fs t0 = true -> good_under true [] t0 = true ->
  (forall i n, ops i = ORender n -> is_empty n = false) -> no_edits evs ->
  forall i n r, ops i = ORender n -> pcs (reach true ops t0 evs) i = PDone r ->
    r = spec_render true t0 n.
Proof. exact debug_no_hiding. Qed.
Print Assumptions C10_debug_no_hiding_partial.

(* forced hypothesis: Render of the empty name is a full load and is refused the second time *)
Theorem C10_debug_empty_name_refuted :
  exists ops t0 evs i n r,
    dom_fs t0 = true /\ good_under true [] t0 = true /\ no_edits evs /\
    ops i = ORender n /\ pcs (reach true ops t0 evs) i = PDone r /\ r <> spec_render true t0 n.
Proof. exact debug_empty_name_refuted. Qed.
Print Assumptions C10_debug_empty_name_refuted.

(* ---- both modes, any calls (filtered loads included), any schedule, any file edits *)

(* what a render prints was, at some moment of the history, what the file of exactly that name compiles
   to: never another template's output, never something that was in no version of the tree *)
Theorem C10_rendered_was_content : forall debug ops t0 evs,
  (forall t, In t (t0 :: trees_of evs) -> dom_fs t = true) ->
  forall i n out, ops i = ORender n -> pcs (reach debug ops t0 evs) i = PDone (ROk out) ->
    exists t, In t (t0 :: trees_of evs) /\ spec_find debug t n = Some out.
Proof. exact rendered_was_content. Qed.
Print Assumptions C10_rendered_was_content.

(* ---- failed loads *)

(* a load that fails - by an error OR by a panic -, in any mode, at any point of any history: the failure is
   what the call returns, the loaded flag is reset, the lock is released, the template set is untouched;
   and then an explicit load (both modes) or the next render (production mode) of a repaired tree succeeds *)
Theorem C10_failed_load_recoverable : forall debug ops t0 evs i r,
  let s := reach debug ops t0 evs in
  pcs s i = PLocked ->
  (compile_dir debug (filter_of debug (ops i)) (fs s) = CErr /\ r = RLoadErr) \/
  (compile_dir debug (filter_of debug (ops i)) (fs s) = CPanic /\ r = RLoadPanic) ->
  exists s', step debug ops s i = Some s' /\
    pcs s' i = PDone r /\ loaded s' = false /\ wlock s' = None /\ tpls s' = tpls s /\
    (forall j t' m, pcs s' j = PStart -> ops j = OLoad [] -> compile_dir debug [] t' = COk m ->
       let s2 := run debug ops (set_fs s' t') [EStep j; EStep j] in
       pcs s2 j = PDone RLoaded /\ tpls s2 = Some m /\ loaded s2 = true /\ wlock s2 = None) /\
    (debug = false -> forall j n t' m, pcs s' j = PStart -> ops j = ORender n ->
       compile_dir false [] t' = COk m ->
       let s4 := run false ops (set_fs s' t') [EStep j; EStep j; EStep j; EStep j] in
       pcs s4 j = PDone (lookup_result n (Some m)) /\ tpls s4 = Some m).
Proof. exact failed_load_recoverable. Qed.
Print Assumptions C10_failed_load_recoverable.

(* whatever happened before: lock free and no template set in place => a full load of a tree that
   compiles succeeds (there is no reachable state "marked loaded, nothing loaded") *)
Theorem C10_recover_any_time : forall debug ops t0 evs j t' m,
  let s := reach debug ops t0 evs in
  wlock s = None -> tpls s = None -> pcs s j = PStart -> ops j = OLoad [] ->
  compile_dir debug [] t' = COk m ->
  let s2 := run debug ops (set_fs s t') [EStep j; EStep j] in
  pcs s2 j = PDone RLoaded /\ tpls s2 = Some m /\ loaded s2 = true /\ wlock s2 = None.
Proof. exact recover_any_time. Qed.
Print Assumptions C10_recover_any_time.
