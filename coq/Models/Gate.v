(* C09 model: the render rate limit of Engine.Render (pugjs/engine.go).

     func WithRateLimit(n) : n <= 0 -> e.ratelimit = nil (cap 0, disabled)
                             else     e.ratelimit = make(chan struct{}, n)
     func (e *Engine) Inject(cfg{RateLimit float64}) = applyOptions(WithRateLimit(int(cfg.RateLimit)))
     func (e *Engine) GetRateLimit() int = cap(e.ratelimit)

     func (e *Engine) Render(ctx, name, data) (io.Reader, error) {
         if cap(e.ratelimit) > 0 {
             select {
             case <-ctx.Done():            return nil, error      // Cancel r  (takes no slot; needs an ended context)
             case e.ratelimit <- struct{}{}:                      // Enter r   (needs a free slot)
             }
             defer func() { <-e.ratelimit }()                     // Leave r _ (every way out)
         }
         ... template lookup (not found -> return error), execution
             (a failing template function panics out of Render) ...
         return result, nil
     }

   M.  One render is at one of three places: at the select ([waiting]), past the
   gate ([inflight]) or gone.  The buffered channel holds exactly one token per
   render in flight, so "the send is possible" is [length inflight < cap].  With
   cap = 0 the whole block is skipped: a started render is in flight at once.
   Which of several waiting renders enters next is decided by the Go runtime;
   the model is therefore an ACCEPTOR of observed traces, not a scheduler.
   Render identifiers are fresh per call ([used]).

   Contexts.  [ended] holds the renders whose context is over: a render may be
   STARTED with a context that is already cancelled or past its deadline
   ([Start r true]), or its context ends later ([CtxEnd r], at any moment: while
   it waits, while another render hands its slot back, while it is in flight or
   after it is gone).  [<-ctx.Done()] is ready exactly for an ended context, so
   [Cancel r] needs [r] in [ended]; the send is ready exactly when a slot is
   free.  When both are ready Go's select is free to choose: the acceptor allows
   [Cancel r] (error, no slot) as well as [Enter r] (slot taken, handed back by
   the deferred receive at [Leave r _]).  Nothing else is allowed: in particular
   there is no step that makes a render go away while it keeps a slot - a caller
   that got the context error never entered (theorems C09_ended_start,
   C09_cancel_release_race, C09_no_leak).  With cap = 0 Render never looks at
   the context: [Start r true] is in flight at once like any other.

   Rounds.  The engine keeps nothing but the channel.  When every render that
   was started has left or got the context error the channel is empty again:
   what the acceptor still remembers ([used], [ended]) are names, not state of
   the engine.  A further history whose renders are named past the used ones
   ([shift d], d above every name used so far) is therefore accepted exactly as
   the same history is accepted by a new gate (C09_round_reset).  The
   correspondence check uses this for ROUNDS: small histories repeated many
   times on one engine, each judged on its own with names from 1.

   S.  What the property demands is stated on the trace alone (functions
   [started], [entered], [left_of], [cancelled_of], [entered_not_left],
   [all_started_done]); the theorems in Proofs/GateProofs.v relate the two. *)
From PV Require Import Base.Bytes.

Definition rid := nat.

Inductive outcome := o_ok | o_not_found | o_func_error | o_panic.

Inductive gate_event :=
| Start  (r : rid) (over : bool)  (* Render called; [over]: with a context that is already cancelled / expired *)
| CtxEnd (r : rid)                (* the context of a started render ends (cancel or deadline) *)
| Enter  (r : rid)                (* the send on the channel succeeded *)
| Leave  (r : rid) (o : outcome)  (* Render returned or panicked: the deferred receive ran *)
| Cancel (r : rid).               (* ctx.Done() won the select: error returned, no slot taken *)

Record gate_state := mk_gate {
  cap      : nat;
  inflight : list rid;
  waiting  : list rid;
  used     : list rid;
  ended    : list rid;   (* renders whose context is over *)
}.

(* WithRateLimit n on a new engine; GetRateLimit reads [cap] back *)
Definition gate_init (n : nat) : gate_state := mk_gate n [] [] [] [].
Definition get_rate_limit (s : gate_state) : nat := cap s.

Definition memr (r : rid) (l : list rid) : bool := existsb (Nat.eqb r) l.
Definition del (r : rid) (l : list rid) : list rid := filter (fun x => negb (Nat.eqb r x)) l.

Definition gate_step (s : gate_state) (e : gate_event) : option gate_state :=
  match e with
  | Start r over =>
    let en := if over then r :: ended s else ended s in
    if memr r (used s) then None
    else if cap s =? 0
         then Some (mk_gate (cap s) (inflight s ++ [r]) (waiting s) (r :: used s) en)
         else Some (mk_gate (cap s) (inflight s) (waiting s ++ [r]) (r :: used s) en)
  | CtxEnd r =>
    if memr r (used s)
    then Some (mk_gate (cap s) (inflight s) (waiting s) (used s) (r :: ended s))
    else None
  | Enter r =>
    if memr r (waiting s) && (length (inflight s) <? cap s)
    then Some (mk_gate (cap s) (inflight s ++ [r]) (del r (waiting s)) (used s) (ended s))
    else None
  | Leave r _ =>
    if memr r (inflight s)
    then Some (mk_gate (cap s) (del r (inflight s)) (waiting s) (used s) (ended s))
    else None
  | Cancel r =>
    if memr r (waiting s) && memr r (ended s)
    then Some (mk_gate (cap s) (inflight s) (del r (waiting s)) (used s) (ended s))
    else None
  end.

Definition step_opt (s : option gate_state) (e : gate_event) : option gate_state :=
  match s with Some s => gate_step s e | None => None end.

Definition run (s : option gate_state) (evs : list gate_event) : option gate_state :=
  fold_left step_opt evs s.

Definition reach (n : nat) (evs : list gate_event) : option gate_state :=
  run (Some (gate_init n)) evs.

(* ---------------------------------------------------------------- S: the trace alone *)

Definition started (evs : list gate_event) : list rid :=
  flat_map (fun e => match e with Start r _ => [r] | _ => [] end) evs.

(* renders whose context is over: started so, or ended later *)
Definition ended_of (evs : list gate_event) : list rid :=
  flat_map (fun e => match e with Start r true => [r] | CtxEnd r => [r] | _ => [] end) evs.

(* a render is past the gate by an Enter, or - limit disabled - by being started *)
Definition entered (n : nat) (evs : list gate_event) : list rid :=
  flat_map (fun e => match e with
                     | Enter r => [r]
                     | Start r _ => if n =? 0 then [r] else []
                     | _ => []
                     end) evs.

Definition left_of (evs : list gate_event) : list rid :=
  flat_map (fun e => match e with Leave r _ => [r] | _ => [] end) evs.

Definition cancelled_of (evs : list gate_event) : list rid :=
  flat_map (fun e => match e with Cancel r => [r] | _ => [] end) evs.

Definition entered_not_left (n : nat) (evs : list gate_event) : list rid :=
  filter (fun r => negb (memr r (left_of evs))) (entered n evs).

Definition started_not_entered_not_cancelled (n : nat) (evs : list gate_event) : list rid :=
  filter (fun r => negb (memr r (entered n evs)) && negb (memr r (cancelled_of evs))) (started evs).

Definition all_started_done (evs : list gate_event) : Prop :=
  forall r, In r (started evs) -> In r (left_of evs) \/ In r (cancelled_of evs).

Definition all_started_doneb (evs : list gate_event) : bool :=
  forallb (fun r => memr r (left_of evs) || memr r (cancelled_of evs)) (started evs).

(* the refill: [rs] all start (live contexts), then all enter *)
Definition refill (rs : list rid) : list gate_event :=
  map (fun r => Start r false) rs ++ map Enter rs.

(* a history with every render name moved up by [d] *)
Definition shift (d : nat) (e : gate_event) : gate_event :=
  match e with
  | Start r b => Start (d + r) b
  | CtxEnd r => CtxEnd (d + r)
  | Enter r => Enter (d + r)
  | Leave r o => Leave (d + r) o
  | Cancel r => Cancel (d + r)
  end.

(* what is to be seen of two gates is the same up to the names moved by [d]: both
   rejected, or the same limit and the same renders in flight and waiting *)
Definition same_upto (d : nat) (a b : option gate_state) : Prop :=
  match a, b with
  | Some a, Some b => cap b = cap a /\ inflight b = map (Nat.add d) (inflight a)
                      /\ waiting b = map (Nat.add d) (waiting a)
  | None, None => True
  | _, _ => False
  end.

(* ---------------------------------------------------------------- requests

   A render is not only started by a call of Engine.Render.

     func (e *Engine) RenderPartials(ctx, name, data, partials) (map[string]io.Reader, error) {
         for _, partial := range partials {
             buf, err := e.Render(ctx, name+".partial/"+partial, data)   // one gated render per partial
             if err != nil { return nil, err }                           // missing partial, context error
             res[partial] = buf
         }
         return res, nil                // (a failing template function panics out of Render and of this loop)
     }

   A REQUEST [q] is a call of Render (one render) or of RenderPartials (one
   render per partial, one after the other, all with the request's context).
   Each of its renders is a render of the gate above with a name of its own;
   [cur] maps a request in progress to its render that is at the gate or in
   flight.  The request machine adds nothing to the gate: every request event
   is carried out by the gate events [emit] gives (RNext: the deferred receive
   of the render that returned its result, then the Render call for the next
   partial - with a context that is over if the request's context ended
   meanwhile), and [trace] keeps the gate events so far (newest first), so that
   every accepted request history IS an accepted gate history
   (C09_requests_refine) and all the theorems above hold for it.

   Engine.Debug.  In debug mode Render reloads its template after the gate
   block (LoadTemplates(name) under the engine's lock, released again before
   the template executes); the gate block itself does not look at the mode.
   The model therefore has no mode: the same machine is the model of an engine
   with Debug = true and with Debug = false. *)

Inductive req_event :=
| RCall   (q r : rid) (over : bool)  (* Render / RenderPartials called; [r] names its first render *)
| REnd    (q : rid)                  (* the context of the request ends *)
| REnter  (q : rid)                  (* its render at the gate gets the slot *)
| RNext   (q r' : rid)               (* its render in flight returned a result: slot handed back, Render called
                                        for the next partial, named [r'] *)
| RReturn (q : rid) (o : outcome)    (* its render in flight was the last one / failed / panicked: slot handed
                                        back, the request is over *)
| RError  (q : rid).                 (* ctx.Done() won the select of its render at the gate: the request returns
                                        the error *)

Record req_state := mk_req {
  gate  : gate_state;
  cur   : list (rid * rid);   (* request in progress, its render at the gate / in flight *)
  qused : list rid;           (* request names used so far *)
  qover : list rid;           (* requests whose context is over *)
  trace : list gate_event;    (* the gate events carried out so far, newest first *)
}.

Definition req_init (n : nat) : req_state := mk_req (gate_init n) [] [] [] [].

Definition lookup (q : rid) (l : list (rid * rid)) : option rid :=
  match find (fun p => Nat.eqb q (fst p)) l with Some p => Some (snd p) | None => None end.

Definition drop (q : rid) (l : list (rid * rid)) : list (rid * rid) :=
  filter (fun p => negb (Nat.eqb q (fst p))) l.

(* the gate events that carry out a request event *)
Definition emit (s : req_state) (e : req_event) : option (list gate_event) :=
  match e with
  | RCall q r over => if memr q (qused s) then None else Some [Start r over]
  | REnd q =>
    match lookup q (cur s) with
    | Some r => Some [CtxEnd r]
    | None => if memr q (qused s) then Some [] else None    (* the request is over already: nothing at the gate *)
    end
  | REnter q => match lookup q (cur s) with Some r => Some [Enter r] | None => None end
  | RNext q r' =>
    match lookup q (cur s) with
    | Some r => Some [Leave r o_ok; Start r' (memr q (qover s))]
    | None => None
    end
  | RReturn q o => match lookup q (cur s) with Some r => Some [Leave r o] | None => None end
  | RError q => match lookup q (cur s) with Some r => Some [Cancel r] | None => None end
  end.

Definition req_step (s : req_state) (e : req_event) : option req_state :=
  match emit s e with
  | None => None
  | Some evs =>
    match run (Some (gate s)) evs with
    | None => None
    | Some g =>
      let tr := rev evs ++ trace s in
      Some match e with
           | RCall q r over =>
             mk_req g ((q, r) :: cur s) (q :: qused s) (if over then q :: qover s else qover s) tr
           | REnd q => mk_req g (cur s) (qused s) (q :: qover s) tr
           | REnter q => mk_req g (cur s) (qused s) (qover s) tr
           | RNext q r' => mk_req g ((q, r') :: drop q (cur s)) (qused s) (qover s) tr
           | RReturn q _ | RError q => mk_req g (drop q (cur s)) (qused s) (qover s) tr
           end
    end
  end.

Definition req_step_opt (s : option req_state) (e : req_event) : option req_state :=
  match s with Some s => req_step s e | None => None end.

Definition req_run (s : option req_state) (evs : list req_event) : option req_state :=
  fold_left req_step_opt evs s.

Definition req_reach (n : nat) (evs : list req_event) : option req_state :=
  req_run (Some (req_init n)) evs.

(* what is to be seen of the requests: those whose render is in flight (a template
   of theirs is executing), those whose render is at the gate *)
Definition q_inside (s : req_state) : list rid :=
  map fst (filter (fun p => memr (snd p) (inflight (gate s))) (cur s)).
Definition q_waiting (s : req_state) : list rid :=
  map fst (filter (fun p => memr (snd p) (waiting (gate s))) (cur s)).

(* the requests that got the context error *)
Definition req_errors (evs : list req_event) : list rid :=
  flat_map (fun e => match e with RError q => [q] | _ => [] end) evs.

(* same members (used by the judge to compare observed and model sets) *)
Definition same_set (a b : list rid) : bool :=
  forallb (fun x => memr x b) a && forallb (fun x => memr x a) b.
