(* C17 model: Engine.RenderPartials (pugjs/engine.go).

     res := make(map[string]io.Reader, len(partials))
     for _, partial := range partials {
         buf, err := e.Render(ctx, templateName+".partial/"+partial, data)
         if err != nil { return nil, err }
         res[partial] = buf
     }
     return res, nil

   [render] stands for Engine.Render with the call's data: an arbitrary
   function from template name to Some output | None (error).  The Go map is
   an association list with Go's assignment semantics ([insert]). *)
From PV Require Import Base.Bytes.

Section Partials.
  Variable render : bytes -> option bytes.

  Definition partial_name (t p : bytes) : bytes := t ++ B ".partial/" ++ p.

  Fixpoint rp_loop (t : bytes) (ps : list bytes) (acc : list (bytes * bytes))
    : option (list (bytes * bytes)) :=
    match ps with
    | [] => Some acc
    | p :: r =>
      match render (partial_name t p) with
      | None => None
      | Some b => rp_loop t r (insert p b acc)
      end
    end.

  Definition render_partials (t : bytes) (ps : list bytes) := rp_loop t ps [].
End Partials.

(* maps compared as maps *)
Definition map_equiv (m m' : list (bytes * bytes)) : Prop :=
  forall k, lookup k m = lookup k m'.

Definition res_equiv (r r' : option (list (bytes * bytes))) : Prop :=
  match r, r' with
  | None, None => True
  | Some m, Some m' => map_equiv m m'
  | _, _ => False
  end.
