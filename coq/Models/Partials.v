(* C17 model: Engine.RenderPartials (pugjs/engine.go).

     res := make(map[string]io.Reader, len(partials))
     for _, partial := range partials {
         buf, err := e.Render(ctx, templateName+".partial/"+partial, data)
         if err != nil { return nil, err }
         res[partial] = buf
     }
     return res, nil

   [render] stands for Engine.Render with the call's data: an arbitrary
   function from template name to Some output | None (error).  The Go map is
   an association list with Go's assignment semantics ([insert]). *)
From PV Require Import Base.Bytes.

Section Partials.
  Variable render : bytes -> option bytes.

  Definition partial_name (t p : bytes) : bytes := t ++ B ".partial/" ++ p.

  Fixpoint rp_loop (t : bytes) (ps : list bytes) (acc : list (bytes * bytes))
    : option (list (bytes * bytes)) :=
    match ps with
    | [] => Some acc
    | p :: r =>
      match render (partial_name t p) with
      | None => None
      | Some b => rp_loop t r (insert p b acc)
      end
    end.

  Definition render_partials (t : bytes) (ps : list bytes) := rp_loop t ps [].
End Partials.

(* The same loop over an engine WITH STATE that survives between calls (compiled
   template set / templatesLoaded, whatever an earlier Render or RenderPartials
   call left behind, the data object a partial was handed): [renderS] takes the
   state before the call and returns the state after it with the result. *)
Section PartialsState.
  Variable St : Type.
  Variable renderS : St -> bytes -> St * option bytes.

  Fixpoint rp_loopS (s : St) (t : bytes) (ps : list bytes) (acc : list (bytes * bytes))
    : St * option (list (bytes * bytes)) :=
    match ps with
    | [] => (s, Some acc)
    | p :: r =>
      match renderS s (partial_name t p) with
      | (s', None) => (s', None)
      | (s', Some b) => rp_loopS s' t r (insert p b acc)
      end
    end.

  Definition render_partialsS (s : St) (t : bytes) (ps : list bytes) := rp_loopS s t ps [].

  (* earlier calls on the same engine *)
  Inductive call :=
  | CRender (name : bytes)
  | CPartials (t : bytes) (ps : list bytes).

  Definition do_call (s : St) (c : call) : St :=
    match c with
    | CRender n => fst (renderS s n)
    | CPartials t ps => fst (render_partialsS s t ps)
    end.

  Definition after (s : St) (h : list call) : St := fold_left do_call h s.
End PartialsState.

(* maps compared as maps *)
Definition map_equiv (m m' : list (bytes * bytes)) : Prop :=
  forall k, lookup k m = lookup k m'.

Definition res_equiv (r r' : option (list (bytes * bytes))) : Prop :=
  match r, r' with
  | None, None => True
  | Some m, Some m' => map_equiv m m'
  | _, _ => False
  end.
