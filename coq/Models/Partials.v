(* C17 model: Engine.RenderPartials (pugjs/engine.go).

     res := make(map[string]io.Reader, len(partials))
     for _, partial := range partials {
         buf, err := e.Render(ctx, templateName+".partial/"+partial, data)
         if err != nil { return nil, err }
         res[partial] = buf
     }
     return res, nil

   [render] stands for Engine.Render with the call's data: an arbitrary
   function from template name to Some output | None (error).  The Go map is
   an association list with Go's assignment semantics ([insert]). *)
From PV Require Import Base.Bytes.

Section Partials.
  Variable render : bytes -> option bytes.

  Definition partial_name (t p : bytes) : bytes := t ++ B ".partial/" ++ p.

  Fixpoint rp_loop (t : bytes) (ps : list bytes) (acc : list (bytes * bytes))
    : option (list (bytes * bytes)) :=
    match ps with
    | [] => Some acc
    | p :: r =>
      match render (partial_name t p) with
      | None => None
      | Some b => rp_loop t r (insert p b acc)
      end
    end.

  Definition render_partials (t : bytes) (ps : list bytes) := rp_loop t ps [].
End Partials.

(* The same loop over an engine WITH STATE that survives between calls (compiled
   template set / templatesLoaded, whatever an earlier Render or RenderPartials
   call left behind, the data object a partial was handed): [renderS] takes the
   state before the call and returns the state after it with the result; [loadS]
   is an explicit (re)load of templates, LoadTemplates(filter), which returns no
   content but may change the state. *)
Section PartialsState.
  Variable St : Type.
  Variable renderS : St -> bytes -> St * option bytes.
  Variable loadS : St -> bytes -> St.

  Fixpoint rp_loopS (s : St) (t : bytes) (ps : list bytes) (acc : list (bytes * bytes))
    : St * option (list (bytes * bytes)) :=
    match ps with
    | [] => (s, Some acc)
    | p :: r =>
      match renderS s (partial_name t p) with
      | (s', None) => (s', None)
      | (s', Some b) => rp_loopS s' t r (insert p b acc)
      end
    end.

  Definition render_partialsS (s : St) (t : bytes) (ps : list bytes) := rp_loopS s t ps [].

  (* earlier calls on the same engine *)
  Inductive call :=
  | CRender (name : bytes)
  | CPartials (t : bytes) (ps : list bytes)
  | CLoad (filter : bytes).   (* LoadTemplates(filter), also what the DebugController does for ?tpl=filter *)

  Definition do_call (s : St) (c : call) : St :=
    match c with
    | CRender n => fst (renderS s n)
    | CPartials t ps => fst (render_partialsS s t ps)
    | CLoad f => loadS s f
    end.

  Definition after (s : St) (h : list call) : St := fold_left do_call h s.
End PartialsState.

(* Which partials EXIST.  Engine.Render finds the compiled template by an exact map key:

     templateInstance, ok := e.templates[templateName]
     if !ok { return nil, errors.Errorf(`Template %s not found!`, templateName) }
     err := templateInstance.ExecuteTemplate(ctx, result, templateName, convert(data), e.Trace)

   and compileDir fills e.templates with exactly one key per file <key>.ast.json below
   template/page (key = path.Join(dirname, filename) without the suffix).  [tree] is that
   set of keys, [exec] the execution of a template that was found.  The requested name is
   NOT resolved like a file path: "b/", "./b", "x/../b", "../T" are other keys than "b". *)
Section Lookup.
  Variable tree : list bytes.
  Variable exec : bytes -> option bytes.

  Definition render_lookup (n : bytes) : option bytes :=
    if mem n tree then exec n else None.
End Lookup.

(* The engine's template set as state.  pugjs/engine.go (after repair dd313c0):

     loadTemplates(filter):  if filter == "" && !CAS(&templatesLoaded, 0, 1) { return error }
                             templates := compileDir(.., filter)        -- every file whose name has the PREFIX filter
                             if filter != "" && e.templates != nil {
                                 for name, tpl := range e.templates { if !HasPrefix(name, filter) { templates[name] = tpl } } }
                             e.templates = templates
     Render(name):           if templatesLoaded == 0 && !Debug { loadTemplatesOnce() }   -- loads everything
                             else if Debug { LoadTemplates(name) }                       -- error => Render fails
                             tpl, ok := e.templates[name]; !ok => "not found"

   State = (templatesLoaded <> 0, e.templates): [fresh] = an engine that never loaded; the second
   component holds the names of the compiled templates ([None] = nil map).  The files do not change
   and every file compiles.  Only a load of ALL templates sets the flag; a filtered load leaves it as
   it is, so the first production render after it still loads everything.
   Two counter-models are kept as parameters of [load_gen]:
   - [marks] = true: every load sets the flag (the code before dd313c0, [load_unrepaired]);
   - [sel f n] tells which files a load with filter f compiles ([prefixb] in the code; [beqb] only in
     [load_exact]); what a filtered load keeps of the old set is always decided by the prefix. *)
Definition tset := (bool * option (list bytes))%type.
Definition fresh : tset := (false, None).

Section Engine.
  Variable tree : list bytes.
  Variable exec : bytes -> option bytes.
  Variable debug : bool.

  Definition load_gen (marks : bool) (sel : bytes -> bytes -> bool) (s : tset) (f : bytes) : tset :=
    match f with
    | [] => if fst s then s                        (* "Can not preload all templates again": nothing changes *)
            else (true, Some tree)
    | _ => (fst s || marks,
            Some (filter (sel f) tree ++
                  match snd s with
                  | Some l => filter (fun n => negb (prefixb f n)) l
                  | None => []
                  end))
    end.

  Definition load := load_gen false prefixb.
  Definition load_exact := load_gen false beqb.
  Definition load_unrepaired := load_gen true prefixb.

  Definition found (s : tset) (n : bytes) : option bytes :=
    match snd s with
    | Some l => if mem n l then exec n else None
    | None => None
    end.

  Definition render_eng (s : tset) (n : bytes) : tset * option bytes :=
    if debug then
      match n, fst s with
      | [], true => (s, None)                      (* LoadTemplates("") on a loaded engine: error *)
      | _, _ => let s' := load s n in (s', found s' n)
      end
    else
      let s' := if fst s then s else (true, Some tree) in (s', found s' n).
End Engine.

(* an engine state that is marked as loaded and holds exactly the files of the tree *)
Definition complete (tree : list bytes) (s : tset) : Prop :=
  fst s = true /\ exists l, snd s = Some l /\ forall n, In n l <-> In n tree.

(* the invariant of the repaired engine: IF it is marked as loaded, it holds everything *)
Definition inv (tree : list bytes) (s : tset) : Prop := fst s = true -> complete tree s.

(* S: a partial p of T exists iff the literal name T.partial/p is a file of the tree *)
Definition partial_exists (tree : list bytes) (t p : bytes) : bool :=
  mem (partial_name t p) tree.

(* S: what the property demands of the result of a request, in terms of the tree only *)
Definition spec17 (tree : list bytes) (exec : bytes -> option bytes) (t : bytes) (ps : list bytes)
           (r : option (list (bytes * bytes))) : Prop :=
  match r with
  | Some m =>
    (forall p, In p ps -> partial_exists tree t p = true) /\
    NoDup (keys m) /\ (forall x, In x (keys m) <-> In x ps) /\
    (forall p, In p ps -> lookup p m = exec (partial_name t p) /\ lookup p m <> None)
  | None =>
    exists p, In p ps /\ (partial_exists tree t p = false \/ exec (partial_name t p) = None)
  end.

(* A lookup that resolves the requested name like a relative file path before it
   consults the tree (empty and "." segments dropped, ".." removes the segment before
   it).  Only used as a counter-model: see Proofs [resolving_lookup_refuted]. *)
Definition slash : ascii := "/"%char.

Fixpoint split_slash (s cur : bytes) : list bytes :=
  match s with
  | [] => [rev cur]
  | c :: r => if Ascii.eqb c slash then rev cur :: split_slash r [] else split_slash r (c :: cur)
  end.

Fixpoint resolve_segs (segs stack : list bytes) : list bytes :=
  match segs with
  | [] => rev stack
  | s :: r =>
    if beqb s [] || beqb s (B ".") then resolve_segs r stack
    else if beqb s (B "..") then resolve_segs r (tl stack)
    else resolve_segs r (s :: stack)
  end.

Definition resolve_path (n : bytes) : bytes := join [slash] (resolve_segs (split_slash n []) []).

Definition resolving_lookup (tree : list bytes) (exec : bytes -> option bytes) (n : bytes) : option bytes :=
  render_lookup tree exec (resolve_path n).

(* maps compared as maps *)
Definition map_equiv (m m' : list (bytes * bytes)) : Prop :=
  forall k, lookup k m = lookup k m'.

Definition res_equiv (r r' : option (list (bytes * bytes))) : Prop :=
  match r, r' with
  | None, None => True
  | Some m, Some m' => map_equiv m m'
  | _, _ => False
  end.
