(* C08, Part 2e of the scheduler models (Part 1-3: Models/Sched.v): PAGE DATA THAT HOLDS OBJECTS
   WHICH THE CALLER SHARES BETWEEN RENDERS.

   An application converts some values once (pugjs.Convert: a cache of lists, maps, records) and
   puts the SAME objects into the data of many Render calls - by value, as struct fields, behind
   pointers, in []pugjs.Object, in map[string]pugjs.Object.  Templates write into what they find
   in their data (push, sort, assign).  Go (pugjs/types.go, pugjs/engine.go):

     Engine.Render:  ExecuteTemplate(ctx, result, name, convertData(data), e.Trace)
     convertData:    convertWith(in, detach = true)
     convertWith:    if in is an Object: if detach { return in.copy() } ...
                     slices, maps, struct fields (Map.convert, m.detach), pointers, interfaces:
                     convertWith(element, detach)            // the flag travels along every route

   so before the template runs, every object of the engine's model that the data leads to has been
   replaced by a copy which only this render holds.  The model: the shared state is the CALLER'S
   HEAP (objects = lists of numbers, named by their index); the data of a render is a list of
   references into it; [ostep ODetach] first copies every referenced object into the render's own
   heap (one step per object: that step READS the caller's heap), then runs the template, whose
   pushes and prints go to the copies.  The variant [OAlias] - the flag lost on some route, the
   object handed on as it is - is here to show that the theorem about [ODetach] is not vacuous
   (Proofs/SchedOwnProofs.v, *_refuted): there the template works on the caller's heap. *)
From PV Require Import Base.Bytes Models.Sched.

Inductive ovariant := ODetach | OAlias.

(* template code: push x to / print the object that is the k-th member of the data *)
Inductive oop :=
| OPush (k : nat) (x : Z)
| OPrint (k : nat).

Definition oheap := list (list Z).

Inductive opc :=
| OConv (todo : list nat) (own : oheap) (code : list oop)     (* convertData: references still to copy *)
| ORun (own : oheap) (code : list oop) (out : list (list Z))  (* the template *)
| OEnd (out : list (list Z)).

Record ostate := mkO { o_refs : list nat; o_pc : opc }.

Definition oget (h : oheap) (a : nat) : list Z := nth a h [].

Definition ostep (v : ovariant) (h : oheap) (r : ostate) : option (oheap * ostate) :=
  let refs := o_refs r in
  match o_pc r with
  | OConv (a :: todo) own code => Some (h, mkO refs (OConv todo (own ++ [oget h a]) code))
  | OConv [] own code => Some (h, mkO refs (ORun own code []))
  | ORun own [] out => Some (h, mkO refs (OEnd out))
  | ORun own (OPush k x :: rest) out =>
    match v with
    | ODetach => Some (h, mkO refs (ORun (upd k (oget own k ++ [x]) own) rest out))
    | OAlias => let a := nth k refs 0 in Some (upd a (oget h a ++ [x]) h, mkO refs (ORun own rest out))
    end
  | ORun own (OPrint k :: rest) out =>
    match v with
    | ODetach => Some (h, mkO refs (ORun own rest (out ++ [oget own k])))
    | OAlias => Some (h, mkO refs (ORun own rest (out ++ [oget h (nth k refs 0)])))
    end
  | OEnd _ => None
  end.

(* S: what the template prints, as a function of the values its data had when Render was called:
   it sees its own pushes and nothing else *)
Fixpoint oexec (own : oheap) (code : list oop) (out : list (list Z)) : list (list Z) :=
  match code with
  | [] => out
  | OPush k x :: rest => oexec (upd k (oget own k ++ [x]) own) rest out
  | OPrint k :: rest => oexec own rest (out ++ [oget own k])
  end.

Definition ospec (h : oheap) (refs : list nat) (code : list oop) : list (list Z) :=
  oexec (map (oget h) refs) code [].

Definition oresult (r : ostate) : option (list (list Z)) :=
  match o_pc r with OEnd out => Some out | _ => None end.

Definition new_orender (refs : list nat) (code : list oop) : ostate := mkO refs (OConv refs [] code).
