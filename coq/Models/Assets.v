(* C19 model: the asset handler of module.go as registered by Module.Configure
   on DefaultMux at "/assets/", together with the parts of net/http and path
   it runs through (Go 1.23: ServeMux.findHandler/cleanPath, fileHandler.ServeHTTP,
   serveFile, http.Dir.Open, path.Clean, path.Base, strings.Replace).  The
   standard library is modelled and compared by the correspondence check, not
   verified.

     func (afs assetFileSystem) Open(path string) (http.File, error) {
         path = strings.Replace(path, "/assets/", "", 1)
         f, err := afs.fs.Open(path)                    // http.Dir("frontend/dist/")
         if err != nil { return nil, err }
         s, err := f.Stat()
         if err != nil || s.IsDir() { return nil, errors.New("not allowed") }
         return f, nil
     }
     func assetHandler(whitelisted []string, check1337 bool) http.Handler {
         ... origin := req.Header.Get("Origin")
         if <origin whitelisted> { rw.Header().Add("Access-Control-Allow-Origin", origin) }
         ... http.FileServer(assetFileSystem{http.Dir("frontend/dist/")}).ServeHTTP(rw, req)
     }

   The request is the raw request target (escaped path, no query).  net/url
   percent-decodes it before any handler runs ([pct_decode]); ServeMux decides
   on the escaped path ([mux_decide]); the handler sees the decoded path.  The
   theorems quantify over ALL decoded paths and ALL three mux decisions, so
   they do not depend on the decoder or on the mux model being right.

   The CORS test is modelled AFTER the minimal repair of F-C19-a (exact
   membership, no header without an Origin); [cors_unrepaired] keeps the
   "!"-joined containment test of the pinned tree for the _refuted witness.

   Outside the model: symbolic links, permissions, name length limits and all
   other OS path semantics (the file tree is a finite map from clean rooted
   paths below frontend/dist to regular files and directories); conditional
   and range requests; check_webpack_1337 (false). *)
From PV Require Import Base.Bytes.

Definition slash : ascii := "/"%char.
Definition dot : bytes := B ".".
Definition dotdot : bytes := B "..".

(* ------------------------------------------------------------------ paths *)

(* strings.Split(p, "/"): never empty; a slash-free p gives [p] *)
Fixpoint split_slash (p : bytes) : list bytes :=
  match p with
  | [] => [[]]
  | c :: r =>
    if Ascii.eqb c slash then [] :: split_slash r
    else match split_slash r with
         | x :: xs => (c :: x) :: xs
         | [] => [[c]]
         end
  end.

(* one component of path.Clean's scan; [st] is the output so far, last
   component first.  Empty and "." are skipped; ".." pops a real component,
   is dropped at the root of a rooted path and is kept on a relative one. *)
Definition clean_step (rooted : bool) (st : list bytes) (c : bytes) : list bytes :=
  if beqb c [] || beqb c dot then st
  else if beqb c dotdot then
    match st with
    | [] => if rooted then [] else [dotdot]
    | t :: st' => if negb rooted && beqb t dotdot then dotdot :: st else st'
    end
  else c :: st.

(* path.Clean *)
Definition clean (p : bytes) : bytes :=
  match p with
  | [] => dot
  | c0 :: _ =>
    let rooted := Ascii.eqb c0 slash in
    let st := fold_left (clean_step rooted) (split_slash p) [] in
    let body := join [slash] (rev st) in
    if rooted then slash :: body
    else match st with [] => dot | _ => body end
  end.

Definition nonemptyb (c : bytes) : bool := match c with [] => false | _ => true end.

(* path.Base *)
Definition base (p : bytes) : bytes :=
  match p with
  | [] => dot
  | _ => match filter nonemptyb (rev (split_slash p)) with
         | c :: _ => c
         | [] => [slash]
         end
  end.

(* strings.Replace(s, pat, "", 1) for non-empty pat *)
Fixpoint remove_first (pat s : bytes) : bytes :=
  if prefixb pat s then skipn (length pat) s
  else match s with
       | [] => []
       | c :: r => c :: remove_first pat r
       end.

Definition ends_slash (p : bytes) : bool := suffixb [slash] p.

(* fileHandler.ServeHTTP: if !strings.HasPrefix(upath, "/") { upath = "/" + upath } *)
Definition rooted (p : bytes) : bytes := if prefixb [slash] p then p else slash :: p.

(* the three rewrites between the request path and the file that is opened *)
Definition fs_name (req : bytes) : bytes := clean (rooted req).                 (* FileServer *)
Definition afs_path (name : bytes) : bytes := remove_first (B "/assets/") name. (* assetFileSystem.Open *)
Definition dir_path (name : bytes) : bytes := clean (slash :: name).            (* http.Dir.Open: path.Clean("/"+name) *)

(* the path below frontend/dist that a request for [req] opens *)
Definition resolve (req : bytes) : bytes := dir_path (afs_path (fs_name req)).

(* ------------------------------------------------------------------ S: inside *)

Definition okcomp (c : bytes) : bool := negb (beqb c [] || beqb c dot || beqb c dotdot).

(* a rooted path all of whose components are real names: it denotes
   frontend/dist itself ("/") or something below it *)
Definition inside (p : bytes) : bool :=
  match p with
  | [] => false
  | c :: r => Ascii.eqb c slash &&
              match r with [] => true | _ => forallb okcomp (split_slash r) end
  end.

(* ------------------------------------------------------------------ file tree *)

Inductive node := Reg (content : bytes) | Dir.
Definition tree := list (bytes * node).   (* clean rooted path below frontend/dist -> node; "/" is dist *)

Inductive opened := OReg (content : bytes) | ODir | OErrNotExist | OErrOther.

Definition has_nul (p : bytes) : bool := existsb (Ascii.eqb zero) p.

(* http.Dir("frontend/dist/").Open(name): Clean, Localize (a NUL byte is an
   error that is not ErrNotExist), os.Open; ENOENT and ENOTDIR are ErrNotExist *)
Definition dir_open (t : tree) (name : bytes) : opened :=
  let p := dir_path name in
  if has_nul p then OErrOther
  else match lookup p t with
       | Some (Reg b) => OReg b
       | Some Dir => ODir
       | None => OErrNotExist
       end.

(* assetFileSystem.Open *)
Definition afs_open (t : tree) (name : bytes) : opened :=
  match dir_open t (afs_path name) with
  | OReg b => OReg b
  | ODir => OErrOther            (* errors.New("not allowed") *)
  | OErrNotExist => OErrNotExist
  | OErrOther => OErrOther
  end.

(* ------------------------------------------------------------------ net/http *)

Inductive answer :=
| File (body : bytes)   (* 200 with these bytes *)
| Listing               (* 200 with a directory listing (net/http dirList) *)
| Redirect              (* 301, no file content *)
| NotFound              (* 404 *)
| ServerError           (* 500 *)
| BadRequest.           (* 400: the request target does not parse *)

Definition content (a : answer) : option bytes :=
  match a with File b => Some b | _ => None end.

Definition index_page : bytes := B "/index.html".

Definition trim_slash_suffix (n : bytes) : bytes :=
  if ends_slash n then rev (tl (rev n)) else n.

(* net/http serveFile(w, r, fs, name, redirect = true) over ANY file system
   [fs], including the directory branch (index.html fallback, dirList), so
   that "never lists a directory" is a statement about the composition with
   assetFileSystem and not an artefact of the answer type. *)
Definition serve_file (fs : bytes -> opened) (url name : bytes) : answer :=
  if suffixb index_page url then Redirect                     (* localRedirect "./" *)
  else match fs name with
       | OErrNotExist => NotFound
       | OErrOther => ServerError
       | ODir =>
         if ends_slash url then
           match fs (trim_slash_suffix name ++ index_page) with
           | OReg b => File b
           | _ => Listing
           end
         else Redirect                                        (* base(url) + "/" *)
       | OReg b =>
         if ends_slash url then
           let bs := base url in
           if beqb bs [slash] || beqb bs dot then ServerError (* "attempting to traverse a non-directory" *)
           else Redirect                                      (* "../" + base *)
         else File b
       end.

(* http.FileServer(assetFileSystem{http.Dir("frontend/dist/")}).ServeHTTP *)
Definition handler (t : tree) (dec : bytes) : answer :=
  let up := rooted dec in serve_file (afs_open t) up (clean up).

Inductive muxd := MuxPass | MuxRedirect | MuxNotFound.

(* what the client gets for decoded path [dec] when ServeMux decided [m] *)
Definition serve_at (t : tree) (m : muxd) (dec : bytes) : answer :=
  match m with
  | MuxPass => handler t dec
  | MuxRedirect => Redirect
  | MuxNotFound => NotFound
  end.

(* ---- net/url percent-decoding of a path (url.unescape, mode encodePath) *)
Definition hexval (c : ascii) : option N :=
  let n := N_of_ascii c in
  if (48 <=? n)%N && (n <=? 57)%N then Some (n - 48)%N
  else if (97 <=? n)%N && (n <=? 102)%N then Some (n - 87)%N
  else if (65 <=? n)%N && (n <=? 70)%N then Some (n - 55)%N
  else None.

Fixpoint pct_decode (s : bytes) : option bytes :=
  match s with
  | [] => Some []
  | c :: r =>
    if Ascii.eqb c "%"%char then
      match r with
      | h1 :: h2 :: r' =>
        match hexval h1, hexval h2 with
        | Some a, Some b => option_map (cons (ascii_of_N (16 * a + b))) (pct_decode r')
        | _, _ => None
        end
      | _ => None
      end
    else option_map (cons c) (pct_decode r)
  end.

(* net/http cleanPath *)
Definition mux_clean (p : bytes) : bytes :=
  match p with
  | [] => [slash]
  | _ => let p := rooted p in
         let np := clean p in
         if ends_slash p && negb (beqb np [slash]) then np ++ [slash] else np
  end.

(* routing tree: first segment, unescaped "if possible" *)
Definition seg_unescape (s : bytes) : bytes :=
  match pct_decode s with Some d => d | None => s end.

(* ServeMux.findHandler with the single pattern "/assets/" (GET, no host
   patterns), on the escaped path: a path that cleanPath changes is
   redirected whether or not it matches; "/assets" is redirected to
   "/assets/"; a first segment that unescapes to "assets" followed by "/"
   reaches the handler; everything else is 404. *)
Definition mux_decide (ep : bytes) : muxd :=
  if negb (beqb (mux_clean ep) ep) then MuxRedirect
  else match split_slash ep with
       | [] :: seg :: rest =>
         if beqb (seg_unescape seg) (B "assets")
         then match rest with [] => MuxRedirect | _ => MuxPass end
         else MuxNotFound
       | _ => MuxNotFound
       end.

(* the whole path from raw request target to answer *)
Definition serve (t : tree) (raw : bytes) : answer :=
  match pct_decode raw with
  | None => BadRequest
  | Some dec => serve_at t (mux_decide raw) dec
  end.

(* ------------------------------------------------------------------ CORS *)

(* S: a present Origin [o] gets the header, with value o, iff it is whitelisted *)
Definition cors_spec (wl : list bytes) (o : bytes) : option bytes :=
  if mem o wl || mem (B "*") wl then Some o else None.

(* Header.Get("Origin") is "" for an absent (or empty) header: no Origin *)
Definition origin_of (hdr : bytes) : option bytes :=
  match hdr with [] => None | _ => Some hdr end.

Definition cors_spec_req (wl : list bytes) (o : option bytes) : option bytes :=
  match o with None => None | Some o => cors_spec wl o end.

(* M (repaired): value of Access-Control-Allow-Origin, None = header not set.
     origin := req.Header.Get("Origin")
     if origin != "" && (contains(whitelisted, origin) || contains(whitelisted, "*")) *)
Definition cors (wl : list bytes) (hdr : bytes) : option bytes :=
  if nonemptyb hdr && (mem hdr wl || mem (B "*") wl) then Some hdr else None.

(* the pinned tree:
     whitelist := "!" + strings.Join(whitelisted, "!") + "!"
     if strings.Contains(whitelist, "!"+origin+"!") || strings.Contains(whitelist, "!*!") *)
Definition cors_unrepaired (wl : list bytes) (hdr : bytes) : option bytes :=
  let w := B "!" ++ join (B "!") wl ++ B "!" in
  if containsb (B "!" ++ hdr ++ B "!") w || containsb (B "!*!") w then Some hdr else None.

(* the header the client sees: the handler runs only when the mux passes *)
Definition acao_at (m : muxd) (wl : list bytes) (hdr : bytes) : option bytes :=
  match m with MuxPass => cors wl hdr | _ => None end.
