(* C19 model: the asset handler of module.go as registered by Module.Configure
   on DefaultMux at "/assets/", together with the parts of net/http and path
   it runs through (Go 1.23: ServeMux.findHandler/cleanPath, fileHandler.ServeHTTP,
   serveFile, http.Dir.Open, path.Clean, path.Base, strings.Replace).  The
   standard library is modelled and compared by the correspondence check, not
   verified.

     func (afs assetFileSystem) Open(path string) (http.File, error) {
         path = strings.Replace(path, "/assets/", "", 1)
         f, err := afs.fs.Open(path)                    // http.Dir("frontend/dist/")
         if err != nil { return nil, err }
         s, err := f.Stat()
         if err != nil || s.IsDir() { return nil, errors.New("not allowed") }
         return f, nil
     }
     func assetHandler(whitelisted []string, check1337 bool) http.Handler {
         ... origin := req.Header.Get("Origin")
         if <origin whitelisted> { rw.Header().Add("Access-Control-Allow-Origin", origin) }
         ... http.FileServer(assetFileSystem{http.Dir("frontend/dist/")}).ServeHTTP(rw, req)
     }

   The request is the raw request target (escaped path, no query).  net/url
   percent-decodes it before any handler runs ([pct_decode]); ServeMux decides
   on the escaped path ([mux_decide]); the handler sees the decoded path.  The
   theorems quantify over ALL decoded paths and ALL three mux decisions, so
   they do not depend on the decoder or on the mux model being right.

   The CORS test is modelled AFTER the minimal repair of F-C19-a (exact
   membership, no header without an Origin); [cors_unrepaired] keeps the
   "!"-joined containment test of the pinned tree for the _refuted witness.

   The file system is a finite map from clean rooted PHYSICAL paths below the
   site root (the working directory of the process; "/" in the model) to
   regular files, directories and symbolic links; frontend/dist is the
   directory at [dist_at].  Opening a name follows links the way the OS does
   ([walk]: component by component from the physical directory reached so
   far, ".." pops physically, at most 40 links per lookup (Linux MAXSYMLINKS),
   absolute targets restart at the site root).  http.Dir's mapOpenError is
   modelled too ([map_open_error]).

   F-C19-b (listed, not repaired): a link below dist whose target lies outside
   dist is followed, so the bytes of a file outside dist are served.  The
   model follows the code; [dom_C19] is the documented domain on which
   "never serves a file outside that directory" is proved, and
   [file_outside_refuted] is the witness off that domain.

   Outside the model: frontend and frontend/dist themselves being links,
   ".." above the site root ([WAbove]; the judge declines such cases),
   permissions, special files, name length limits; conditional and range
   requests; check_webpack_1337 (false). *)
From PV Require Import Base.Bytes.

Definition slash : ascii := "/"%char.
Definition dot : bytes := B ".".
Definition dotdot : bytes := B "..".

(* ------------------------------------------------------------------ paths *)

(* strings.Split(p, "/"): never empty; a slash-free p gives [p] *)
Fixpoint split_slash (p : bytes) : list bytes :=
  match p with
  | [] => [[]]
  | c :: r =>
    if Ascii.eqb c slash then [] :: split_slash r
    else match split_slash r with
         | x :: xs => (c :: x) :: xs
         | [] => [[c]]
         end
  end.

(* one component of path.Clean's scan; [st] is the output so far, last
   component first.  Empty and "." are skipped; ".." pops a real component,
   is dropped at the root of a rooted path and is kept on a relative one. *)
Definition clean_step (rooted : bool) (st : list bytes) (c : bytes) : list bytes :=
  if beqb c [] || beqb c dot then st
  else if beqb c dotdot then
    match st with
    | [] => if rooted then [] else [dotdot]
    | t :: st' => if negb rooted && beqb t dotdot then dotdot :: st else st'
    end
  else c :: st.

(* path.Clean *)
Definition clean (p : bytes) : bytes :=
  match p with
  | [] => dot
  | c0 :: _ =>
    let rooted := Ascii.eqb c0 slash in
    let st := fold_left (clean_step rooted) (split_slash p) [] in
    let body := join [slash] (rev st) in
    if rooted then slash :: body
    else match st with [] => dot | _ => body end
  end.

Definition nonemptyb (c : bytes) : bool := match c with [] => false | _ => true end.

(* path.Base *)
Definition base (p : bytes) : bytes :=
  match p with
  | [] => dot
  | _ => match filter nonemptyb (rev (split_slash p)) with
         | c :: _ => c
         | [] => [slash]
         end
  end.

(* strings.Replace(s, pat, "", 1) for non-empty pat *)
Fixpoint remove_first (pat s : bytes) : bytes :=
  if prefixb pat s then skipn (length pat) s
  else match s with
       | [] => []
       | c :: r => c :: remove_first pat r
       end.

Definition ends_slash (p : bytes) : bool := suffixb [slash] p.

(* fileHandler.ServeHTTP: if !strings.HasPrefix(upath, "/") { upath = "/" + upath } *)
Definition rooted (p : bytes) : bytes := if prefixb [slash] p then p else slash :: p.

(* the three rewrites between the request path and the file that is opened *)
Definition fs_name (req : bytes) : bytes := clean (rooted req).                 (* FileServer *)
Definition afs_path (name : bytes) : bytes := remove_first (B "/assets/") name. (* assetFileSystem.Open *)
Definition dir_path (name : bytes) : bytes := clean (slash :: name).            (* http.Dir.Open: path.Clean("/"+name) *)

(* the path below frontend/dist that a request for [req] opens *)
Definition resolve (req : bytes) : bytes := dir_path (afs_path (fs_name req)).

(* ------------------------------------------------------------------ S: inside *)

Definition okcomp (c : bytes) : bool := negb (beqb c [] || beqb c dot || beqb c dotdot).

(* a rooted path all of whose components are real names: it denotes
   frontend/dist itself ("/") or something below it *)
Definition inside (p : bytes) : bool :=
  match p with
  | [] => false
  | c :: r => Ascii.eqb c slash &&
              match r with [] => true | _ => forallb okcomp (split_slash r) end
  end.

(* ------------------------------------------------------------------ file tree *)

Inductive node := Reg (content : bytes) | Dir | Link (target : bytes).
(* clean rooted physical path below the site root -> node; "/" is the site
   root (the process's working directory), frontend/dist is at [dist_loc] *)
Definition tree := list (bytes * node).

Inductive opened := OReg (content : bytes) | ODir | OErrNotExist | OErrOther.

Definition has_nul (p : bytes) : bool := existsb (Ascii.eqb zero) p.

(* a physical location: its components, LAST FIRST ([] is the site root) *)
Definition loc := list bytes.
Definition path_of (l : loc) : bytes := slash :: join [slash] (rev l).

Definition dist_loc : loc := [B "dist"; B "frontend"].

(* physically inside frontend/dist: dist itself or something below it *)
Definition below_dist (l : loc) : Prop := exists x, l = x ++ dist_loc.
Definition below_distb (l : loc) : bool :=
  match rev l with
  | a :: b :: _ => beqb a (B "frontend") && beqb b (B "dist")
  | _ => false
  end.

Inductive wres :=
| WNode (at_ : loc) (n : node)  (* resolved: physical location and the node there (never a Link) *)
| WNotExist                     (* ENOENT *)
| WNotDir                       (* ENOTDIR *)
| WLoop                         (* ELOOP: a 41st link *)
| WAbove                        (* ".." at the site root: leaves what the tree describes *)
| WFuel.                        (* never returned with [walk_fuel] (walk_fuel_enough) *)

Definition max_links : nat := 40.   (* Linux MAXSYMLINKS: 40 links are followed, the 41st is ELOOP *)

(* path resolution of open(2)/stat(2): [cur] is the physical directory
   reached so far, [rest] the components still to go.  Empty and "."
   components stay; ".." pops the PHYSICAL parent; a regular file with
   anything after it (even an empty component, i.e. a trailing slash) is
   ENOTDIR; a link splices its target in front of the rest (an absolute
   target restarts at the site root). *)
Fixpoint walk (fuel follows : nat) (t : tree) (cur : loc) (rest : list bytes) : wres :=
  match fuel with
  | O => WFuel
  | S f =>
    match rest with
    | [] => WNode cur Dir
    | c :: rest' =>
      if beqb c [] || beqb c dot then walk f follows t cur rest'
      else if beqb c dotdot then
        match cur with
        | [] => WAbove
        | _ :: up => walk f follows t up rest'
        end
      else match lookup (path_of (c :: cur)) t with
           | None => WNotExist
           | Some (Reg b) => match rest' with [] => WNode (c :: cur) (Reg b) | _ => WNotDir end
           | Some Dir => walk f follows t (c :: cur) rest'
           | Some (Link tg) =>
             match follows with
             | O => WLoop
             | S k =>
               if nonemptyb tg
               then walk f k t (if prefixb [slash] tg then [] else cur) (split_slash tg ++ rest')
               else WNotExist
             end
           end
    end
  end.

(* the longest link target of the tree, in components *)
Fixpoint max_target (t : tree) : nat :=
  match t with
  | [] => O
  | (_, Link tg) :: r => Nat.max (length (split_slash tg)) (max_target r)
  | _ :: r => max_target r
  end.

(* every step either consumes a component or follows one of at most 40 links *)
Definition walk_fuel (t : tree) (rest : list bytes) : nat :=
  S (length rest + max_links * S (max_target t)).

(* open/stat of the components [comps] relative to frontend/dist (which, with
   frontend, is assumed to be a plain directory) *)
Definition os_walk (t : tree) (comps : list bytes) : wres :=
  walk (walk_fuel t comps) max_links t dist_loc comps.

(* components of a clean rooted path: "/" -> [""], "/a/b" -> ["a"; "b"] *)
Definition comps_of (p : bytes) : list bytes := split_slash (tl p).

(* what the OS finds at the dist-relative clean rooted path [p] *)
Definition os_resolve (t : tree) (p : bytes) : wres := os_walk t (comps_of p).

(* net/http mapOpenError(originalErr, fullName, '/', os.Stat) for an error that
   is neither ErrNotExist nor ErrPermission: stat every prefix of the name; a
   prefix that cannot be stat-ed keeps the error, a prefix that is not a
   directory turns it into ErrNotExist *)
Fixpoint map_open_error (t : tree) (pre rest : list bytes) : opened :=
  match rest with
  | [] => OErrOther
  | c :: r =>
    if beqb c [] then map_open_error t pre r
    else match os_walk t (pre ++ [c]) with
         | WNode _ Dir => map_open_error t (pre ++ [c]) r
         | WNode _ _ => OErrNotExist
         | _ => OErrOther
         end
  end.

(* http.Dir("frontend/dist/").Open(name): Clean, Localize (a NUL byte is an
   error that is not ErrNotExist), os.Open (follows links), mapOpenError *)
Definition dir_open (t : tree) (name : bytes) : opened :=
  let p := dir_path name in
  if has_nul p then OErrOther
  else match os_resolve t p with
       | WNode _ (Reg b) => OReg b
       | WNode _ Dir => ODir
       | WNode _ (Link _) => OErrOther           (* impossible: walk_never_link *)
       | WNotExist => OErrNotExist
       | WNotDir | WLoop => map_open_error t [] (comps_of p)
       | WAbove | WFuel => OErrOther             (* WAbove: outside the model; WFuel: impossible *)
       end.

(* ---- the domain on which "never serves a file outside dist" is proved:
   no link of the tree has an absolute target or a ".." component in its
   target (sufficient, not necessary: sub/l -> ../a.txt stays inside too;
   the judge uses the exact, per-request test [below_distb] on the
   resolved location instead) *)
Definition downward (tg : bytes) : bool :=
  negb (prefixb [slash] tg) && negb (existsb (fun c => beqb c dotdot) (split_slash tg)).

Definition dom_C19 (t : tree) : bool :=
  forallb (fun e => match snd e with Link tg => downward tg | _ => true end) t.

(* assetFileSystem.Open *)
Definition afs_open (t : tree) (name : bytes) : opened :=
  match dir_open t (afs_path name) with
  | OReg b => OReg b
  | ODir => OErrOther            (* f.Stat() is fstat of the opened, resolved file: errors.New("not allowed") *)
  | OErrNotExist => OErrNotExist
  | OErrOther => OErrOther
  end.

(* ------------------------------------------------------------------ net/http *)

Inductive answer :=
| File (body : bytes)   (* 200 with these bytes *)
| Listing               (* 200 with a directory listing (net/http dirList) *)
| Redirect              (* 301, no file content *)
| NotFound              (* 404 *)
| ServerError           (* 500 *)
| BadRequest.           (* 400: the request target does not parse *)

Definition content (a : answer) : option bytes :=
  match a with File b => Some b | _ => None end.

Definition index_page : bytes := B "/index.html".

Definition trim_slash_suffix (n : bytes) : bytes :=
  if ends_slash n then rev (tl (rev n)) else n.

(* net/http serveFile(w, r, fs, name, redirect = true) over ANY file system
   [fs], including the directory branch (index.html fallback, dirList), so
   that "never lists a directory" is a statement about the composition with
   assetFileSystem and not an artefact of the answer type. *)
Definition serve_file (fs : bytes -> opened) (url name : bytes) : answer :=
  if suffixb index_page url then Redirect                     (* localRedirect "./" *)
  else match fs name with
       | OErrNotExist => NotFound
       | OErrOther => ServerError
       | ODir =>
         if ends_slash url then
           match fs (trim_slash_suffix name ++ index_page) with
           | OReg b => File b
           | _ => Listing
           end
         else Redirect                                        (* base(url) + "/" *)
       | OReg b =>
         if ends_slash url then
           let bs := base url in
           if beqb bs [slash] || beqb bs dot then ServerError (* "attempting to traverse a non-directory" *)
           else Redirect                                      (* "../" + base *)
         else File b
       end.

(* http.FileServer(assetFileSystem{http.Dir("frontend/dist/")}).ServeHTTP *)
Definition handler (t : tree) (dec : bytes) : answer :=
  let up := rooted dec in serve_file (afs_open t) up (clean up).

Inductive muxd := MuxPass | MuxRedirect | MuxNotFound.

(* what the client gets for decoded path [dec] when ServeMux decided [m] *)
Definition serve_at (t : tree) (m : muxd) (dec : bytes) : answer :=
  match m with
  | MuxPass => handler t dec
  | MuxRedirect => Redirect
  | MuxNotFound => NotFound
  end.

(* ---- net/url percent-decoding of a path (url.unescape, mode encodePath) *)
Definition hexval (c : ascii) : option N :=
  let n := N_of_ascii c in
  if (48 <=? n)%N && (n <=? 57)%N then Some (n - 48)%N
  else if (97 <=? n)%N && (n <=? 102)%N then Some (n - 87)%N
  else if (65 <=? n)%N && (n <=? 70)%N then Some (n - 55)%N
  else None.

Fixpoint pct_decode (s : bytes) : option bytes :=
  match s with
  | [] => Some []
  | c :: r =>
    if Ascii.eqb c "%"%char then
      match r with
      | h1 :: h2 :: r' =>
        match hexval h1, hexval h2 with
        | Some a, Some b => option_map (cons (ascii_of_N (16 * a + b))) (pct_decode r')
        | _, _ => None
        end
      | _ => None
      end
    else option_map (cons c) (pct_decode r)
  end.

(* net/http cleanPath *)
Definition mux_clean (p : bytes) : bytes :=
  match p with
  | [] => [slash]
  | _ => let p := rooted p in
         let np := clean p in
         if ends_slash p && negb (beqb np [slash]) then np ++ [slash] else np
  end.

(* routing tree: first segment, unescaped "if possible" *)
Definition seg_unescape (s : bytes) : bytes :=
  match pct_decode s with Some d => d | None => s end.

(* ServeMux.findHandler with the single pattern "/assets/" (GET, no host
   patterns), on the escaped path: a path that cleanPath changes is
   redirected whether or not it matches; "/assets" is redirected to
   "/assets/"; a first segment that unescapes to "assets" followed by "/"
   reaches the handler; everything else is 404. *)
Definition mux_decide (ep : bytes) : muxd :=
  if negb (beqb (mux_clean ep) ep) then MuxRedirect
  else match split_slash ep with
       | [] :: seg :: rest =>
         if beqb (seg_unescape seg) (B "assets")
         then match rest with [] => MuxRedirect | _ => MuxPass end
         else MuxNotFound
       | _ => MuxNotFound
       end.

(* the whole path from raw request target to answer *)
Definition serve (t : tree) (raw : bytes) : answer :=
  match pct_decode raw with
  | None => BadRequest
  | Some dec => serve_at t (mux_decide raw) dec
  end.

(* ------------------------------------------------------------------ CORS *)

(* S: a present Origin [o] gets the header, with value o, iff it is whitelisted *)
Definition cors_spec (wl : list bytes) (o : bytes) : option bytes :=
  if mem o wl || mem (B "*") wl then Some o else None.

(* Header.Get("Origin") is "" for an absent (or empty) header: no Origin *)
Definition origin_of (hdr : bytes) : option bytes :=
  match hdr with [] => None | _ => Some hdr end.

Definition cors_spec_req (wl : list bytes) (o : option bytes) : option bytes :=
  match o with None => None | Some o => cors_spec wl o end.

(* M (repaired): value of Access-Control-Allow-Origin, None = header not set.
     origin := req.Header.Get("Origin")
     if origin != "" && (contains(whitelisted, origin) || contains(whitelisted, "*")) *)
Definition cors (wl : list bytes) (hdr : bytes) : option bytes :=
  if nonemptyb hdr && (mem hdr wl || mem (B "*") wl) then Some hdr else None.

(* the pinned tree:
     whitelist := "!" + strings.Join(whitelisted, "!") + "!"
     if strings.Contains(whitelist, "!"+origin+"!") || strings.Contains(whitelist, "!*!") *)
Definition cors_unrepaired (wl : list bytes) (hdr : bytes) : option bytes :=
  let w := B "!" ++ join (B "!") wl ++ B "!" in
  if containsb (B "!" ++ hdr ++ B "!") w || containsb (B "!*!") w then Some hdr else None.

(* the header the client sees: the handler runs only when the mux passes *)
Definition acao_at (m : muxd) (wl : list bytes) (hdr : bytes) : option bytes :=
  match m with MuxPass => cors wl hdr | _ => None end.

(* ------------------------------------------------------------------ the whole request *)

(* A request is more than its target: a method and header lines (name, value),
   in the order sent.  The handler reads exactly one thing of them,
   req.Header.Get("Origin"); http.FileServer reads the method (HEAD: no body)
   and the conditional / Range headers (outside the model).  net/textproto
   canonicalises header names, so names compare case-insensitively in ASCII. *)
Definition lower_ascii (a : ascii) : ascii :=
  let n := N_of_ascii a in
  if (N.leb 65 n && N.leb n 90)%bool then ascii_of_N (n + 32) else a.

Definition name_eqb (a b : bytes) : bool := beqb (map lower_ascii a) (map lower_ascii b).

(* Header.Get(name): the value of the first line of that name, "" when there is none *)
Fixpoint header_get (name : bytes) (hs : list (bytes * bytes)) : bytes :=
  match hs with
  | [] => []
  | h :: r => if name_eqb (fst h) name then snd h else header_get name r
  end.

(* Header.Values(name) *)
Definition header_values (name : bytes) (hs : list (bytes * bytes)) : list bytes :=
  map snd (filter (fun h => name_eqb (fst h) name) hs).

Definition h_origin : bytes := B "Origin".
Definition acao_name : bytes := B "Access-Control-Allow-Origin".
Definition m_head : bytes := B "HEAD".

(* M: ALL Access-Control-* headers of the response, (name, values).  The
   method and every header other than the first Origin line are not looked at:
   no branch of assetHandler mentions them (in particular a preflight, OPTIONS
   with Access-Control-Request-Method, is answered like any other request). *)
Definition resp_ac (m : muxd) (wl : list bytes) (meth : bytes) (hs : list (bytes * bytes))
  : list (bytes * list bytes) :=
  match acao_at m wl (header_get h_origin hs) with
  | None => []
  | Some v => [(acao_name, [v])]
  end.

(* M: the body that is sent for an answer: serveContent writes none for HEAD *)
Definition sent_body (meth : bytes) (a : answer) : option bytes :=
  match a with
  | File b => Some (if beqb meth m_head then [] else b)
  | _ => None
  end.

(* S: what the property allows among the Access-Control-* response headers,
   given the whitelist and the values of the request's Origin lines: an
   Access-Control-Allow-Origin header has exactly one value, that value is an
   Origin of the request, and it is whitelisted; any other Access-Control-*
   header (a grant of methods, headers, credentials, a max-age) is present
   only for a request that has a whitelisted Origin. *)
Definition allowedb (wl : list bytes) (o : bytes) : bool :=
  nonemptyb o && (mem o wl || mem (B "*") wl).

Definition is_ac_name (n : bytes) : bool := prefixb (B "access-control-") (map lower_ascii n).

Definition ac_spec (wl : list bytes) (origins : list bytes) (acs : list (bytes * list bytes)) : bool :=
  forallb (fun h => if name_eqb (fst h) acao_name
                    then match snd h with
                         | [v] => mem v origins && allowedb wl v
                         | _ => false
                         end
                    else existsb (allowedb wl) origins) acs.

(* a plausible but wrong extension (the class of seeded change C19-f): a
   preflight is answered by the handler itself, and the branch that does so
   writes the Origin with Header().Set without asking the whitelist again *)
Definition resp_ac_preflight (m : muxd) (wl : list bytes) (meth : bytes) (hs : list (bytes * bytes))
  : list (bytes * list bytes) :=
  match m with
  | MuxPass =>
      if beqb meth (B "OPTIONS") && nonemptyb (header_get (B "Access-Control-Request-Method") hs)
      then [(B "Access-Control-Allow-Methods", [B "GET, HEAD, OPTIONS"]);
            (acao_name, [header_get h_origin hs]); (B "Access-Control-Max-Age", [B "86400"])]
      else resp_ac m wl meth hs
  | _ => []
  end.
