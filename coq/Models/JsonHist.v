(* C12 model, second part: JSON.parse / JSON.stringify inside a PROCESS.

   The property speaks about one text at a time; the code that makes the text runs in a long-lived process in
   which templates parse texts, keep and MUTATE the parsed objects (assignment into them, push/pop/shift/... on
   their arrays) and parse and stringify again - in the same template, in another template, in another render,
   on another engine, through the exported functions.  parse and stringify must be functions of their argument:
   whatever happened before, stringify of a value writes that value, and parse of a text gives a NEW object.

   Go code followed (as it is now):
     templatefunctions/js_json.go   JSON.Parse: json.Unmarshal into a fresh interface{} + pugjs.Convert: every call
                                    allocates a new *Map / *Array tree; no package-level state
     pugjs/types.go                 *Map and *Array are pointers: a template variable holds a reference;
                                    Map.Member("__assign") / Map.Assign: items[key] = convert(v);
                                    Array.Push: append at the end; Unshift: in front; Pop: drop the last (nothing
                                    on an empty array); Shift: drop the first; Splice(n): keep the first n
     pugjs/transform_js_.go         a.k = v / a[k] = v  ->  ($a.__assign k v)
     pugjs/tpl_funcs.go index       a[k] on a *Map: items[k]; a[i] on an *Array: items[i]

   M: a heap of objects; variables hold addresses; HParse allocates a new cell (memo = false).  With memo = true the
      same machine keeps a table text -> address and hands the cached cell out again: that is the design this file
      is there to tell apart (Proofs: refuted).
   S: value semantics on JSON trees (no heap, no sharing): every variable owns its tree.
   Definitions only; proofs are in Proofs/JsonHistProofs.v. *)
From PV Require Import Base.Bytes Models.Json.

(* ------------------------------------------------------------------ mutations of a template object *)

Inductive sel := SKey (k : bytes) | SIdx (i : nat).

Inductive act :=
| ASet (k : bytes) (v : gv)      (* a[k] = v / a.k = v / Map.Assign                *)
| APush (v : gv)                 (* a.push(v)                                      *)
| AUnshift (v : gv)              (* a.unshift(v)                                   *)
| APop                           (* a.pop()                                        *)
| AShift                         (* a.shift()                                      *)
| ASplice (n : nat).             (* a.splice(n): the receiver keeps its first n    *)

(* the object reached from the variable by the path is the receiver *)
Definition mop := (list sel * act)%type.

Fixpoint upd_nth {A} (i : nat) (f : A -> A) (l : list A) : list A :=
  match l with
  | [] => []
  | x :: r => match i with O => f x :: r | S i' => x :: upd_nth i' f r end
  end.

(* the first entry with this key (a Go map has one) *)
Fixpoint upd_key {A} (k : bytes) (f : A -> A) (m : list (bytes * A)) : list (bytes * A) :=
  match m with
  | [] => []
  | (k', v) :: r => if beqb k k' then (k', f v) :: r else (k', v) :: upd_key k f r
  end.

(* M: on template objects.  A receiver of the wrong kind: Go panics; here nothing happens and [op_fits] says so *)
Definition obj_act (a : act) (o : obj) : obj :=
  match a, o with
  | ASet k v, OMap m => OMap (insert k (convert v) m)
  | APush v, OArr l => OArr (l ++ [convert v])
  | AUnshift v, OArr l => OArr (convert v :: l)
  | APop, OArr l => OArr (removelast l)
  | AShift, OArr l => OArr (tl l)
  | ASplice n, OArr l => OArr (firstn n l)
  | _, _ => o
  end.

Fixpoint obj_at (p : list sel) (f : obj -> obj) (o : obj) : obj :=
  match p with
  | [] => f o
  | SKey k :: r => match o with OMap m => OMap (upd_key k (obj_at r f) m) | _ => o end
  | SIdx i :: r => match o with OArr l => OArr (upd_nth i (obj_at r f) l) | _ => o end
  end.

Definition obj_apply (op : mop) (o : obj) : obj := obj_at (fst op) (obj_act (snd op)) o.

(* S: on JSON trees (members kept in key order) *)
Definition jv_act (a : act) (j : jv) : jv :=
  match a, j with
  | ASet k v, JObj m => JObj (sort_kv (insert k (json_of v) m))
  | APush v, JArr l => JArr (l ++ [json_of v])
  | AUnshift v, JArr l => JArr (json_of v :: l)
  | APop, JArr l => JArr (removelast l)
  | AShift, JArr l => JArr (tl l)
  | ASplice n, JArr l => JArr (firstn n l)
  | _, _ => j
  end.

Fixpoint jv_at (p : list sel) (f : jv -> jv) (j : jv) : jv :=
  match p with
  | [] => f j
  | SKey k :: r => match j with JObj m => JObj (upd_key k (jv_at r f) m) | _ => j end
  | SIdx i :: r => match j with JArr l => JArr (upd_nth i (jv_at r f) l) | _ => j end
  end.

Definition jv_apply (op : mop) (j : jv) : jv := jv_at (fst op) (jv_act (snd op)) j.

(* the path leads to a receiver of the right kind (otherwise the template / the Go caller panics) *)
Definition act_fits (a : act) (j : jv) : bool :=
  match a, j with
  | ASet _ _, JObj _ => true
  | APush _, JArr _ | AUnshift _, JArr _ | APop, JArr _ | AShift, JArr _ => true
  | ASplice n, JArr l => n <=? length l
  | _, _ => false
  end.

Fixpoint path_fits (p : list sel) (a : act) (j : jv) : bool :=
  match p with
  | [] => act_fits a j
  | SKey k :: r => match j with
                   | JObj m => match lookup k m with Some v => path_fits r a v | None => false end
                   | _ => false
                   end
  | SIdx i :: r => match j with
                   | JArr l => match nth_error l i with Some v => path_fits r a v | None => false end
                   | _ => false
                   end
  end.

Definition op_fits (op : mop) (j : jv) : bool := path_fits (fst op) (snd op) j.

(* the property's domain, for what a mutation brings in *)
Definition act_dom (a : act) : bool :=
  match a with
  | ASet k v => key_lower_initial k && utf8_valid k && dom_C12 v
  | APush v | AUnshift v => dom_C12 v
  | _ => true
  end.

Definition op_dom (op : mop) : bool := act_dom (snd op).

(* where the model speaks (keys with an ASCII first byte, numbers up to 2^54) *)
Definition act_modelled (a : act) : bool :=
  match a with
  | ASet k v => key_modelled k && modelled v
  | APush v | AUnshift v => modelled v
  | _ => true
  end.

(* ------------------------------------------------------------------ histories *)

Inductive hstep :=
| HConv (v : nat)                (* v := Convert(d): what a render binds the page data to; the Go caller's Convert *)
| HParse (v u : nat)             (* v := JSON.parse(JSON.stringify(u))                                             *)
| HMut (v : nat) (op : mop)      (* a mutation through v                                                           *)
| HOut (v : nat).                (* JSON.stringify(v) / json(v) is written out                                      *)

Fixpoint lookup_nat {A} (v : nat) (e : list (nat * A)) : option A :=
  match e with
  | [] => None
  | (v', a) :: r => if Nat.eqb v v' then Some a else lookup_nat v r
  end.

(* the latest binding of v *)
Fixpoint upd_var {A} (v : nat) (f : A -> A) (e : list (nat * A)) : list (nat * A) :=
  match e with
  | [] => []
  | (v', a) :: r => if Nat.eqb v v' then (v', f a) :: r else (v', a) :: upd_var v f r
  end.

Record pstate := { heap : list obj; env : list (nat * nat); cache : list (bytes * nat) }.

Definition st0 : pstate := {| heap := []; env := []; cache := [] |}.

Definition deref (st : pstate) (v : nat) : option obj :=
  match lookup_nat v (env st) with
  | Some a => nth_error (heap st) a
  | None => None
  end.

(* v := a new cell holding o *)
Definition bind_new (st : pstate) (v : nat) (o : obj) (c : list (bytes * nat)) : pstate :=
  {| heap := heap st ++ [o]; env := (v, length (heap st)) :: env st; cache := c |}.

(* M.  cx = Convert(d).  A step on an unbound variable does nothing (HOut: writes nothing, None) *)
Fixpoint run_proc (memo : bool) (cx : obj) (steps : list hstep) (st : pstate) : list (option bytes) :=
  match steps with
  | [] => []
  | HConv v :: r => run_proc memo cx r (bind_new st v cx (cache st))
  | HParse v u :: r =>
    match deref st u with
    | Some o =>
      let t := stringify o in
      match (if memo then lookup t (cache st) else None) with
      | Some a => run_proc memo cx r {| heap := heap st; env := (v, a) :: env st; cache := cache st |}
      | None =>
        match parse t with
        | Some y => run_proc memo cx r (bind_new st v y (if memo then (t, length (heap st)) :: cache st else cache st))
        | None => run_proc memo cx r st
        end
      end
    | None => run_proc memo cx r st
    end
  | HMut v op :: r =>
    match lookup_nat v (env st) with
    | Some a => run_proc memo cx r {| heap := upd_nth a (obj_apply op) (heap st); env := env st; cache := cache st |}
    | None => run_proc memo cx r st
    end
  | HOut v :: r => option_map stringify (deref st v) :: run_proc memo cx r st
  end.

(* the process as it is: no table *)
Definition run_data (d : gv) (steps : list hstep) : list (option bytes) := run_proc false (convert d) steps st0.
(* the process with a table of parsed texts *)
Definition run_memo (d : gv) (steps : list hstep) : list (option bytes) := run_proc true (convert d) steps st0.

(* S.  j = the data's JSON value; every variable owns a tree *)
Fixpoint spec_run (j : jv) (steps : list hstep) (senv : list (nat * jv)) : list (option jv) :=
  match steps with
  | [] => []
  | HConv v :: r => spec_run j r ((v, j) :: senv)
  | HParse v u :: r =>
    match lookup_nat u senv with
    | Some ju => spec_run j r ((v, ju) :: senv)
    | None => spec_run j r senv
    end
  | HMut v op :: r => spec_run j r (upd_var v (jv_apply op) senv)
  | HOut v :: r => lookup_nat v senv :: spec_run j r senv
  end.

(* which outputs are of a value nothing has been done to: the data itself or an (iterated) parse of its text.
   Their text must be THE text of the data, byte for byte. *)
Fixpoint pristine_run (steps : list hstep) (fenv : list (nat * bool)) : list bool :=
  match steps with
  | [] => []
  | HConv v :: r => pristine_run r ((v, true) :: fenv)
  | HParse v u :: r =>
    match lookup_nat u fenv with
    | Some b => pristine_run r ((v, b) :: fenv)
    | None => pristine_run r fenv
    end
  | HMut v _ :: r => pristine_run r (upd_var v (fun _ => false) fenv)
  | HOut v :: r => match lookup_nat v fenv with Some b => b | None => false end :: pristine_run r fenv
  end.

(* a history the generator may write: variables bound before use, every mutation fits its receiver *)
Fixpoint steps_fit (steps : list hstep) (senv : list (nat * jv)) (j : jv) : bool :=
  match steps with
  | [] => true
  | HConv v :: r => steps_fit r ((v, j) :: senv) j
  | HParse v u :: r =>
    match lookup_nat u senv with
    | Some ju => steps_fit r ((v, ju) :: senv) j
    | None => false
    end
  | HMut v op :: r =>
    match lookup_nat v senv with
    | Some jv0 => op_fits op jv0 && steps_fit r (upd_var v (jv_apply op) senv) j
    | None => false
    end
  | HOut v :: r => match lookup_nat v senv with Some _ => steps_fit r senv j | None => false end
  end.

Definition step_dom (s : hstep) : bool := match s with HMut _ op => op_dom op | _ => true end.
Definition step_modelled (s : hstep) : bool := match s with HMut _ op => act_modelled (snd op) | _ => true end.
Definition steps_dom (steps : list hstep) : bool := forallb step_dom steps.
Definition steps_modelled (steps : list hstep) : bool := forallb step_modelled steps.

(* ------------------------------------------------------------------ what the theorems speak about *)

(* template objects of the property's domain: keys pairwise distinct, lower-case-initial, Unicode; text Unicode.
   Convert(d) of data in dom_C12 is one, JSON.parse of the text of one is one, a mutation in op_dom keeps it one
   (Proofs: dom_good, parse_stringify_good, apply_commutes) *)
Fixpoint goodb (o : obj) : bool :=
  match o with
  | ONil | OBool _ | ONum _ => true
  | OStr s => utf8_valid s
  | OArr l => forallb goodb l
  | OMap m => nodupb (map fst m)
              && forallb (fun kv => match kv with (k, v) => key_lower_initial k && utf8_valid k && goodb v end) m
  end.

(* a text written by the process against the tree the value semantics holds *)
Definition reads_back_as (o : option bytes) (sj : option jv) : Prop :=
  match o, sj with
  | Some t, Some j => decode t = Some j /\ valid_json t = true
  | None, None => True
  | _, _ => False
  end.
