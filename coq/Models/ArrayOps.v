(* C20 — Array / String methods called from templates.

   M  : what pugjs/types.go (Array.Member / String.Member and the methods) and the call
        path of pugjs/tpl_exec.go (evalField -> evalCall -> evalArg / validateType ->
        convert of the result) compute, on the tree *after* the repairs
          F-C20-a  splice copies the removed tail        F-C20-b  slice copies
          F-C20-d  pop() on []  -> Nil                   F-C20-e  shift() on [] -> Nil in templates
                                                         (the nil Object of Shift converts to Nil: /repo e445c77)
          F-C20-f  validateType boxes native int/string/bool for pugjs-typed parameters
        With a/b every *Array owns its backing storage exclusively (push = append,
        pop/shift = re-slice of the own storage, unshift = fresh storage), so an array
        is a location holding a list.  Kept as they are (listed findings): push and
        sort return Nil (F-C20-c), Nil.String() = "" is the sort key of null (F-C20-g).
   S  : JavaScript's methods of the same name on plain lists in a JS heap, and what pug
        prints for the results.
   Second names: besides '- var x = y' (SAlias) a template hands an array to a mixin parameter,
        a loop variable, an object member / array element, the value of ?: || &&, the result of
        slice / pop on the holder: SPass (M: convert() of the value, the same *Array; S: the same
        value).  The correspondence cases are flat programs: gen/c20.py `flatten` unfolds mixin
        calls, block contents and loop bodies and gives every parameter / member a variable.
   Definitions only; proofs are in Proofs/ArrayOpsProofs.v. *)
From Coq Require Import ZArith List Ascii String Bool.
From PV Require Import Base.Bytes.
Import ListNotations.

(* ------------------------------------------------------------------ programs *)
Inductive lit := LNum (z : Z) | LStr (s : bytes) | LBool (b : bool).
Inductive arg := ALit (l : lit) | AVar (x : nat).
Inductive meth :=
| MPush | MPop | MShift | MUnshift | MSort | MSplice | MSlice | MIndexOf | MJoin | MLength
| MCharAt | MSplit | MUpper | MLower.
(* - var r = recv.f(args)   |   = recv.f(args)   |   - recv.f(args) *)
Inductive mode := Bind (r : nat) | Print | Discard.
Inductive stmt :=
| SCall (m : mode) (recv : nat) (f : meth) (args : list arg)
| SAlias (x y : nat)          (* - var x = y *)
| SPrintVar (x : nat)         (* = x *)
| SPass (x : nat) (a : arg).  (* x is a new name for the value of a, handed over through an argument list, an array
                                 or object literal, an element or member access or a method result:
                                 mixin m(x) ... +m(a) | each x in [a, ..] | - var h = {k: a} (x is h.k) | h[0] | h.pop() *)
Definition prog := list stmt.

(* ------------------------------------------------------------------ shared helpers *)
Definition ten10 : Z := 10000000000.
(* Number.String() = big.NewFloat(x).String() (%.10g) and JS ToString agree on integers below 10^10 *)
Definition num_text (z : Z) : option bytes :=
  if Z.ltb (Z.abs z) ten10 then Some (show_Z z) else None.
Definition bool_text (b : bool) : bytes := if b then B "true" else B "false".

Fixpoint bytes_ltb (a b : bytes) : bool :=
  match a, b with
  | [], [] => false
  | [], _ :: _ => true
  | _ :: _, [] => false
  | x :: a', y :: b' =>
    let nx := N_of_ascii x in let ny := N_of_ascii y in
    if N.ltb nx ny then true else if N.ltb ny nx then false else bytes_ltb a' b'
  end.

Definition is_ascii (c : ascii) : bool := N.ltb (N_of_ascii c) 128.
Definition all_ascii (s : bytes) : bool := forallb is_ascii s.
Definition up_char (c : ascii) : ascii :=
  let n := N_of_ascii c in if N.leb 97 n && N.leb n 122 then ascii_of_N (n - 32) else c.
Definition low_char (c : ascii) : ascii :=
  let n := N_of_ascii c in if N.leb 65 n && N.leb n 90 then ascii_of_N (n + 32) else c.

Fixpoint omap {A B} (f : A -> option B) (l : list A) : option (list B) :=
  match l with
  | [] => Some []
  | x :: r => match f x, omap f r with Some y, Some ys => Some (y :: ys) | _, _ => None end
  end.

Fixpoint upd {A} (l : list A) (n : nat) (x : A) : list A :=
  match l, n with
  | [], _ => []
  | _ :: r, O => x :: r
  | y :: r, S k => y :: upd r k x
  end.

Fixpoint env_get {V} (x : nat) (e : list (nat * V)) : option V :=
  match e with
  | [] => None
  | (y, v) :: r => if Nat.eqb x y then Some v else env_get x r
  end.
(* {{ $x := v }} : re-assigns an existing variable or creates it *)
Fixpoint env_set {V} (x : nat) (v : V) (e : list (nat * V)) : list (nat * V) :=
  match e with
  | [] => [(x, v)]
  | (y, w) :: r => if Nat.eqb x y then (y, v) :: r else (y, w) :: env_set x v r
  end.

(* stable sort of (key, element) pairs by byte order of the keys *)
Fixpoint ins {A} (p : bytes * A) (l : list (bytes * A)) : list (bytes * A) :=
  match l with
  | [] => [p]
  | q :: r => if bytes_ltb (fst q) (fst p) then q :: ins p r else p :: q :: r
  end.
Definition ssort {A} (l : list (bytes * A)) : list (bytes * A) := fold_right ins [] l.

(* two elements with the same key that are not the same value: their final order
   depends on the algorithm's stability *)
Fixpoint has_tie {A} (eqb : A -> A -> bool) (l : list (bytes * A)) : bool :=
  match l with
  | [] => false
  | p :: r => existsb (fun q => beqb (fst p) (fst q) && negb (eqb (snd p) (snd q))) r || has_tie eqb r
  end.
(* sort.Slice is an insertion sort (stable) up to 12 elements and pdqsort (not stable) above *)
Definition tie_risk {A} (eqb : A -> A -> bool) (l : list (bytes * A)) : bool :=
  Nat.ltb 12 (length l) && has_tie eqb l.

(* strings.Index : the smallest k with sub a prefix of s[k:]  (JavaScript's side: js_index_of below) *)
Fixpoint index_from (sub s : bytes) (k : nat) : option nat :=
  if prefixb sub s then Some k
  else match s with [] => None | _ :: r => index_from sub r (S k) end.
Definition str_index (sub s : bytes) : Z :=
  match index_from sub s 0 with Some k => Z.of_nat k | None => (-1)%Z end.

(* strings.Split : explode for the empty separator, else cut at each next Index  (JavaScript's side: js_split below) *)
Fixpoint split_go (fuel : nat) (sep s cur : bytes) : list bytes :=
  match fuel with
  | O => [rev cur ++ s]
  | S f =>
    match s with
    | [] => [rev cur]
    | c :: r =>
      if prefixb sep s then rev cur :: split_go f sep (skipn (length sep) s) []
      else split_go f sep r (c :: cur)
    end
  end.
Definition str_split (sep s : bytes) : list bytes :=
  match sep with
  | [] => map (fun c => [c]) s
  | _ :: _ => split_go (S (length s)) sep s []
  end.

Definition last_opt {A} (l : list A) : option A :=
  match rev l with [] => None | x :: _ => Some x end.

(* ================================================================== M : the Go code *)
Inductive gval :=
| GInt (z : Z) | GStr (s : bytes) | GBool (b : bool)      (* native Go values: template literals held in variables *)
| Num (z : Z) | Str (s : bytes) | Bool (b : bool) | Nil   (* pugjs.Number (integer-valued) / String / Bool / Nil *)
| Arr (l : nat).                                           (* *pugjs.Array *)

Inductive mres (A : Type) := MOk (a : A) | MPanic | MUnmod.
Arguments MOk {A} a. Arguments MPanic {A}. Arguments MUnmod {A}.
Definition mbind {A B} (r : mres A) (f : A -> mres B) : mres B :=
  match r with MOk a => f a | MPanic => MPanic | MUnmod => MUnmod end.
Notation "'mdo' x <- r ; k" := (mbind r (fun x => k)) (at level 200, x pattern, r at level 100, k at level 200).
Definition of_opt {A} (o : option A) : mres A := match o with Some a => MOk a | None => MUnmod end.

Record mstate := { m_env : list (nat * gval); m_heap : list (list gval) }.

(* convert() *)
Definition box (g : gval) : gval :=
  match g with GInt z => Num z | GStr s => Str s | GBool b => Bool b | _ => g end.

(* Object.String() of an element / fmt.Fprint of a native; arrays inside arrays are not modelled *)
Definition gtext (g : gval) : option bytes :=
  match g with
  | GInt z => Some (show_Z z)
  | Num z => num_text z
  | GStr s | Str s => Some s
  | GBool b | Bool b => Some (bool_text b)
  | Nil => Some []
  | Arr _ => None
  end.

(* reflect.DeepEqual on two converted scalars *)
Definition gval_eqb (a b : gval) : bool :=
  match a, b with
  | Num x, Num y => Z.eqb x y
  | Str x, Str y => beqb x y
  | Bool x, Bool y => Bool.eqb x y
  | Nil, Nil => true
  | GInt x, GInt y => Z.eqb x y
  | GStr x, GStr y => beqb x y
  | GBool x, GBool y => Bool.eqb x y
  | Arr x, Arr y => Nat.eqb x y
  | _, _ => false
  end.

(* parameter types of the methods in types.go *)
Inductive pkind := PNumber | PObject | PIface | PString.

(* evalArg on a literal argument node.  A negative number literal is emitted as (__op__sub n),
   a pipeline whose value is a Number that then goes through validateType. *)
Definition lit_arg (k : pkind) (l : lit) : mres gval :=
  match k, l with
  | PNumber, LNum z => MOk (Num z)                       (* evalFloat / Number assignable *)
  | PNumber, _ => MPanic                                 (* "expected float" *)
  | PObject, LNum z => MOk (Num z)
  | PObject, LStr s => MOk (Str s)
  | PObject, LBool b => MOk (Bool b)
  | PIface, LNum z => MOk (if Z.ltb z 0 then Num z else GInt z)  (* idealConstant *)
  | PIface, LStr s => MOk (GStr s)
  | PIface, LBool b => MOk (GBool b)
  | PString, LStr s => MOk (GStr s)                      (* evalString *)
  | PString, LNum z => if Z.ltb z 0 then of_opt (option_map GStr (num_text z)) else MPanic
  | PString, LBool _ => MPanic                           (* "expected string" *)
  end.

(* validateType on the value of a variable *)
Definition validate (k : pkind) (g : gval) : mres gval :=
  match k, g with
  | PNumber, Num z => MOk (Num z)
  | PNumber, GInt z => MOk (Num z)                       (* repaired: natives are boxed *)
  | PNumber, Nil => MOk (Num 0)                          (* reflect.Zero(typ) *)
  | PNumber, Arr _ => MUnmod
  | PNumber, _ => MPanic                                 (* "wrong type for value" *)
  | PObject, _ => MOk (box g)                            (* repaired: natives are boxed *)
  | PIface, _ => MOk g
  | PString, GStr s => MOk (GStr s)
  | PString, Str s => MOk (GStr s)                       (* Object -> o.String() *)
  | PString, Num z => of_opt (option_map GStr (num_text z))
  | PString, Bool b => MOk (GStr (bool_text b))
  | PString, Nil => MOk (GStr [])
  | PString, Arr _ => MUnmod
  | PString, _ => MPanic                                 (* native int / bool for a string parameter *)
  end.

Definition eval_arg (env : list (nat * gval)) (k : pkind) (a : arg) : mres gval :=
  match a with
  | ALit l => lit_arg k l
  | AVar x => match env_get x env with Some g => validate k g | None => MUnmod end
  end.

(* signatures: fixed parameters, variadic tail *)
Definition arr_sig (f : meth) : option (list pkind * option pkind) :=
  match f with
  | MPush => Some ([PObject], None)
  | MPop | MShift | MSort | MLength => Some ([], None)
  | MUnshift => Some ([], Some PObject)
  | MSplice | MSlice => Some ([PNumber], None)
  | MIndexOf => Some ([PIface], None)
  | MJoin => Some ([PString], None)
  | _ => None                                            (* "field not found on pugjs Array" *)
  end.
Definition str_sig (f : meth) : option (list pkind * option pkind) :=
  match f with
  | MLength | MUpper | MLower => Some ([], None)
  | MCharAt => Some ([PNumber], None)
  | MSlice => Some ([PNumber], Some PNumber)
  | MIndexOf | MSplit => Some ([PString], None)
  | _ => None
  end.

(* evalCall: arity check, then the arguments left to right *)
Fixpoint eval_args (env : list (nat * gval)) (fixed : list pkind) (var : option pkind) (args : list arg)
  : mres (list gval) :=
  match fixed, args with
  | k :: ks, a :: r => mdo g <- eval_arg env k a; mdo gs <- eval_args env ks var r; MOk (g :: gs)
  | _ :: _, [] => MPanic                                 (* "wrong number of args" *)
  | [], [] => MOk []
  | [], a :: r =>
    match var with
    | Some k => mdo g <- eval_arg env k a; mdo gs <- eval_args env [] var r; MOk (g :: gs)
    | None => MPanic
    end
  end.
(* the arity check precedes every evaluation *)
Definition arity_ok (fixed : list pkind) (var : option pkind) (n : nat) : bool :=
  match var with Some _ => Nat.leb (length fixed) n | None => Nat.eqb (length fixed) n end.

(* --- Array methods (types.go, repaired) : heap, location, converted arguments -> heap, result *)
Definition keyed_g (items : list gval) : option (list (bytes * gval)) :=
  omap (fun g => option_map (fun t => (t, g)) (gtext g)) items.

Fixpoint index_of_g (w : gval) (items : list gval) (k : nat) : Z :=
  match items with
  | [] => (-1)%Z
  | x :: r => if gval_eqb x w then Z.of_nat k else index_of_g w r (S k)
  end.

Definition in_bounds (n : Z) (len : nat) : bool := Z.leb 0 n && Z.leb n (Z.of_nat len).

Definition arr_method (h : list (list gval)) (l : nat) (items : list gval) (f : meth) (args : list gval)
  : mres (list (list gval) * gval) :=
  match f, args with
  | MPush, [x] => MOk (upd h l (items ++ [x]), Nil)                       (* append; returns Nil{} *)
  | MPop, [] =>
    match last_opt items with
    | None => MOk (h, Nil)                                                (* repaired *)
    | Some x => MOk (upd h l (removelast items), x)
    end
  | MShift, [] =>
    match items with
    | [] => MOk (h, Nil)                                                  (* repaired *)
    | x :: r => MOk (upd h l r, x)
    end
  | MUnshift, xs => MOk (upd h l (xs ++ items), Num (Z.of_nat (length xs + length items)))
  | MSort, [] =>
    match keyed_g items with
    | None => MUnmod
    | Some ps => if tie_risk gval_eqb ps then MUnmod
                 else MOk (upd h l (map snd (ssort ps)), Nil)             (* returns Nil{} *)
    end
  | MSplice, [Num n] =>
    if in_bounds n (length items) then
      let k := Z.to_nat n in
      MOk (upd h l (firstn k items) ++ [skipn k items], Arr (length h))   (* repaired: own storage *)
    else MPanic                                                           (* slice bounds out of range *)
  | MSlice, [Num n] =>
    if in_bounds n (length items) then MOk (h ++ [skipn (Z.to_nat n) items], Arr (length h))
    else MPanic
  | MIndexOf, [w] => MOk (h, Num (index_of_g (box w) items 0))
  | MJoin, [GStr sep] =>
    match omap gtext items with
    | Some ts => MOk (h, Str (join sep ts))
    | None => MUnmod
    end
  | MLength, [] => MOk (h, Num (Z.of_nat (length items)))
  | _, _ => MUnmod
  end.

(* --- String methods (types.go); results converted by evalCall (string -> String, int -> Number,
       []string -> a new Array of Strings) *)
Definition str_method (h : list (list gval)) (s : bytes) (f : meth) (args : list gval)
  : mres (list (list gval) * gval) :=
  let len := Z.of_nat (length s) in
  match f, args with
  | MLength, [] => MOk (h, Num len)
  | MCharAt, [Num n] =>
    if Z.leb len n then MOk (h, Str [])
    else if Z.ltb n 0 then MPanic                                         (* index out of range *)
    else MOk (h, Str (firstn 1 (skipn (Z.to_nat n) s)))
  | MIndexOf, [GStr d] => MOk (h, Num (str_index d s))
  | MSlice, [Num n] =>
    if Z.ltb len n then MOk (h, Str [])
    else let from := if Z.ltb n 0 then (len + n)%Z else n in
         if Z.ltb from 0 then MPanic                                      (* slice bounds out of range *)
         else MOk (h, Str (skipn (Z.to_nat from) s))
  | MSplit, [GStr d] => MOk (h ++ [map Str (str_split d s)], Arr (length h))
  | MUpper, [] => MOk (h, Str (map up_char s))
  | MLower, [] => MOk (h, Str (map low_char s))
  | _, _ => MUnmod
  end.

(* evalField on the receiver, then evalCall *)
Definition m_call (st : mstate) (recv : nat) (f : meth) (args : list arg)
  : mres (list (list gval) * gval) :=
  match env_get recv (m_env st) with
  | Some (Arr l) =>
    match nth_error (m_heap st) l, arr_sig f with
    | Some items, Some (fixed, var) =>
      if arity_ok fixed var (length args) then
        mdo gs <- eval_args (m_env st) fixed var args; arr_method (m_heap st) l items f gs
      else MPanic
    | _, _ => MUnmod
    end
  | Some (Str s) | Some (GStr s) =>
    match str_sig f with
    | Some (fixed, var) =>
      if arity_ok fixed var (length args) then
        mdo gs <- eval_args (m_env st) fixed var args; str_method (m_heap st) s f gs
      else MPanic
    | None => MUnmod
    end
  | _ => MUnmod
  end.

(* a value handed over: __op__array / __op__map / Push convert() it (natives are boxed, a *Array is
   the same *Array: convert returns an Object as it is), __tryindex / Member / Pop give the stored Object back.
   No copy is made anywhere on the way. *)
Definition box_lit (l : lit) : gval :=
  match l with LNum z => Num z | LStr s => Str s | LBool b => Bool b end.
Definition pass_val (env : list (nat * gval)) (a : arg) : mres gval :=
  match a with
  | ALit l => MOk (box_lit l)
  | AVar y => mdo g <- of_opt (env_get y env); MOk (box g)
  end.

(* one statement: new state and what it writes ([] : nothing is written) *)
Definition m_step (st : mstate) (s : stmt) : mres (mstate * list bytes) :=
  match s with
  | SCall md recv f args =>
    mdo hr <- m_call st recv f args;
    let '(h, r) := hr in
    match md with
    | Bind x => MOk ({| m_env := env_set x r (m_env st); m_heap := h |}, [])
    | Print | Discard =>                         (* a bare expression statement prints its value too *)
      mdo t <- of_opt (gtext r); MOk ({| m_env := m_env st; m_heap := h |}, [t])
    end
  | SAlias x y =>
    mdo g <- of_opt (env_get y (m_env st));
    MOk ({| m_env := env_set x g (m_env st); m_heap := m_heap st |}, [])
  | SPrintVar x =>
    mdo g <- of_opt (env_get x (m_env st)); mdo t <- of_opt (gtext g); MOk (st, [t])
  | SPass x a =>
    mdo g <- pass_val (m_env st) a;
    MOk ({| m_env := env_set x g (m_env st); m_heap := m_heap st |}, [])
  end.

Fixpoint m_run (p : prog) (st : mstate) : mres (mstate * list bytes) :=
  match p with
  | [] => MOk (st, [])
  | s :: r =>
    mdo so <- m_step st s; let '(st1, o1) := so in
    mdo so' <- m_run r st1; let '(st2, o2) := so' in
    MOk (st2, o1 ++ o2)
  end.

(* ================================================================== S : JavaScript *)
Inductive jval := JNum (z : Z) | JStr (s : bytes) | JBool (b : bool) | JNull | JUndef | JArr (l : nat).
Record jstate := { j_env : list (nat * jval); j_heap : list (list jval) }.

(* classes of calls on which the code is known to deviate (listed findings) *)
Inductive flag :=
| FUnit       (* the value of push / sort is used: JS gives the new length / the array, the code gives null *)
| FNullish    (* sort of an array holding null/undefined; indexOf of a null/undefined needle *)
| FLongTie.   (* sort of more than 12 elements with equal keys: JS is stable, sort.Slice is not *)

Definition nullish (j : jval) : bool := match j with JNull | JUndef => true | _ => false end.
Definition is_jarr (j : jval) : bool := match j with JArr _ => true | _ => false end.

(* ToString of a primitive (numbers: the integers below 10^10) *)
Definition jtext (j : jval) : option bytes :=
  match j with
  | JNum z => num_text z
  | JStr s => Some s
  | JBool b => Some (bool_text b)
  | JNull => Some (B "null")
  | JUndef => Some (B "undefined")
  | JArr _ => None
  end.
(* what pug writes for a buffered value; what join writes for an element *)
Definition jshow (j : jval) : option bytes := if nullish j then Some [] else jtext j.

(* === *)
Definition jval_eqb (a b : jval) : bool :=
  match a, b with
  | JNum x, JNum y => Z.eqb x y
  | JStr x, JStr y => beqb x y
  | JBool x, JBool y => Bool.eqb x y
  | JNull, JNull | JUndef, JUndef => true
  | JArr x, JArr y => Nat.eqb x y
  | _, _ => false
  end.

Definition jlit (l : lit) : jval :=
  match l with LNum z => JNum z | LStr s => JStr s | LBool b => JBool b end.
Definition jeval (env : list (nat * jval)) (a : arg) : option jval :=
  match a with ALit l => Some (jlit l) | AVar x => env_get x env end.

Fixpoint index_of_j (w : jval) (items : list jval) (k : nat) : Z :=
  match items with
  | [] => (-1)%Z
  | x :: r => if jval_eqb x w then Z.of_nat k else index_of_j w r (S k)
  end.

Definition is_undef (j : jval) : bool := match j with JUndef => true | _ => false end.
(* Array.prototype.sort without comparator: undefined last, the rest by ToString, stable *)
Definition js_sort (items : list jval) : option (list jval) :=
  let defs := filter (fun j => negb (is_undef j)) items in
  let undefs := filter is_undef items in
  match omap (fun j => option_map (fun t => (t, j)) (jtext j)) defs with
  | Some ps => Some (map snd (ssort ps) ++ undefs)
  | None => None
  end.
Definition keyed_j (items : list jval) : option (list (bytes * jval)) :=
  omap (fun j => option_map (fun t => (t, j)) (jtext j)) items.

(* the methods; None = outside the range the property speaks about
   (wrong argument type, index out of range, arrays inside arrays, numbers of 10^10 and above) *)
Definition js_arr_method (h : list (list jval)) (l : nat) (items : list jval) (f : meth) (args : list jval)
  : option (list (list jval) * jval * list flag) :=
  match f, args with
  | MPush, [x] =>
    if is_jarr x then None
    else Some (upd h l (items ++ [x]), JNum (Z.of_nat (length items + 1)), [])
  | MPop, [] =>
    match last_opt items with
    | None => Some (h, JUndef, [])
    | Some x => Some (upd h l (removelast items), x, [])
    end
  | MShift, [] =>
    match items with
    | [] => Some (h, JUndef, [])
    | x :: r => Some (upd h l r, x, [])
    end
  | MUnshift, xs =>
    if existsb is_jarr xs then None
    else Some (upd h l (xs ++ items), JNum (Z.of_nat (length xs + length items)), [])
  | MSort, [] =>
    match js_sort items, keyed_j items with
    | Some sorted, Some ps =>
      Some (upd h l sorted, JArr l,
            (if existsb nullish items then [FNullish] else []) ++
            (if tie_risk jval_eqb ps then [FLongTie] else []))
    | _, _ => None
    end
  | MSplice, [JNum n] =>
    if in_bounds n (length items) then
      let k := Z.to_nat n in
      Some (upd h l (firstn k items) ++ [skipn k items], JArr (length h), [])
    else None
  | MSlice, [JNum n] =>
    if in_bounds n (length items) then Some (h ++ [skipn (Z.to_nat n) items], JArr (length h), [])
    else None
  | MIndexOf, [w] =>
    if is_jarr w then None
    else Some (h, JNum (index_of_j w items 0), if nullish w then [FNullish] else [])
  | MJoin, [JStr sep] =>
    match omap jshow items with
    | Some ts => Some (h, JStr (join sep ts), [])
    | None => None
    end
  | MLength, [] => Some (h, JNum (Z.of_nat (length items)), [])
  | _, _ => None
  end.

(* String.prototype on ASCII strings.  split, indexOf and the case mappings are written here from
   ECMA-262, separately from the helpers the Go side uses above (str_split = strings.Split,
   str_index = strings.Index, up_char/low_char = strings.ToUpper/ToLower on ASCII); that the two
   readings agree on every string is proved (Proofs: js_split_eq, js_index_eq, js_up_eq, js_low_eq),
   not assumed. *)
Definition js_substring (s : bytes) (from to : nat) : bytes := firstn (to - from) (skipn from s).

(* SplitMatch(S, q, R) on rest = S[q..]: R stands at q -> the text after it (S[e..]); otherwise failure *)
Fixpoint split_match (r rest : bytes) : option bytes :=
  match r, rest with
  | [], _ => Some rest
  | a :: r', b :: rest' => if Ascii.eqb a b then split_match r' rest' else None
  | _ :: _, [] => None
  end.
Definition is_nil {A} (l : list A) : bool := match l with [] => true | _ => false end.
(* the loop of String.prototype.split (separator a string, no limit): p <= q walk over S,
   cur = S[p..q) reversed, rest = S[q..].
     q = size            -> the last piece S[p..size)
     e = failure         -> q := q + 1
     e = p               -> q := q + 1        (only the empty separator matches without advancing)
     otherwise           -> piece S[p..q); p := e; q := p
   Blanks, tabs and line feeds are ordinary characters: nothing is trimmed, no piece is dropped. *)
Fixpoint js_split_loop (fuel : nat) (r cur rest : bytes) : list bytes :=
  match fuel with
  | O => []
  | S f =>
    match rest with
    | [] => [rev cur]
    | c :: rest' =>
      match split_match r rest with
      | None => js_split_loop f r (c :: cur) rest'
      | Some after =>
        if is_nil r && is_nil cur then js_split_loop f r (c :: cur) rest'
        else rev cur :: js_split_loop f r [] after
      end
    end
  end.
(* size = 0: [] if the separator matches the empty string (it is empty), else [S] *)
Definition js_split (r s : bytes) : list bytes :=
  match s with
  | [] => if is_nil r then [] else [[]]
  | _ :: _ => js_split_loop (S (2 * length s)) r [] s
  end.

(* String.prototype.indexOf(searchString): the smallest k with k + |R| <= size and S[k..k+|R|) = R; -1 if none *)
Definition js_index_of (r s : bytes) : Z :=
  match find (fun k => beqb (firstn (length r) (skipn k s)) r) (seq 0 (S (length s))) with
  | Some k => Z.of_nat k
  | None => (-1)%Z
  end.

(* toUpperCase / toLowerCase on ASCII: the 26 letter pairs of the Unicode case mappings, every other
   character (digits, blanks, punctuation, @ [ ` { next to the letter ranges) maps to itself *)
Definition letter_pairs : list (ascii * ascii) :=
  combine (B "abcdefghijklmnopqrstuvwxyz") (B "ABCDEFGHIJKLMNOPQRSTUVWXYZ").
Fixpoint assoc_char (c : ascii) (t : list (ascii * ascii)) : ascii :=
  match t with
  | [] => c
  | (a, b) :: r => if Ascii.eqb c a then b else assoc_char c r
  end.
Definition js_up (c : ascii) : ascii := assoc_char c letter_pairs.
Definition js_low (c : ascii) : ascii := assoc_char c (map (fun p => (snd p, fst p)) letter_pairs).
Definition js_str_method (h : list (list jval)) (s : bytes) (f : meth) (args : list jval)
  : option (list (list jval) * jval * list flag) :=
  let len := length s in
  if negb (all_ascii s) then None else
  match f, args with
  | MLength, [] => Some (h, JNum (Z.of_nat len), [])
  | MCharAt, [JNum n] =>
    if Z.ltb n 0 then None
    else Some (h, JStr (match nth_error s (Z.to_nat n) with Some c => [c] | None => [] end), [])
  | MIndexOf, [JStr d] => Some (h, JNum (js_index_of d s), [])
  | MSlice, [JNum n] =>
    (* from = n < 0 ? max(len + n, 0) : min(n, len); the claim covers n >= -len *)
    if Z.ltb n (- Z.of_nat len) then None
    else let from := if Z.ltb n 0 then Z.to_nat (Z.of_nat len + n) else Nat.min (Z.to_nat n) len in
         Some (h, JStr (js_substring s from len), [])
  | MSplit, [JStr d] => Some (h ++ [map JStr (js_split d s)], JArr (length h), [])
  | MUpper, [] => Some (h, JStr (map js_up s), [])
  | MLower, [] => Some (h, JStr (map js_low s), [])
  | _, _ => None
  end.

Definition js_call (st : jstate) (recv : nat) (f : meth) (args : list arg)
  : option (list (list jval) * jval * list flag) :=
  match env_get recv (j_env st), omap (jeval (j_env st)) args with
  | Some (JArr l), Some js =>
    match nth_error (j_heap st) l with
    | Some items => js_arr_method (j_heap st) l items f js
    | None => None
    end
  | Some (JStr s), Some js => js_str_method (j_heap st) s f js
  | _, _ => None
  end.

Definition unit_meth (f : meth) : bool := match f with MPush | MSort => true | _ => false end.

Definition js_step (st : jstate) (s : stmt) : option (jstate * list bytes * list flag) :=
  match s with
  | SCall md recv f args =>
    match js_call st recv f args with
    | Some (h, r, fl) =>
      match md with
      | Bind x => Some ({| j_env := env_set x r (j_env st); j_heap := h |}, [],
                        fl ++ (if unit_meth f then [FUnit] else []))
      | Print =>
        match jshow r with                        (* printing an array is outside the claim *)
        | Some t => Some ({| j_env := j_env st; j_heap := h |}, [t],
                          fl ++ (if unit_meth f then [FUnit] else []))
        | None => None
        end
      | Discard =>
        (* an unbuffered statement writes nothing; used for push and sort only, every other
           bare call makes the code print the value (another property's finding) *)
        if unit_meth f then Some ({| j_env := j_env st; j_heap := h |}, [[]], fl) else None
      end
    | None => None
    end
  | SAlias x y =>
    match env_get y (j_env st) with
    | Some j => Some ({| j_env := env_set x j (j_env st); j_heap := j_heap st |}, [], [])
    | None => None
    end
  | SPrintVar x =>
    match env_get x (j_env st) with
    | Some j => match jshow j with Some t => Some (st, [t], []) | None => None end
    | None => None
    end
  | SPass x a =>
    (* argument passing, element and member access: the value itself - for an array, the same array *)
    match jeval (j_env st) a with
    | Some j => Some ({| j_env := env_set x j (j_env st); j_heap := j_heap st |}, [], [])
    | None => None
    end
  end.

Fixpoint js_run (p : prog) (st : jstate) : option (jstate * list bytes * list flag) :=
  match p with
  | [] => Some (st, [], [])
  | s :: r =>
    match js_step st s with
    | Some (st1, o1, f1) =>
      match js_run r st1 with
      | Some (st2, o2, f2) => Some (st2, o1 ++ o2, f1 ++ f2)
      | None => None
      end
    | None => None
    end
  end.

(* ================================================================== the simulation relation *)
(* an element of an array: always a converted (boxed) scalar *)
Inductive erel : gval -> jval -> Prop :=
| er_num z : erel (Num z) (JNum z)
| er_str s : erel (Str s) (JStr s)
| er_bool b : erel (Bool b) (JBool b)
| er_null : erel Nil JNull
| er_undef : erel Nil JUndef.
(* the value of a variable: an element, a native, or an array *)
Inductive vrel : gval -> jval -> Prop :=
| vr_elem g j : erel g j -> vrel g j
| vr_int z : vrel (GInt z) (JNum z)
| vr_gstr s : vrel (GStr s) (JStr s)
| vr_gbool b : vrel (GBool b) (JBool b)
| vr_arr l : vrel (Arr l) (JArr l).

Definition env_rel (me : list (nat * gval)) (je : list (nat * jval)) : Prop :=
  Forall2 (fun p q => fst p = fst q /\ vrel (snd p) (snd q)) me je.
Definition heap_rel (mh : list (list gval)) (jh : list (list jval)) : Prop :=
  Forall2 (Forall2 erel) mh jh.
Definition st_rel (m : mstate) (j : jstate) : Prop :=
  env_rel (m_env m) (j_env j) /\ heap_rel (m_heap m) (j_heap j).

(* ================================================================== F-C20-a/b before the repair
   The storage discipline of the unrepaired Splice/Push, enough to exhibit the defect:
   a Go slice is (backing array id, offset, length); capacity = backing length - offset. *)
Record gslice := { sl_arr : nat; sl_off : nat; sl_len : nat }.
Definition sl_items (mem : list (list Z)) (s : gslice) : list Z :=
  firstn (sl_len s) (skipn (sl_off s) (nth (sl_arr s) mem [])).
(* a.items[n:] and a.items[:n] of the old Splice: both views of the same backing array *)
Definition old_splice (s : gslice) (n : nat) : gslice * gslice :=
  ({| sl_arr := sl_arr s; sl_off := sl_off s; sl_len := n |},
   {| sl_arr := sl_arr s; sl_off := sl_off s + n; sl_len := sl_len s - n |}).
(* append(a.items, x): in place while capacity lasts *)
Definition old_push (mem : list (list Z)) (s : gslice) (x : Z) : list (list Z) * gslice :=
  let back := nth (sl_arr s) mem [] in
  if Nat.ltb (sl_off s + sl_len s) (length back) then
    (upd mem (sl_arr s) (upd back (sl_off s + sl_len s) x),
     {| sl_arr := sl_arr s; sl_off := sl_off s; sl_len := S (sl_len s) |})
  else
    (mem ++ [sl_items mem s ++ [x]], {| sl_arr := length mem; sl_off := 0; sl_len := S (sl_len s) |}).

(* ================================================================== two names of one value
   programs that differ only in which of the two names x, y they use at each place a variable is
   READ (receiver, argument, source of an assignment, printed variable); neither name is re-bound *)
Definition veq (x y a b : nat) : Prop := a = b \/ (a = x /\ b = y) \/ (a = y /\ b = x).
Definition arg_swap (x y : nat) (a b : arg) : Prop :=
  match a, b with
  | ALit l, ALit l' => l = l'
  | AVar u, AVar v => veq x y u v
  | _, _ => False
  end.
Definition binder (s : stmt) : option nat :=
  match s with
  | SCall (Bind r) _ _ _ | SAlias r _ | SPass r _ => Some r
  | _ => None
  end.
Inductive reads_swapped (x y : nat) : stmt -> stmt -> Prop :=
| rs_call md u v f args args' :
    veq x y u v -> Forall2 (arg_swap x y) args args' ->
    reads_swapped x y (SCall md u f args) (SCall md v f args')
| rs_alias r u v : veq x y u v -> reads_swapped x y (SAlias r u) (SAlias r v)
| rs_print u v : veq x y u v -> reads_swapped x y (SPrintVar u) (SPrintVar v)
| rs_pass r a b : arg_swap x y a b -> reads_swapped x y (SPass r a) (SPass r b).
Definition swapped (x y : nat) (s s' : stmt) : Prop :=
  reads_swapped x y s s' /\ binder s <> Some x /\ binder s <> Some y.
