(* C03 — a directory of template files, as Engine.compileDir (pugjs/engine.go) loads it: which compiler state
   (renderState: mixin table, block table, call counter — Pug/Compile.v cstate) each file is compiled with.
   Definitions only; proofs are in Proofs/C03Proofs.v. *)
From PV Require Import Base.Bytes Js.Ast Pug.Ast Pug.Compile Tmpl.IR.

Section Dir.
  Variable funcs : list bytes.
  Variable dbg : bool.

  (* TokenToTemplate for one file, the compiler starting from a given state; `compile_text` of Pug/Compile.v is
     this from the empty state cs0 *)
  Definition compile_from (st : cstate) (nodes : list pnode) : option (bytes * cstate) :=
    match cnode funcs dbg (S (S (pnode_size (PBlock nodes)))) false st (PBlock nodes) with
    | Some (main, _, st') =>
      Some (show_toks (main ++ concat (cs_blocks st') ++ flat_map (fun m => TText nl :: snd m) (cs_mixins st')), st')
    | None => None
    end.

  (* M: compileDir as it is — every file is compiled by a compiler of its own (file name -> template text,
     None = the file does not compile) *)
  Definition load_dir (files : list (bytes * list pnode)) : list (bytes * option bytes) :=
    map (fun f => (fst f, compile_text funcs dbg (snd f))) files.

  (* the variant: ONE compiler for all the files, in listing order (the first definition of a mixin name wins,
     transform_mixin.go renderDefinition) *)
  Fixpoint load_dir_shared (st : cstate) (files : list (bytes * list pnode)) : list (bytes * option bytes) :=
    match files with
    | [] => []
    | (n, nodes) :: r =>
      match compile_from st nodes with
      | Some (t, st') => (n, Some t) :: load_dir_shared st' r
      | None => (n, None) :: load_dir_shared st r
      end
    end.
End Dir.

(* two pages of one directory define a mixin `card`, with different bodies and parameter lists; each calls its own *)
Definition ex_product : list pnode :=
  [PMixinDef (B "card") [B "t"] [PTag (B "article") false [] [] [PCode [SExpr (JId (B "t"))] true true; PMixinBlock]];
   PMixinCall (B "card") [JStr (B "Shoe")] [] [PText (B "new")]].
Definition ex_post : list pnode :=
  [PMixinDef (B "card") [B "kind"; B "t"] [PTag (B "section") false [] [] [PCode [SExpr (JId (B "t"))] true true]];
   PMixinCall (B "card") [JStr (B "note"); JStr (B "Hello")] [] []].
Definition ex_files : list (bytes * list pnode) := [(B "post", ex_post); (B "product", ex_product)].
