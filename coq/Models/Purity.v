(* C07 model: rendering is a pure, deterministic function of template and data.

   Three parts, each following the Go code named next to it.

   (a) ORDER.  Every place where pugjs ranges over a Go map, as a function that receives the
       iteration order from an oracle [pi] (Go randomises map iteration per map and per range
       statement).  The oracle is applied to the entry list exactly where the Go code has its
       `for k := range m` / `val.MapKeys()`:

         convert (types.go)            Go map  -> Map.items        newMap.items[keytext k] = convert v
         Template.execute (tpl_exec.go) top-level Map -> $Key / $key variables (sortKeys since the repair)
         Map.Keys (types.go)            items -> key list, sorted since the repair (F-C05-c), cached in order
         Map.MarshalJSON (types.go)     items -> tmp[lowerFirst k] (sorted visit since the repair), encoder sorts
         walkRange (tpl_exec.go)        explicit order, else sortKeys(MapKeys)
         Object.keys / Object.assign (templatefunctions/js_object.go)  via Map.Keys
         __op__map_params (runtime.go)  argument pairs -> Go map -> convert
         __and_attrs, __range_helper_keys__ (runtime.go)   via Map.Keys

       Template values are trees here ([tval]); a Map's items are a finite map in canonical form
       (sorted by key, one entry per key: [fm_insert] is Go's `m[k] = v`).  The pre-repair variants
       ([keys_site_unfixed], [globals_site_unfixed], [marshal_tmp_unfixed], [key_text_unfixed]) are
       kept for the refutation witnesses.

   (b) HISTORY.  The engine in production mode after a successful load as a state machine over
       render requests (engine.go Render): the template set is read, a fresh execution state is
       built from (template, converted data), run and dropped; only write-only statistics change.
       A process is a list of such engines with requests addressed to any of them; nothing else
       in the process is written by a render.
       LOADING (engine.go compileDir): the template set of an engine is the listing of its
       directory tree, every file translated by a translator (renderState) created for that file -
       a function of the file alone; [load_shared] is the variant with one translator carried
       from file to file, kept for the refutation witness.
       RESULTS (engine.go Render: `result := new(bytes.Buffer)`): what a render returns is a
       reader over a buffer allocated by that call; the buffers of a process form a heap that only
       grows, the caller reads a result whenever it wants.  [rstep_pooled] is the variant with
       one recycled buffer, kept for the refutation witness.

   (c) ALIASING.  One address space [store] of cells.  The caller's Go data occupies the cells below a
       boundary; convert allocates fresh cells above it and copies; every mutating template
       operation (push, pop, shift, unshift, sort, splice, slice, x.k = v, Object.assign) writes
       only through references a template variable can hold. *)
From PV Require Import Base.Bytes Base.Escape Tmpl.Value.
From Coq Require Import Permutation.

(* ======================================================================== (a) ORDER *)

(* keys of a Go map: strings, or other kinds (ints) *)
Inductive gkey := KStr (s : bytes) | KInt (z : Z).

(* repaired convert: non-string keys are named by fmt.Sprint *)
Definition key_text (k : gkey) : bytes :=
  match k with KStr s => s | KInt z => show_Z z end.
(* pre-repair: reflect.Value.String() of a non-string key *)
Definition key_text_unfixed (k : gkey) : bytes :=
  match k with KStr s => s | KInt _ => B "<int Value>" end.

(* the caller's data *)
Inductive gdata :=
| GNil
| GBool (b : bool)
| GInt (z : Z)
| GStr (s : bytes)
| GArr (l : list gdata)                    (* slice *)
| GMap (kvs : list (gkey * gdata))         (* Go map: some enumeration of its entries *)
| GStruct (fs : list (bytes * gdata))      (* exported fields in declaration order *)
| GPtr (d : option gdata).                 (* pointer; None = nil *)

(* template values (tree-shaped: sharing is the subject of part (c)) *)
Inductive tval :=
| TNil
| TBool (b : bool)
| TNum (z : Z)
| TStr (s : bytes)
| TArr (l : list tval)
| TMap (items : list (bytes * tval)) (order : list bytes).   (* order = [] : no explicit order *)

(* Go map assignment on the canonical representation *)
Fixpoint fm_insert {A} (k : bytes) (v : A) (m : list (bytes * A)) : list (bytes * A) :=
  match m with
  | [] => [(k, v)]
  | (k', v') :: r =>
    if bytes_ltb k k' then (k, v) :: (k', v') :: r
    else if beqb k k' then (k, v) :: r
    else (k', v') :: fm_insert k v r
  end.

(* assigning the entries one after the other, in the order given *)
Definition fm_of_list {A} (l : list (bytes * A)) : list (bytes * A) :=
  fold_left (fun m kv => fm_insert (fst kv) (snd kv) m) l [].

(* the iteration-order oracle *)
Definition oracle := forall A : Type, list (bytes * A) -> list (bytes * A).
Definition perm_oracle (pi : oracle) : Prop := forall A (l : list (bytes * A)), Permutation (pi A l) l.
Definition id_oracle : oracle := fun _ l => l.
Definition rev_oracle : oracle := fun _ l => rev l.
Definition rot_oracle : oracle := fun _ l => match l with [] => [] | x :: r => r ++ [x] end.

Definition nodupb (l : list bytes) : bool :=
  (fix go (l : list bytes) : bool :=
     match l with [] => true | x :: r => negb (mem x r) && go r end) l.

(* entries visited for a key list: value.MapIndex(k) / items[k] for each k *)
Definition visit {A} (items : list (bytes * A)) (ks : list bytes) : list (bytes * A) :=
  flat_map (fun k => match lookup k items with Some v => [(k, v)] | None => [] end) ks.

Section Sites.
  Variable pi : oracle.
  Variable kt : gkey -> bytes.    (* key naming of convert: key_text (repaired) / key_text_unfixed *)

  (* ---- convert (types.go): recursion first, then the map is filled in iteration order *)
  Fixpoint convert_with (d : gdata) : tval :=
    match d with
    | GNil => TNil
    | GBool b => TBool b
    | GInt z => TNum z
    | GStr s => TStr s
    | GArr l => TArr (map convert_with l)
    | GMap kvs =>
      TMap (fm_of_list (pi _ (map (fun kv => (kt (fst kv), convert_with (snd kv))) kvs))) []
    | GStruct fs =>
      (* Map.convert(): fields in declaration order, no map range involved *)
      TMap (fm_of_list (map (fun kv => (lower_first (fst kv), convert_with (snd kv))) fs)) []
    | GPtr None => TNil
    | GPtr (Some d') => convert_with d'
    end.

  (* ---- Map.Keys() *)
  Definition keys_site {A} (items : list (bytes * A)) (order : list bytes) : list bytes :=
    match order with
    | [] => sort_bytes (map fst (pi _ items))
    | _ => order
    end.
  Definition keys_site_unfixed {A} (items : list (bytes * A)) (order : list bytes) : list bytes :=
    match order with
    | [] => map fst (pi _ items)
    | _ => order
    end.

  (* ---- walkRange over a Map: explicit order (members only), else sortKeys(MapKeys) *)
  Definition range_site {A} (items : list (bytes * A)) (order : list bytes) : list (bytes * A) :=
    match order with
    | [] => visit items (sort_bytes (map fst (pi _ items)))
    | _ => visit items order
    end.

  (* ---- Template.execute: the variables built from the top-level map; lookup takes the LAST binding *)
  Definition bindings {A} (items : list (bytes * A)) (ks : list bytes) : list (bytes * A) :=
    flat_map (fun kv => [("$"%char :: fst kv, snd kv); ("$"%char :: lower_first (fst kv), snd kv)])
             (visit items ks).
  Definition globals_site {A} (items : list (bytes * A)) : list (bytes * A) :=
    bindings items (sort_bytes (map fst (pi _ items))).
  Definition globals_site_unfixed {A} (items : list (bytes * A)) : list (bytes * A) :=
    bindings items (map fst (pi _ items)).
  Definition var_lookup {A} (x : bytes) (vars : list (bytes * A)) : option A :=
    lookup ("$"%char :: x) (rev vars).

  (* ---- Map.MarshalJSON: tmp[lowerFirst k] = v over the (now sorted) keys *)
  Definition marshal_tmp {A} (items : list (bytes * A)) : list (bytes * A) :=
    fm_of_list (map (fun kv => (lower_first (fst kv), snd kv))
                    (visit items (sort_bytes (map fst (pi _ items))))).
  Definition marshal_tmp_unfixed {A} (items : list (bytes * A)) : list (bytes * A) :=
    fm_of_list (map (fun kv => (lower_first (fst kv), snd kv)) (pi _ items)).

  Definition json_obj (tmp : list (bytes * bytes)) : bytes :=
    B "{" ++ join (B ",") (map (fun kv => json_str (fst kv) ++ B ":" ++ snd kv) tmp) ++ B "}".

  (* json.Marshal of an Object (the encoder writes map keys sorted: tmp is canonical) *)
  Fixpoint json_of (v : tval) : bytes :=
    match v with
    | TNil => B "null"
    | TBool b => if b then B "true" else B "false"
    | TNum z => show_Z z
    | TStr s => json_str s
    | TArr l => B "[" ++ join (B ",") (map json_of l) ++ B "]"
    | TMap items _ => json_obj (marshal_tmp (map (fun kv => (fst kv, json_of (snd kv))) items))
    end.

  (* Object.String() *)
  Fixpoint text_of (v : tval) : bytes :=
    match v with
    | TNil => []
    | TBool b => if b then B "true" else B "false"
    | TNum z => show_Z z
    | TStr s => s
    | TArr l => join (B " ") (map text_of l)
    | TMap _ _ => json_of v
    end.

  (* ---- Object.keys: Keys(), then sort.Strings *)
  Definition object_keys_site {A} (items : list (bytes * A)) (order : list bytes) : list bytes :=
    sort_bytes (keys_site items order).

  (* ---- Map.Assign *)
  Definition map_assign {A} (k : bytes) (v : A) (t : list (bytes * A) * list bytes)
    : list (bytes * A) * list bytes :=
    (fm_insert k v (fst t),
     match snd t with
     | [] => []
     | o => if mem k o then o else o ++ [k]
     end).

  (* ---- Object.assign(target, source): for k in source.Keys() { target.Assign(k, source.Member(k)) } *)
  Definition object_assign_site {A} (t s : list (bytes * A) * list bytes) : list (bytes * A) * list bytes :=
    fold_left (fun t kv => map_assign (fst kv) (snd kv) t)
              (visit (fst s) (keys_site (fst s) (snd s))) t.

  (* ---- __op__map_params: the pairs go into a Go map (names pairwise distinct), convert ranges over it *)
  Definition map_params_site {A} (args : list (bytes * A)) : list (bytes * A) :=
    fm_of_list (pi _ args).
End Sites.

Definition convert (pi : oracle) : gdata -> tval := convert_with pi key_text.

(* dom_C07: in every Go map the key NAMES are pairwise distinct (a map[interface{}] holding both "1"
   and 1 is outside) *)
Fixpoint dom_data (d : gdata) : bool :=
  match d with
  | GArr l => forallb dom_data l
  | GMap kvs => nodupb (map (fun kv => key_text (fst kv)) kvs) && forallb (fun kv => dom_data (snd kv)) kvs
  | GStruct fs => forallb (fun kv => dom_data (snd kv)) fs
  | GPtr (Some d') => dom_data d'
  | _ => true
  end.

(* every site at once *)
Record site_input := {
  si_data   : gdata;                              (* convert *)
  si_items  : list (bytes * tval);                (* a Map: Keys, range, execute, MarshalJSON, Object.keys *)
  si_order  : list bytes;
  si_target : list (bytes * tval) * list bytes;   (* Object.assign target *)
  si_args   : list (bytes * tval);                (* __op__map_params *)
}.

Definition dom_C07 (x : site_input) : bool :=
  dom_data (si_data x) && nodupb (map fst (si_args x)).

Definition all_sites (pi : oracle) (x : site_input) :=
  (convert pi (si_data x),
   keys_site pi (si_items x) (si_order x),
   range_site pi (si_items x) (si_order x),
   globals_site pi (si_items x),
   json_of pi (TMap (si_items x) (si_order x)),
   object_keys_site pi (si_items x) (si_order x),
   object_assign_site pi (si_target x) (si_items x, si_order x),
   map_params_site pi (si_args x)).

(* the sites as the code was before the repairs (for the refutation witnesses) *)
Definition all_sites_unfixed (pi : oracle) (x : site_input) :=
  (convert_with pi key_text_unfixed (si_data x),
   keys_site_unfixed pi (si_items x) (si_order x),
   globals_site_unfixed pi (si_items x),
   json_obj (marshal_tmp_unfixed pi (map (fun kv => (fst kv, json_of pi (snd kv))) (si_items x)))).

(* ---- the template shapes the correspondence check renders, composed from the sites -------- *)
Inductive shape :=
| ShEach          (* each v, k in m : [k=v] *)
| ShAttrs         (* div&attributes(m) *)
| ShJson          (* != JSON.stringify(m) *)
| ShKeys          (* = Object.keys(m).join(',') *)
| ShForIn         (* - for (k in m) { k } *)
| ShVar (x : bytes)   (* = x  for a top-level name *)
| ShKeysEach      (* - var ks = Object.keys(m)  then ShEach *)
| ShAssignEach    (* - var t = {zz: 1}; - var u = Object.assign(t, m); each v, k in t : [k=v] *)
| ShPush          (* - items.push(9)   then  = items.join(',')  and  != JSON.stringify(items) *)
| ShSort          (* - items.sort()    then  = items.join(',') *)
| ShSetKey        (* - m.k = 1         then  != JSON.stringify(m) *)
| ShObjAssign.    (* - var u = Object.assign(m, o)  then  != JSON.stringify(m) *)

Definition tmap_of (v : option tval) : option (list (bytes * tval) * list bytes) :=
  match v with Some (TMap items order) => Some (items, order) | _ => None end.

Section Render.
  Variable pi : oracle.

  Definition each_text (kvs : list (bytes * tval)) : bytes :=
    concat_bytes (map (fun kv => B "[" ++ escape (fst kv) ++ B "=" ++ escape (text_of pi (snd kv)) ++ B "]") kvs).

  (* __and_attrs + __attrs for one spread map (as repaired for C05): Bool true -> k="k",
     Bool false and Nil -> omitted, everything else -> k="escaped String()".
     The class attribute has rules of its own (C05): not modelled here. *)
  Definition attr_text (kv : bytes * tval) : bytes :=
    match snd kv with
    | TBool false => []
    | TNil => []
    | TBool true => B " " ++ fst kv ++ B "=""" ++ escape (fst kv) ++ B """"
    | v => B " " ++ fst kv ++ B "=""" ++ escape (text_of pi v) ++ B """"
    end.

  Definition top_items (d : gdata) : option (list (bytes * tval)) :=
    match convert pi d with TMap items _ => Some items | _ => None end.

  Definition var_of (items : list (bytes * tval)) (x : bytes) : option tval :=
    var_lookup x (globals_site pi items).

  Definition join_texts (sep : bytes) (l : list tval) : bytes := join sep (map (text_of pi) l).

  Definition render_shape (sh : shape) (d : gdata) : option bytes :=
    match top_items d with
    | None => None
    | Some top =>
      let m := tmap_of (var_of top (B "m")) in
      match sh with
      | ShEach =>
        match m with Some (items, order) => Some (each_text (range_site pi items order)) | None => None end
      | ShAttrs =>
        match m with
        | Some (items, order) =>
          if mem (B "class") (map fst items) then None
          else Some (B "<div" ++ concat_bytes (map attr_text (visit items (keys_site pi items order))) ++ B "></div>")
        | None => None
        end
      | ShJson =>
        match m with Some (items, order) => Some (json_of pi (TMap items order)) | None => None end
      | ShKeys =>
        match m with
        | Some (items, order) => Some (escape (join (B ",") (object_keys_site pi items order)))
        | None => None
        end
      | ShForIn =>
        match m with
        | Some (items, order) => Some (concat_bytes (keys_site pi items order))
        | None => None
        end
      | ShVar x =>
        match var_of top x with
        | Some v => Some (escape (text_of pi v))
        | None => None
        end
      | ShKeysEach =>
        match m with
        | Some (items, order) =>
          (* Keys() caches its result as the map's order *)
          Some (each_text (range_site pi items (keys_site pi items order)))
        | None => None
        end
      | ShAssignEach =>
        match m with
        | Some src =>
          let t := object_assign_site pi ([(B "zz", TNum 1)], [B "zz"]) src in
          Some (each_text (range_site pi (fst t) (snd t)))
        | None => None
        end
      | ShPush =>
        match var_of top (B "items") with
        | Some (TArr l) =>
          let l' := l ++ [TNum 9] in
          Some (escape (join_texts (B ",") l') ++ json_of pi (TArr l'))
        | _ => None
        end
      | ShSort =>
        match var_of top (B "items") with
        | Some (TArr l) => Some (escape (join (B ",") (sort_bytes (map (text_of pi) l))))
        | _ => None
        end
      | ShSetKey =>
        match m with
        | Some t => let t' := map_assign (B "k") (TNum 1) t in Some (json_of pi (TMap (fst t') (snd t')))
        | None => None
        end
      | ShObjAssign =>
        match m, tmap_of (var_of top (B "o")) with
        | Some t, Some s => let t' := object_assign_site pi t s in Some (json_of pi (TMap (fst t') (snd t')))
        | _, _ => None
        end
      end
    end.
End Render.

(* ======================================================================== (b) HISTORY *)

Section Engine.
  Variable tpl : Type.          (* a compiled template *)
  Variable exec_state : Type.   (* Template.execute's state: variables, bound blocks, $global, writer *)
  Variable new_exec : tpl -> gdata -> exec_state.   (* built from the template and convert(data) only *)
  Variable run_exec : exec_state -> exec_state.     (* state.walk: any transformation of that state *)
  Variable output : exec_state -> option bytes.     (* the buffer; None = execution error *)

  Record engine := mk_engine {
    templates : list (bytes * tpl);   (* e.templates after LoadTemplates("") *)
    stats     : list bytes;           (* opencensus measurements: written by Render, never read by it *)
  }.
  Record request := mk_request { rq_name : bytes; rq_data : gdata }.
  Inductive response := RNone | RNotFound | ROut (o : option bytes).

  (* Engine.Render in production mode, templates loaded *)
  Definition step (e : engine) (r : request) : engine * response :=
    match lookup (rq_name r) (templates e) with
    | None => (e, RNotFound)
    | Some t =>
      let st := run_exec (new_exec t (rq_data r)) in     (* fresh per-execution state ... *)
      (mk_engine (templates e) (rq_name r :: stats e),   (* ... dropped when Render returns *)
       ROut (output st))
    end.

  Definition run (e : engine) (rs : list request) : engine * response :=
    fold_left (fun s r => step (fst s) r) rs (e, RNone).
  Definition resp (s : engine * response) : response := snd s.

  (* One OS process: any number of engine instances side by side (pugjs keeps no package-level
     mutable state: every render allocates its own objects, literals included).  A request is
     addressed to one of them; an address outside the list is answered by nobody. *)
  Definition process := list engine.
  Fixpoint set_nth (p : process) (i : nat) (e : engine) : process :=
    match p, i with
    | [], _ => []
    | _ :: r, O => e :: r
    | x :: r, S k => x :: set_nth r k e
    end.
  Definition pstep (p : process) (ir : nat * request) : process * response :=
    match nth_error p (fst ir) with
    | None => (p, RNone)
    | Some e => let er := step e (snd ir) in (set_nth p (fst ir) (fst er), snd er)
    end.
  Definition prun (p : process) (irs : list (nat * request)) : process * response :=
    fold_left (fun s ir => pstep (fst s) ir) irs (p, RNone).
  Definition presp (s : process * response) : response := snd s.
End Engine.

(* ---- LOADING: where the template set of an engine comes from ------------------------------
   compileDir walks the directory tree in the order Readdir lists it; the template name is the
   path of the file.  [files] is that walk: (template name, content of the file) in listing order;
   the names are the paths, hence pairwise distinct.  e.templates is a Go map: what matters is
   what is stored under a name. *)
Section Loading.
  Variable src : Type.                   (* a parsed *.ast.json file *)
  Variable tpl : Type.
  Variable translate : src -> tpl.       (* newRenderState + Parse + TokenToTemplate: per file *)

  Definition load (files : list (bytes * src)) : list (bytes * tpl) :=
    map (fun f => (fst f, translate (snd f))) files.

  (* the variant: ONE translator for all files; whatever it accumulates (mixin table, counters,
     doctype, raw mode) goes from each file to the next one in listing order *)
  Variable tstate : Type.
  Variable translate_st : tstate -> src -> tstate * tpl.
  Fixpoint load_shared (st : tstate) (files : list (bytes * src)) : list (bytes * tpl) :=
    match files with
    | [] => []
    | f :: r => let (st', t) := translate_st st (snd f) in (fst f, t) :: load_shared st' r
    end.
End Loading.

(* a translator state as pugjs has it, cut down to the mixin table: a file is its mixin
   definitions (name, body) and the names it calls; a definition is entered unless the name is
   taken (renderDefinition), a call renders the body the table holds (nothing if there is none) *)
Definition mx_src := (list (bytes * bytes) * list bytes)%type.
Definition mx_define (tab : list (bytes * bytes)) (d : bytes * bytes) : list (bytes * bytes) :=
  match lookup (fst d) tab with Some _ => tab | None => tab ++ [d] end.
Definition mx_translate_st (tab : list (bytes * bytes)) (f : mx_src) : list (bytes * bytes) * list bytes :=
  let tab' := fold_left mx_define (fst f) tab in
  (tab', map (fun c => match lookup c tab' with Some b => b | None => [] end) (snd f)).
Definition mx_translate (f : mx_src) : list bytes := snd (mx_translate_st [] f).

(* ---- CONFIGURATIONS: several engines of one process with function tables of their own ------------
   compileDir asks the engine's FuncProvider for the function table of every file's translator: what a
   file is translated to is a function of the file and of THAT engine's configuration.  A process
   loads its engines one after the other ([es]: configuration and directory listing of each); what
   engine i stores under a name does not depend on the engines loaded before it. *)
Section Configs.
  Variable src tpl cfg : Type.
  Variable translate : cfg -> src -> tpl.   (* newRenderState + funcs from FuncProvider() + Parse + TokenToTemplate *)

  Definition load_cfg (e : cfg * list (bytes * src)) : list (bytes * tpl) :=
    load src tpl (translate (fst e)) (snd e).
  Definition load_all (es : list (cfg * list (bytes * src))) : list (list (bytes * tpl)) := map load_cfg es.

  (* the variant: finished translations are kept in a table of the PROCESS, found again by the source
     text alone - the first engine that translates a text decides for all engines after it *)
  Variable src_eqb : src -> src -> bool.
  Definition memo := list (src * tpl).
  Definition translate_memo (mm : memo) (c : cfg) (f : src) : memo * tpl :=
    match find (fun e => src_eqb (fst e) f) mm with
    | Some e => (mm, snd e)
    | None => let t := translate c f in (mm ++ [(f, t)], t)
    end.
  Fixpoint load_memo (mm : memo) (c : cfg) (files : list (bytes * src)) : memo * list (bytes * tpl) :=
    match files with
    | [] => (mm, [])
    | f :: r => let (mm1, t) := translate_memo mm c (snd f) in
                let (mm2, ts) := load_memo mm1 c r in (mm2, (fst f, t) :: ts)
    end.
  Fixpoint load_all_memo (mm : memo) (es : list (cfg * list (bytes * src))) : list (list (bytes * tpl)) :=
    match es with
    | [] => []
    | e :: r => let (mm1, ts) := load_memo mm (fst e) (snd e) in ts :: load_all_memo mm1 r
    end.
End Configs.

(* a translator cut down to what the function table decides: a file is the names it reads; a name the
   table knows is emitted as a function call, any other name as a variable of the page data *)
Definition fn_translate (funcs : list bytes) (f : list bytes) : list bytes :=
  map (fun x => if mem x funcs then x else B "$" ++ x) f.
Definition names_eqb (a b : list bytes) : bool :=
  Nat.eqb (length a) (length b) && forallb (fun p => beqb (fst p) (snd p)) (combine a b).

(* ---- RESULTS: the readers Render returns ------------------------------------------------------ *)
Section Results.
  Variable tpl : Type.
  Variable exec_state : Type.
  Variable new_exec : tpl -> gdata -> exec_state.
  Variable run_exec : exec_state -> exec_state.
  Variable output : exec_state -> option bytes.

  (* a process together with the result buffers its renders have allocated so far; the reader a
     render returns is the index of its buffer *)
  Record rproc := mk_rproc { rp_engines : process tpl; rp_bufs : list response }.

  Definition rstep (s : rproc) (ir : nat * request) : rproc :=
    let pr := pstep tpl exec_state new_exec run_exec output (rp_engines s) ir in
    mk_rproc (fst pr) (rp_bufs s ++ [snd pr]).           (* new(bytes.Buffer) *)
  Definition rrun (s : rproc) (irs : list (nat * request)) : rproc := fold_left rstep irs s.
  (* reading the result with handle h - at any later time *)
  Definition rread (s : rproc) (h : nat) : option response := nth_error (rp_bufs s) h.

  (* the variant: every render writes into the one recycled buffer, all readers look at it *)
  Definition rstep_pooled (s : rproc) (ir : nat * request) : rproc :=
    let pr := pstep tpl exec_state new_exec run_exec output (rp_engines s) ir in
    mk_rproc (fst pr) [snd pr].
  Definition rrun_pooled (s : rproc) (irs : list (nat * request)) : rproc := fold_left rstep_pooled irs s.
  Definition rread_pooled (s : rproc) (h : nat) : option response := nth_error (rp_bufs s) 0.
End Results.

(* ======================================================================== (c) ALIASING *)

Inductive mval := MNil | MBool (b : bool) | MNum (z : Z) | MStr (s : bytes) | MRef (a : nat).
Inductive cell :=
| CArr (l : list mval)                                   (* slice backing store / *Array *)
| CMap (items : list (bytes * mval)) (order : list bytes) (* Go map or struct / *Map *)
| CPtr (v : mval).                                        (* pointer *)
Definition store := list cell.

Definition malloc (m : store) (c : cell) : mval * store := (MRef (length m), m ++ [c]).
Fixpoint mset (m : store) (a : nat) (c : cell) : store :=
  match m, a with
  | [], _ => []
  | _ :: r, O => c :: r
  | x :: r, S k => x :: mset r k c
  end.

(* convert: a slice / map / struct is copied into a NEW cell, element by element; a pointer is followed *)
Fixpoint conv_list (cv : store -> mval -> mval * store) (m : store) (l : list mval) : list mval * store :=
  match l with
  | [] => ([], m)
  | x :: t => let r1 := cv m x in
              let r2 := conv_list cv (snd r1) t in (fst r1 :: fst r2, snd r2)
  end.
Fixpoint conv_items (cv : store -> mval -> mval * store) (m : store) (l : list (bytes * mval))
  : list (bytes * mval) * store :=
  match l with
  | [] => ([], m)
  | x :: t => let r1 := cv m (snd x) in
              let r2 := conv_items cv (snd r1) t in ((fst x, fst r1) :: fst r2, snd r2)
  end.

Fixpoint mconvert (fuel : nat) (m : store) (v : mval) {struct fuel} : mval * store :=
  match v with
  | MRef a =>
    match fuel with
    | O => (MNil, m)
    | S f =>
      match nth_error m a with
      | Some (CArr l) => let r := conv_list (mconvert f) m l in malloc (snd r) (CArr (fst r))
      | Some (CMap items order) =>
        let r := conv_items (mconvert f) m items in malloc (snd r) (CMap (fst r) order)
      | Some (CPtr v') => mconvert f m v'
      | None => (MNil, m)
      end
    end
  | _ => (v, m)     (* scalars need no fuel *)
  end.

(* what a template can do: [t_env] are the values its variables hold *)
Record tstate := mk_tstate { t_mem : store; t_env : list mval }.

Inductive op :=
| OConvert (fuel : nat) (v : mval)   (* a Go value reaches the template again (function result): convert *)
| OLit (v : mval)                    (* literal: scalars only *)
| ONewArr | ONewMap                  (* [] / {} *)
| OMember (i : nat) (k : bytes)      (* x.k *)
| OIndex (i n : nat)                 (* x[n] *)
| OPush (i j : nat)                  (* x.push(y) *)
| OUnshift (i j : nat)
| OPop (i : nat)
| OShift (i : nat)
| OSort (i : nat)
| OSplice (i n : nat)
| OSlice (i n : nat)
| OSetKey (i : nat) (k : bytes) (j : nat)   (* x.k = y *)
| OObjAssign (i j : nat).            (* Object.assign(x, y) *)

Definition mtext (v : mval) : bytes :=
  match v with
  | MNil => [] | MBool b => if b then B "true" else B "false"
  | MNum z => show_Z z | MStr s => s | MRef _ => []
  end.
Definition env_get (s : tstate) (i : nat) : mval := nth i (t_env s) MNil.
Definition push_env (s : tstate) (v : mval) : tstate := mk_tstate (t_mem s) (t_env s ++ [v]).
Definition arr_at (s : tstate) (i : nat) : option (nat * list mval) :=
  match env_get s i with
  | MRef a => match nth_error (t_mem s) a with Some (CArr l) => Some (a, l) | _ => None end
  | _ => None
  end.
Definition map_at (s : tstate) (i : nat) : option (nat * (list (bytes * mval) * list bytes)) :=
  match env_get s i with
  | MRef a => match nth_error (t_mem s) a with Some (CMap it o) => Some (a, (it, o)) | _ => None end
  | _ => None
  end.
Definition write (s : tstate) (a : nat) (c : cell) : tstate := mk_tstate (mset (t_mem s) a c) (t_env s).
Definition alloc_push (s : tstate) (c : cell) : tstate :=
  let r := malloc (t_mem s) c in mk_tstate (snd r) (t_env s ++ [fst r]).

(* [boundary]: the caller's data lives below it *)
Definition tstep (boundary : nat) (s : tstate) (o : op) : tstate :=
  match o with
  | OConvert fuel v =>
    match v with
    | MRef a =>
      if Nat.ltb a boundary
      then let r := mconvert fuel (t_mem s) v in mk_tstate (snd r) (t_env s ++ [fst r])
      else s   (* only Go data is converted here; template objects pass through convert unchanged *)
    | _ => push_env s v
    end
  | OLit v => match v with MRef _ => s | _ => push_env s v end
  | ONewArr => alloc_push s (CArr [])
  | ONewMap => alloc_push s (CMap [] [])
  | OMember i k =>
    match map_at s i with
    | Some (_, (it, _)) => push_env s (match lookup k it with Some v => v | None => MNil end)
    | None => s
    end
  | OIndex i n =>
    match arr_at s i with Some (_, l) => push_env s (nth n l MNil) | None => s end
  | OPush i j =>
    match arr_at s i with Some (a, l) => write s a (CArr (l ++ [env_get s j])) | None => s end
  | OUnshift i j =>
    match arr_at s i with Some (a, l) => write s a (CArr (env_get s j :: l)) | None => s end
  | OPop i =>
    match arr_at s i with
    | Some (a, l) => push_env (write s a (CArr (removelast l))) (last l MNil)
    | None => s
    end
  | OShift i =>
    match arr_at s i with
    | Some (a, l) => push_env (write s a (CArr (tl l))) (hd MNil l)
    | None => s
    end
  | OSort i =>
    match arr_at s i with
    | Some (a, l) => write s a (CArr (sort_by (fun x y => bytes_ltb (mtext x) (mtext y)) l))
    | None => s
    end
  | OSplice i n =>
    match arr_at s i with
    | Some (a, l) => alloc_push (write s a (CArr (firstn n l))) (CArr (skipn n l))
    | None => s
    end
  | OSlice i n =>
    match arr_at s i with Some (_, l) => alloc_push s (CArr (skipn n l)) | None => s end
  | OSetKey i k j =>
    match map_at s i with
    | Some (a, t) => let t' := map_assign k (env_get s j) t in write s a (CMap (fst t') (snd t'))
    | None => s
    end
  | OObjAssign i j =>
    match map_at s i, map_at s j with
    | Some (a, t), Some (b, src) =>
      let ks := keys_site id_oracle (fst src) (snd src) in
      let s1 := write s b (CMap (fst src) ks) in             (* Keys() caches the order in the source *)
      let t' := object_assign_site id_oracle t src in
      write s1 a (CMap (fst t') (snd t'))
    | _, _ => s
    end
  end.

Definition trun (boundary : nat) (ops : list op) (s : tstate) : tstate := fold_left (tstep boundary) ops s.

(* Engine.Render: convert(data), then the template's operations *)
Definition render_mem (gstore : store) (root : mval) (fuel : nat) (ops : list op) : tstate :=
  let r := mconvert fuel gstore root in
  trun (length gstore) ops (mk_tstate (snd r) [fst r]).

Definition gstore_after (gstore : store) (s : tstate) : store := firstn (length gstore) (t_mem s).

(* the variant: cells for which [keep] holds are not copied - the conversion hands out the caller's own
   cell.  (A value in the data that already is an object of the engine's model - a *Array or *Map the caller
   got from pugjs.Convert - went through convert unchanged before the repair F-C07-d; a "nothing to convert"
   path for a []Object that wraps the caller's slice does the same to that slice.) *)
Fixpoint mconvert_keep (keep : nat -> bool) (fuel : nat) (m : store) (v : mval) {struct fuel} : mval * store :=
  match v with
  | MRef a =>
    if keep a then (v, m) else
    match fuel with
    | O => (MNil, m)
    | S f =>
      match nth_error m a with
      | Some (CArr l) => let r := conv_list (mconvert_keep keep f) m l in malloc (snd r) (CArr (fst r))
      | Some (CMap items order) =>
        let r := conv_items (mconvert_keep keep f) m items in malloc (snd r) (CMap (fst r) order)
      | Some (CPtr v') => mconvert_keep keep f m v'
      | None => (MNil, m)
      end
    end
  | _ => (v, m)
  end.
Definition render_mem_keep (keep : nat -> bool) (gstore : store) (root : mval) (fuel : nat) (ops : list op) : tstate :=
  let r := mconvert_keep keep fuel gstore root in
  trun (length gstore) ops (mk_tstate (snd r) [fst r]).

(* the store has no forward references: built bottom-up, hence acyclic; then fuel = size suffices *)
Definition refs_below (n : nat) (v : mval) : bool :=
  match v with MRef a => Nat.ltb a n | _ => true end.
Definition cell_refs_below (n : nat) (c : cell) : bool :=
  match c with
  | CArr l => forallb (refs_below n) l
  | CMap it _ => forallb (fun kv => refs_below n (snd kv)) it
  | CPtr v => refs_below n v
  end.
Fixpoint wf_store_from (n : nat) (g : store) : bool :=
  match g with
  | [] => true
  | c :: r => cell_refs_below n c && wf_store_from (S n) r
  end.
Definition wf_store (g : store) : bool := wf_store_from 0 g.
