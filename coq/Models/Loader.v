(* C10 model: template loading of pugjs.Engine (pugjs/engine.go, tree with the
   repairs 5516f65 / d6eb777 / f28e03a applied).

     func (e *Engine) LoadTemplates(filter) error { e.Lock(); defer e.Unlock(); return e.loadTemplates(filter) }

     func (e *Engine) loadTemplatesOnce() error {          // first render in production mode
         e.Lock(); defer e.Unlock()
         if atomic.LoadInt32(&e.templatesLoaded) != 0 { return nil }
         return e.loadTemplates("")
     }

     func (e *Engine) loadTemplates(filter) error {        // caller holds the lock
         // only a load of ALL templates counts as "loaded" (repair dd313c0; before it the CAS was done
         // for every load: [enter_load_u] below keeps that behaviour as a counter-model)
         if filter == "" && !atomic.CompareAndSwapInt32(&e.templatesLoaded, 0, 1) {
             return errors.New("Can not preload all templates again")          // RAgain
         }
         verifYield("load:locked")                                             // pc PLocked
         loaded := false
         defer func() { if !loaded { atomic.StoreInt32(&e.templatesLoaded, 0) } }()   // error AND panic
         templates, err := e.compileDir(<basedir>/template/page, "", filter)
         if err != nil { return err }
         if filter != "" && e.templates != nil {
             for name, tpl := range e.templates { if !strings.HasPrefix(name, filter) { templates[name] = tpl } }
         }
         e.templates = templates
         loaded = true
         return nil
     }

     func (e *Engine) compileDir(root, dirname, filter) (map[string]*Template, error) {
         result := map; dir, err := os.Open(root/dirname); if err != nil { return nil, err }
         for _, f := range dir.Readdir(-1) {
             if f.IsDir() {
                 tpls, err := e.compileDir(root, path.Join(dirname, f.Name()), filter); if err != nil { return nil, err }
                 for k, v := range tpls { if result[k] == nil { result[k] = v } }
             } else if strings.HasSuffix(f.Name(), ".ast.json") {
                 name := path.Join(dirname, f.Name()); name = name[:len(name)-len(".ast.json")]
                 if filter != "" && !strings.HasPrefix(name, filter) { continue }
                 token, err := renderState.Parse(name);                 if err != nil { return nil, err }
                 result[name], _, err = renderState.TokenToTemplate(name, token); if err != nil { return nil, err }
             }
         }
         return result, nil
     }

     func (e *Engine) Render(ctx, name, data) {
         ...
         if atomic.LoadInt32(&e.templatesLoaded) == 0 && !e.Debug {
             verifYield("render:after-loaded-check")                           // pc PAfterCheck
             if err := e.loadTemplatesOnce(); err != nil { return nil, err }
         } else if e.Debug {
             if err := e.LoadTemplates(name); err != nil { return nil, err }
         }
         verifYield("render:after-load")                                       // pc PAfterLoad
         e.RLock(); tpl, ok := e.templates[name]; e.RUnlock()
         if !ok { return nil, "Template ... not found!" }                      // RNotFound
         ... execute ...                                                       // ROk out
     }

   M.  The file tree below <basedir>/template/page is a tree of [node]s in
   Readdir order.  Compiling ONE file (Parse + TokenToTemplate, i.e. the whole
   pug pipeline, the subject of other properties) is abstracted to its outcome
   class, which is what the loader's control flow depends on: ok (the template,
   identified with the bytes it prints), error returned, or panic.  A template
   map is an association list read with [lookup] (newest binding first), which
   is all that is ever observed of a Go map here.

   The engine is a small-step machine.  One thread = one call of Render or
   LoadTemplates.  The atomic steps are the code between the yield points, and
   a step that starts with Lock/RLock is enabled only when no thread holds the
   write lock (a thread parked at "load:locked" holds it).  The scheduler is
   any sequence of events [EStep i] (thread i takes its next step, a no-op if
   it is blocked or finished) and [EFs t] (the environment replaces the file
   tree).

   A load is a LONG operation: compileDir calls Engine.FuncProvider once per
   template file it is about to compile, and a caller-supplied FuncProvider can
   take any time (the harness parks the loading goroutine there).  The machine
   has a third kind of event for this, [ECompile i]: the call i that is inside
   a load (pc PLocked) advances to the next FuncProvider call, i.e. "is now
   compiling file prog+1"; when no file is left the event finishes the load
   like [EStep i].  [prog] counts the FuncProvider calls the current load has
   made; [load_calls] says how many it makes in all: one per template file the
   filter selects, in the order of the walk (= the order of [tnames]), up to
   and including the first file that does not compile.  Nothing but [prog]
   changes in such a step: the lock stays held, the flag stays set, the
   template set is replaced only at the end (Proofs: compile_erase - every
   schedule with compile steps reaches the state of a schedule without them).
   The model's load reads the tree at the instant it finishes: a file edit
   that arrives between the first and the last file read of one load is NOT
   modelled (the judge declines such schedules).

   S.  [tnames]: the set of (template name, file) pairs of a tree: every file
   whose name ends in ".ast.json", under its directory path joined with the
   file name without the suffix. *)
From PV Require Import Base.Bytes.

(* ---------------------------------------------------------------- files *)

Inductive fkind :=
| KTpl (out : bytes)   (* a well-formed template that prints [out] *)
| KBrokenJson          (* json.Unmarshal fails: error *)
| KTplSyntax           (* the emitted template text does not parse: error *)
| KBadJs               (* malformed JavaScript in a snippet: StrToStatements panics *)
| KUnknownNode         (* unknown node type: buildNode panics *)
| KMixinMissing.       (* calls a mixin that is not defined: error in debug mode only, prints nothing otherwise *)

Inductive cres (A : Type) : Type := COk (a : A) | CErr | CPanic.
Arguments COk {A} a.
Arguments CErr {A}.
Arguments CPanic {A}.

Definition tpl := bytes.                    (* a compiled template = what it prints *)
Definition tmap := list (bytes * tpl).

Definition compile_file (debug : bool) (k : fkind) : cres tpl :=
  match k with
  | KTpl out => COk out
  | KBrokenJson | KTplSyntax => CErr
  | KBadJs | KUnknownNode => CPanic
  | KMixinMissing => if debug then CErr else COk []
  end.

Inductive node :=
| File (name : bytes) (k : fkind)
| Dir (name : bytes) (children : list node).

(* None: <basedir>/template/page does not exist (os.Open fails) *)
Definition fstree := option (list node).

Definition ast_suffix : bytes := B ".ast.json".
Definition is_empty (b : bytes) : bool := match b with [] => true | _ => false end.
Definition has_suffix (nm : bytes) : bool := suffixb ast_suffix nm.
Definition strip_suffix (nm : bytes) : bytes := firstn (length nm - length ast_suffix) nm.

(* path.Join(dirname, name) for clean, non-empty segments *)
Definition pjoin (dirname nm : bytes) : bytes :=
  if is_empty dirname then nm else dirname ++ B "/" ++ nm.

(* ---------------------------------------------------------------- compileDir *)

Fixpoint compile_node (debug : bool) (flt dirname : bytes) (n : node) (result : tmap)
  {struct n} : cres tmap :=
  match n with
  | Dir nm ch =>
    match (fix go (ns : list node) (res : tmap) {struct ns} : cres tmap :=
             match ns with
             | [] => COk res
             | x :: t =>
               match compile_node debug flt (pjoin dirname nm) x res with
               | COk r => go t r
               | CErr => CErr
               | CPanic => CPanic
               end
             end) ch [] with
    | COk tpls => COk (result ++ tpls)          (* if result[k] == nil { result[k] = v } *)
    | CErr => CErr
    | CPanic => CPanic
    end
  | File nm k =>
    if has_suffix nm then
      let name := strip_suffix (pjoin dirname nm) in
      if negb (is_empty flt) && negb (prefixb flt name) then COk result
      else match compile_file debug k with
           | COk t => COk ((name, t) :: result)   (* result[name] = t *)
           | CErr => CErr
           | CPanic => CPanic
           end
    else COk result
  end.

Fixpoint compile_nodes (debug : bool) (flt dirname : bytes) (ns : list node) (res : tmap)
  {struct ns} : cres tmap :=
  match ns with
  | [] => COk res
  | x :: t =>
    match compile_node debug flt dirname x res with
    | COk r => compile_nodes debug flt dirname t r
    | CErr => CErr
    | CPanic => CPanic
    end
  end.

Definition compile_dir (debug : bool) (flt : bytes) (t : fstree) : cres tmap :=
  match t with
  | None => CErr
  | Some ns => compile_nodes debug flt [] ns []
  end.

(* the replacement of e.templates after a successful compile *)
Definition merge_old (flt : bytes) (old : option tmap) (new : tmap) : tmap :=
  match old with
  | Some o =>
    if is_empty flt then new
    else filter (fun kv => negb (prefixb flt (fst kv))) o ++ new
  | None => new
  end.

(* ---------------------------------------------------------------- S: names of a tree *)

Fixpoint tnames_node (dirname : bytes) (n : node) {struct n} : list (bytes * fkind) :=
  match n with
  | File nm k => if has_suffix nm then [(pjoin dirname (strip_suffix nm), k)] else []
  | Dir nm ch =>
    (fix go (ns : list node) : list (bytes * fkind) :=
       match ns with
       | [] => []
       | x :: t => tnames_node (pjoin dirname nm) x ++ go t
       end) ch
  end.

Fixpoint tnames_nodes (dirname : bytes) (ns : list node) : list (bytes * fkind) :=
  match ns with
  | [] => []
  | x :: t => tnames_node dirname x ++ tnames_nodes dirname t
  end.

Definition tnames (t : fstree) : list (bytes * fkind) :=
  match t with None => [] | Some ns => tnames_nodes [] ns end.

(* the FuncProvider calls of one load: one per selected template file in the order of the walk
   (depth first, Readdir order = the order of [tnames]), the first failing file being the last *)
Fixpoint calls_upto (debug : bool) (flt : bytes) (names : list (bytes * fkind)) : nat :=
  match names with
  | [] => 0
  | nk :: r =>
    if prefixb flt (fst nk)
    then match compile_file debug (snd nk) with
         | COk _ => S (calls_upto debug flt r)
         | _ => 1
         end
    else calls_upto debug flt r
  end.

Definition load_calls (debug : bool) (flt : bytes) (t : fstree) : nat :=
  calls_upto debug flt (tnames t).

(* ---------------------------------------------------------------- the machine *)

Inductive op := ORender (n : bytes) | OLoad (f : bytes).

Inductive result :=
| ROk (out : bytes)   (* Render returned the output *)
| RLoaded             (* LoadTemplates returned nil *)
| RNotFound           (* "Template ... not found!" *)
| RLoadErr            (* the load's error was returned *)
| RLoadPanic          (* the load panicked (out of LoadTemplates / Render) *)
| RAgain.             (* "Can not preload all templates again" *)

Inductive pc :=
| PStart
| PAfterCheck         (* parked at "render:after-loaded-check" *)
| PLocked             (* parked at "load:locked", holding the write lock *)
| PAfterLoad          (* parked at "render:after-load" *)
| PDone (r : result).

Record st := mkst {
  fs     : fstree;
  loaded : bool;            (* templatesLoaded *)
  tpls   : option tmap;     (* e.templates, None = nil map *)
  wlock  : option nat;      (* the thread holding e.Lock() *)
  pcs    : nat -> pc;
  prog   : nat;             (* FuncProvider calls made by the load in progress *)
}.

Definition upd (f : nat -> pc) (i : nat) (p : pc) : nat -> pc :=
  fun j => if Nat.eqb j i then p else f j.

Definition set_pc (s : st) (i : nat) (p : pc) : st :=
  mkst (fs s) (loaded s) (tpls s) (wlock s) (upd (pcs s) i p) (prog s).

Definition set_fs (s : st) (t : fstree) : st :=
  mkst t (loaded s) (tpls s) (wlock s) (pcs s) (prog s).

Definition set_prog (s : st) (k : nat) : st :=
  mkst (fs s) (loaded s) (tpls s) (wlock s) (pcs s) k.

Definition lock_free (s : st) : bool := match wlock s with None => true | Some _ => false end.

Definition filter_of (debug : bool) (o : op) : bytes :=
  match o with
  | ORender n => if debug then n else []
  | OLoad f => f
  end.

Definition lookup_result (n : bytes) (t : option tmap) : result :=
  match t with
  | None => RNotFound
  | Some m => match lookup n m with Some out => ROk out | None => RNotFound end
  end.

(* e.Lock(); loadTemplates(f) up to the yield point: the CAS, done only by a load of all templates;
   a filtered load leaves the flag as it is *)
Definition enter_load (s : st) (i : nat) (f : bytes) : st :=
  if loaded s && is_empty f
  then set_pc s i (PDone RAgain)
  else mkst (fs s) (loaded s || is_empty f) (tpls s) (Some i) (upd (pcs s) i PLocked) 0.

(* from "load:locked" to the Unlock *)
Definition finish_load (debug : bool) (ops : nat -> op) (s : st) (i : nat) : st :=
  let f := filter_of debug (ops i) in
  match compile_dir debug f (fs s) with
  | COk m =>
    mkst (fs s) (loaded s) (Some (merge_old f (tpls s) m)) None
         (upd (pcs s) i (match ops i with ORender _ => PAfterLoad | OLoad _ => PDone RLoaded end)) 0
  | CErr => mkst (fs s) false (tpls s) None (upd (pcs s) i (PDone RLoadErr)) 0
  | CPanic => mkst (fs s) false (tpls s) None (upd (pcs s) i (PDone RLoadPanic)) 0
  end.

Definition step (debug : bool) (ops : nat -> op) (s : st) (i : nat) : option st :=
  match pcs s i with
  | PStart =>
    match ops i with
    | ORender n =>
      if debug
      then (if lock_free s then Some (enter_load s i n) else None)
      else Some (set_pc s i (if loaded s then PAfterLoad else PAfterCheck))
    | OLoad f => if lock_free s then Some (enter_load s i f) else None
    end
  | PAfterCheck =>
    if lock_free s
    then Some (if loaded s then set_pc s i PAfterLoad else enter_load s i [])
    else None
  | PLocked => Some (finish_load debug ops s i)
  | PAfterLoad =>
    if lock_free s
    then Some (set_pc s i (PDone (match ops i with
                                  | ORender n => lookup_result n (tpls s)
                                  | OLoad _ => RLoaded
                                  end)))
    else None
  | PDone _ => None
  end.

Inductive ev := EStep (i : nat) | EFs (t : fstree) | ECompile (i : nat).

(* the call inside a load goes on to its next FuncProvider call (compiles the next file);
   after the last one the load finishes *)
Definition compile_ev (debug : bool) (ops : nat -> op) (s : st) (i : nat) : st :=
  match pcs s i with
  | PLocked =>
    if prog s <? load_calls debug (filter_of debug (ops i)) (fs s)
    then set_prog s (S (prog s))
    else finish_load debug ops s i
  | _ => s
  end.

Definition apply_ev (debug : bool) (ops : nat -> op) (s : st) (e : ev) : st :=
  match e with
  | EStep i => match step debug ops s i with Some s' => s' | None => s end
  | EFs t => set_fs s t
  | ECompile i => compile_ev debug ops s i
  end.

Definition run (debug : bool) (ops : nat -> op) (s : st) (evs : list ev) : st :=
  fold_left (apply_ev debug ops) evs s.

Definition init (t : fstree) : st := mkst t false None None (fun _ => PStart) 0.

Definition reach (debug : bool) (ops : nat -> op) (t : fstree) (evs : list ev) : st :=
  run debug ops (init t) evs.

(* ---------------------------------------------------------------- the machine before repair dd313c0
   (counter-model only): every load, filtered ones included, does the CAS and so marks the engine loaded *)
Definition enter_load_u (s : st) (i : nat) (f : bytes) : st :=
  if loaded s && is_empty f
  then set_pc s i (PDone RAgain)
  else mkst (fs s) true (tpls s) (Some i) (upd (pcs s) i PLocked) 0.

Definition step_u (debug : bool) (ops : nat -> op) (s : st) (i : nat) : option st :=
  match pcs s i with
  | PStart =>
    match ops i with
    | ORender n =>
      if debug
      then (if lock_free s then Some (enter_load_u s i n) else None)
      else Some (set_pc s i (if loaded s then PAfterLoad else PAfterCheck))
    | OLoad f => if lock_free s then Some (enter_load_u s i f) else None
    end
  | PAfterCheck =>
    if lock_free s
    then Some (if loaded s then set_pc s i PAfterLoad else enter_load_u s i [])
    else None
  | PLocked => Some (finish_load debug ops s i)
  | PAfterLoad =>
    if lock_free s
    then Some (set_pc s i (PDone (match ops i with
                                  | ORender n => lookup_result n (tpls s)
                                  | OLoad _ => RLoaded
                                  end)))
    else None
  | PDone _ => None
  end.

Definition apply_ev_u (debug : bool) (ops : nat -> op) (s : st) (e : ev) : st :=
  match e with
  | EStep i => match step_u debug ops s i with Some s' => s' | None => s end
  | EFs t => set_fs s t
  | ECompile i => compile_ev debug ops s i
  end.

Definition reach_u (debug : bool) (ops : nat -> op) (t : fstree) (evs : list ev) : st :=
  fold_left (apply_ev_u debug ops) evs (init t).

(* effective steps of thread i along a schedule *)
Fixpoint eff_steps (debug : bool) (ops : nat -> op) (s : st) (evs : list ev) (i : nat) : nat :=
  match evs with
  | [] => 0
  | e :: t =>
    (match e with
     | EStep j => if Nat.eqb j i then (match step debug ops s j with Some _ => 1 | None => 0 end) else 0
     | EFs _ => 0
     | ECompile j => if Nat.eqb j i then (match pcs s j with PLocked => 1 | _ => 0 end) else 0
     end) + eff_steps debug ops (apply_ev debug ops s e) t i
  end.

Definition rank (p : pc) : nat :=
  match p with PStart => 4 | PAfterCheck => 3 | PLocked => 2 | PAfterLoad => 1 | PDone _ => 0 end.

(* the same with the files a load may still have to compile, when no tree holds more than N template files *)
Definition rankN (N : nat) (s : st) (i : nat) : nat :=
  match pcs s i with
  | PStart => N + 4 | PAfterCheck => N + 3 | PLocked => 2 + (N - prog s) | PAfterLoad => 1 | PDone _ => 0
  end.

(* ---------------------------------------------------------------- S: what a name stands for *)

Definition ok_of {A} (c : cres A) : option A := match c with COk a => Some a | _ => None end.

(* what a template name stands for in a tree: its file's compiled template *)
Definition spec_find (debug : bool) (t : fstree) (n : bytes) : option tpl :=
  match lookup n (tnames t) with
  | Some k => ok_of (compile_file debug k)
  | None => None
  end.

Definition spec_render (debug : bool) (t : fstree) (n : bytes) : result :=
  match spec_find debug t n with Some out => ROk out | None => RNotFound end.

(* domain: distinct template files have distinct names (a file system never
   holds two entries with the same path), and segments are clean *)
Fixpoint nodupb (l : list bytes) : bool :=
  match l with
  | [] => true
  | x :: t => negb (mem x t) && nodupb t
  end.

Definition slash : ascii := "/"%char.
Definition seg_ok (nm : bytes) : bool :=
  negb (is_empty nm) && negb (existsb (Ascii.eqb slash) nm)
  && negb (beqb nm (B ".")) && negb (beqb nm (B "..")).

Fixpoint segs_ok_node (n : node) : bool :=
  match n with
  | File nm _ => seg_ok nm
  | Dir nm ch =>
    seg_ok nm && (fix go (ns : list node) : bool :=
                    match ns with [] => true | x :: t => segs_ok_node x && go t end) ch
  end.

Definition dom_fs (t : fstree) : bool :=
  nodupb (map fst (tnames t))
  && match t with None => true | Some ns => forallb segs_ok_node ns end.

(* every template file the filter selects compiles *)
Definition good_under (debug : bool) (f : bytes) (t : fstree) : bool :=
  match t with
  | None => false
  | Some _ =>
    forallb (fun nk => if prefixb f (fst nk)
                       then match compile_file debug (snd nk) with COk _ => true | _ => false end
                       else true) (tnames t)
  end.
