(* C11 model: how a template reaches Go data.

   M follows, function by function,
     pugjs/types.go      convert, Map.convert (lazy member table), Map.Assign, Map.Member (folding chain),
                         String/Number/Bool/Nil/Func/Array .Member, the String() formatters of the leaves
     pugjs/tpl_exec.go   lowerFirst/upperFirst, Template.execute (creation of the `$Name`/`$name` globals in sorted
                         key order, `$global`), varValue (scan from the end), evalField on an Object receiver
                         (Member, then a call when the member is a *Func), evalCall's convert of the result,
                         printValue (the `ERR{{..}} <invalid reflect.Value>` arm for the invalid value)
     pugjs/tpl_funcs.go  index (`__pug__index`), HTMLEscaper (`__pug__html`)
   for a buffered code node `= a.b[0]['k'].c` (escaped) or `!= a.b[0]['k'].c` (raw), which compiles to
     {{(__pug__index (__pug__index $a.b 0) "k").c | __pug__html}}    resp. without the escaper.

   S is the independent reading of the same path in plain Go ([go_path]): `Field n` selects the exported field or
   the zero-argument method whose name with the first letter lower-cased is n (on a map: the entry n), `Key k` the
   map entry, `Idx c i` the slice element number i, where i is ANY integer: the value of whatever stands between
   the brackets (a literal `xs[2]`, `xs[-1]`, or an expression computed at run time from the page data, `xs[d.pos]`,
   `xs[xs.length - 1]`, `xs[n - 2]`; c tells which, and matters to M only); pointers and interfaces are transparent;
   nil / missing / out of range on either side (below 0, at or above the length) / unexported reach nothing, which
   prints "".

   Definitions only; proofs are in Proofs/ConvertProofs.v. *)
From PV Require Import Base.Bytes Base.Escape.

(* ------------------------------------------------------------------ Go values (what reflect sees) *)

Inductive gv : Type :=
| GNil                                   (* untyped nil: Render(.., nil) *)
| GStr (s : bytes)
| GInt (z : Z)                           (* all int and uint kinds *)
| GFloat (z : Z)                         (* float32/float64 holding the integer z *)
| GBool (b : bool)
| GSliceNil
| GSlice (l : list gv)
| GMapNil
| GMap (l : list (bytes * gv))           (* string-keyed map *)
| GStruct (fields : list (bytes * bool * gv))        (* name, exported, value: reflect's NumField/Field(i) *)
          (vmeths pmeths : list (bytes * bytes * gv)) (* zero-arg methods with value / pointer receiver:
                                                         name, text of the func type, result *)
| GPtrNil
| GPtr (v : gv)
| GIfaceNil (named : bool)               (* named = the interface type has methods *)
| GIface (named : bool) (v : gv)
| GFunc (sig : bytes) (r : gv)           (* non-nil func() T value: text of its type, result *)
| GChan.

(* [Idx computed i]: the bracket index denotes the integer i. computed = false: it is written as a literal (which
   reaches `index` as a Go int when i >= 0 and, compiled to `(__op__sub 1)`, as a pugjs Number when i < 0);
   computed = true: it is an expression evaluated at run time (a member of the page data, a `.length`, a
   difference or sum of such), which reaches `index` as a pugjs Number. *)
Inductive step := Field (n : bytes) | Key (k : bytes) | Idx (computed : bool) (i : Z).

(* element i of a list, for any integer i: nothing below 0 and nothing at or above the length
   (the range test comes first: no unary number is ever built from a large index) *)
Definition in_range (i : Z) (len : nat) : bool := Z.leb 0 i && Z.ltb i (Z.of_nat len).
Definition nth_z {A} (l : list A) (i : Z) : option A :=
  if in_range i (length l) then nth_error l (Z.to_nat i) else None.

(* ------------------------------------------------------------------ names: lowerFirst, upperFirst, strings.Title,
   strings.NewReplacer("id","ID","url","URL","api","API")  — on ASCII (dom_C11 restricts names to ASCII) *)

Definition is_upper (c : ascii) : bool := let n := N_of_ascii c in N.leb 65 n && N.leb n 90.
Definition is_lower (c : ascii) : bool := let n := N_of_ascii c in N.leb 97 n && N.leb n 122.
Definition is_digit (c : ascii) : bool := let n := N_of_ascii c in N.leb 48 n && N.leb n 57.
Definition is_ascii (c : ascii) : bool := N.ltb (N_of_ascii c) 128.
Definition to_lower (c : ascii) : ascii := if is_upper c then ascii_of_N (N_of_ascii c + 32) else c.
Definition to_upper (c : ascii) : ascii := if is_lower c then ascii_of_N (N_of_ascii c - 32) else c.

Definition lower_first (s : bytes) : bytes := match s with [] => [] | c :: r => to_lower c :: r end.
Definition upper_first (s : bytes) : bytes := match s with [] => [] | c :: r => to_upper c :: r end.

(* strings.isSeparator: ASCII letters, digits and '_' are not separators, every other ASCII character is
   (bytes >= 128 are treated as non-separators: outside the ASCII domain) *)
Definition is_sep (c : ascii) : bool :=
  is_ascii c && negb (is_upper c || is_lower c || is_digit c || Ascii.eqb c "_").

Fixpoint title_go (prev_sep : bool) (s : bytes) : bytes :=
  match s with
  | [] => []
  | c :: r => (if prev_sep then to_upper c else c) :: title_go (is_sep c) r
  end.
Definition title (s : bytes) : bytes := title_go true s.

Fixpoint replacer3_fuel (fuel : nat) (s : bytes) : bytes :=
  match fuel with
  | O => s
  | S f =>
    match s with
    | [] => []
    | c :: r =>
      if prefixb (B "id") s then B "ID" ++ replacer3_fuel f (skipn 2 s)
      else if prefixb (B "url") s then B "URL" ++ replacer3_fuel f (skipn 3 s)
      else if prefixb (B "api") s then B "API" ++ replacer3_fuel f (skipn 3 s)
      else c :: replacer3_fuel f r
    end
  end.
Definition replacer3 (s : bytes) : bytes := replacer3_fuel (S (length s)) s.

(* the names Map.Member tries, in order *)
Definition fold_candidates (n : bytes) : list bytes :=
  let n' := replacer3 n in [n; upper_first n; title n; n'; upper_first n'; title n'].

(* ------------------------------------------------------------------ pugjs objects *)

Inductive val : Type :=
| VNil
| VStr (s : bytes)
| VNum (z : Z)
| VBool (b : bool)
| VArr (l : list val)
| VMap (items : list (bytes * val))       (* Map.items as a finite map: [insert] = Go's m[k] = v *)
| VFunc (sig : bytes) (r : val)           (* *Func: text of the func type; r = convert(result of calling it) *)
| VOpaque.                                (* an object this model declines to describe *)

Definition assign_all (items l : list (bytes * val)) : list (bytes * val) :=
  fold_left (fun m kv => insert (fst kv) (snd kv) m) l items.
Definition build (l : list (bytes * val)) : list (bytes * val) := assign_all [] l.

(* convert (types.go). Struct maps are materialised lazily in Go (Map.convert on first access); data is immutable
   during a render, so the member table is computed here at once: exported fields under lowerFirst names, then the
   methods of the value's method set. Pointer: the element, and if that is a Map the methods of the pointer type
   are assigned on top. Interface: nil and a nil pointer inside -> Nil; no methods -> the content; with methods ->
   a Map of the interface's methods overlaid by the content's own member table (the content's method set contains
   the interface's methods, so the overlay is the content's table). *)
Fixpoint convert (g : gv) : val :=
  match g with
  | GNil => VNil
  | GStr s => VStr s
  | GInt z => VNum z
  | GFloat z => VNum z
  | GBool b => VBool b
  | GSliceNil => VArr []
  | GSlice l => VArr (map convert l)
  | GMapNil => VMap []
  | GMap l => VMap (build (map (fun kv => (fst kv, convert (snd kv))) l))
  | GStruct fs vm _ =>
    VMap (build (flat_map (fun f => match f with
                                    | (n, true, v) => [(lower_first n, convert v)]
                                    | (_, false, _) => []
                                    end) fs
                 ++ map (fun m => match m with (n, sg, r) => (lower_first n, VFunc sg (convert r)) end) vm))
  | GPtrNil => VNil
  | GPtr v =>
    match convert v with
    | VMap items =>
      VMap (assign_all items
              match v with
              | GStruct _ vm pm =>
                map (fun m => match m with (n, sg, r) => (lower_first n, VFunc sg (convert r)) end) vm
                ++ map (fun m => match m with (n, sg, r) => (lower_first n, VFunc sg (convert r)) end) pm
              | _ => []
              end)
    | o => o
    end
  | GIfaceNil _ => VNil
  | GIface named v =>
    match v with
    | GPtrNil => VNil
    | _ => if named
           then match convert v with VMap items => VMap items | _ => VOpaque end
           else convert v
    end
  | GFunc sg r => VFunc sg (convert r)
  | GChan => VNil
  end.

(* ------------------------------------------------------------------ member access and indexing *)

Inductive res (A : Type) : Type := ROk (a : A) | REr | RUnmod.
Arguments ROk {A} a.
Arguments REr {A}.
Arguments RUnmod {A}.

Definition bind {A C} (r : res A) (f : A -> res C) : res C :=
  match r with ROk a => f a | REr => REr | RUnmod => RUnmod end.

Fixpoint first_hit (items : list (bytes * val)) (cands : list bytes) : option val :=
  match cands with
  | [] => None
  | c :: r => match lookup c items with Some v => Some v | None => first_hit items r end
  end.

(* Map.Member *)
Definition map_member (items : list (bytes * val)) (n : bytes) : val :=
  match first_hit items (fold_candidates n) with Some v => v | None => VNil end.

Definition string_members : list bytes :=
  [B "charAt"; B "toUpperCase"; B "toLowerCase"; B "split"; B "slice"; B "replace"; B "length"; B "indexOf"].
Definition array_members : list bytes :=
  [B "length"; B "indexOf"; B "join"; B "push"; B "pop"; B "shift"; B "unshift"; B "splice"; B "slice"; B "sort"].

(* evalField on an Object receiver: obj.Member(name); a *Func member is called with no arguments and the result
   converted. An invalid receiver (undefined variable) stays invalid. *)
Definition eval_field (ov : option val) (n : bytes) : res (option val) :=
  match ov with
  | None => ROk None
  | Some v =>
    match v with
    | VMap items =>
      if beqb n (B "__assign") then REr            (* a two-argument func called without arguments *)
      else match map_member items n with
           | VFunc _ r => ROk (Some r)
           | m => ROk (Some m)
           end
    | VStr _ => if mem n string_members then RUnmod else ROk (Some VNil)
    | VArr _ => if mem n array_members then RUnmod else ROk (Some VNil)   (* panicOrError logs, returns Nil *)
    | VNum _ | VBool _ | VNil | VFunc _ _ => ROk (Some VNil)
    | VOpaque => RUnmod
    end
  end.

(* index (tpl_funcs.go) with one index; the result goes through evalCall's convert (identity on objects,
   byte -> Number). An invalid item yields Nil. The index arrives as a Go int (a literal >= 0) or as a pugjs Number
   (everything else: a Number becomes a float64, and x = int64(float)); on a slice / array / string
   `x < 0 || x >= Len` yields Nil for both. On a Map the index is used as a key through reflect.Value.String(). *)
Definition int_value_key : bytes := B "<int Value>".       (* reflect.Value.String() of an int index *)
Definition float_value_key : bytes := B "<float64 Value>". (* ... of a Number index *)
Definition index_key (computed : bool) (i : Z) : bytes :=
  if computed || Z.ltb i 0 then float_value_key else int_value_key.

Definition eval_idx (ov : option val) (computed : bool) (i : Z) : res (option val) :=
  match ov with
  | None => ROk (Some VNil)
  | Some v =>
    match v with
    | VArr l => ROk (Some (match nth_z l i with Some x => x | None => VNil end))
    | VMap items => ROk (Some (match lookup (index_key computed i) items with Some x => x | None => VNil end))
    | VStr s => ROk (Some (match nth_z s i with Some c => VNum (Z.of_N (N_of_ascii c)) | None => VNil end))
    | VNil => ROk (Some VNil)
    | VNum _ | VBool _ | VFunc _ _ => REr
    | VOpaque => RUnmod
    end
  end.

Definition eval_key (ov : option val) (k : bytes) : res (option val) :=
  match ov with
  | None => ROk (Some VNil)
  | Some v =>
    match v with
    | VMap items => ROk (Some (match lookup k items with Some x => x | None => VNil end))
    | VNil => ROk (Some VNil)
    | VArr _ | VStr _ | VNum _ | VBool _ | VFunc _ _ => REr
    | VOpaque => RUnmod
    end
  end.

Definition eval_step (ov : option val) (s : step) : res (option val) :=
  match s with
  | Field n => eval_field ov n
  | Key k => eval_key ov k
  | Idx c i => eval_idx ov c i
  end.

Fixpoint eval_steps (ov : option val) (p : list step) : res (option val) :=
  match p with
  | [] => ROk ov
  | s :: r => bind (eval_step ov s) (fun ov' => eval_steps ov' r)
  end.

(* ------------------------------------------------------------------ execute: the globals *)

Fixpoint bytes_ltb (a b : bytes) : bool :=
  match a, b with
  | _, [] => false
  | [], _ :: _ => true
  | x :: a', y :: b' =>
    if N.ltb (N_of_ascii x) (N_of_ascii y) then true
    else if N.eqb (N_of_ascii x) (N_of_ascii y) then bytes_ltb a' b' else false
  end.

Fixpoint insert_sorted (x : bytes * val) (l : list (bytes * val)) : list (bytes * val) :=
  match l with
  | [] => [x]
  | y :: r => if bytes_ltb (fst x) (fst y) then x :: y :: r else y :: insert_sorted x r
  end.
Definition sort_items (l : list (bytes * val)) : list (bytes * val) := fold_right insert_sorted [] l.

(* for every key k in sorted order: `$k` and `$lowerFirst(k)`; then `$global` *)
Definition globals (top : val) : list (bytes * val) :=
  match top with
  | VMap items => flat_map (fun kv => [(fst kv, snd kv); (lower_first (fst kv), snd kv)]) (sort_items items)
  | _ => []
  end ++ [(B "global", VMap [])].

(* varValue: the innermost (last pushed) variable of that name; None = the invalid value *)
Definition var_value (vars : list (bytes * val)) (n : bytes) : option val := lookup n (rev vars).

(* ------------------------------------------------------------------ printing *)

Definition ten10 : Z := 10000000000.

(* String() of the leaves; Number prints through big.Float %.10g: plain digits below 10^10 *)
Definition text_of (v : val) : option bytes :=
  match v with
  | VNil => Some []
  | VStr s => Some s
  | VNum z => if Z.ltb (Z.abs z) ten10 then Some (show_Z z) else None
  | VBool true => Some (B "true")
  | VBool false => Some (B "false")
  | VFunc sg _ => Some (B "<" ++ sg ++ B " Value>")
  | VArr _ | VMap _ | VOpaque => None
  end.

Definition is_field (s : step) : bool := match s with Field _ => true | _ => false end.
Definition step_name (s : step) : bytes := match s with Field n => n | Key k => k | Idx _ _ => [] end.

(* printValue of the invalid value: fmt.Fprint(w, "ERR", node, v) *)
Definition err_text (p : list step) : bytes :=
  B "ERR{{$" ++ join (B ".") (map step_name p) ++ B "}} <invalid reflect.Value>".

Definition render (raw : bool) (t : bytes) : bytes := if raw then t else escape t.

Definition print_val (raw : bool) (p : list step) (ov : option val) : res bytes :=
  match ov with
  | None => ROk (if raw then err_text p else [])      (* __pug__html without argument prints "" *)
  | Some v => match text_of v with Some t => ROk (render raw t) | None => RUnmod end
  end.

(* the whole thing: Engine.Render of `= path` / `!= path` with page data d *)
Definition run (d : gv) (p : list step) (raw : bool) : res bytes :=
  match p with
  | Field n :: rest =>
    bind (eval_steps (var_value (globals (convert d)) n) rest) (print_val raw p)
  | _ => RUnmod
  end.

(* ================================================================== S: the same path in plain Go *)

Inductive leaf := LStr (s : bytes) | LInt (z : Z) | LBool (b : bool).

Definition leaf_text (o : option leaf) : bytes :=
  match o with
  | Some (LStr s) => s
  | Some (LInt z) => show_Z z
  | Some (LBool true) => B "true"
  | Some (LBool false) => B "false"
  | None => []
  end.

(* pointers and interfaces are transparent; a nil one is nothing *)
Fixpoint strip (g : gv) : gv :=
  match g with
  | GPtr v => strip v
  | GIface _ v => strip v
  | GPtrNil => GNil
  | GIfaceNil _ => GNil
  | _ => g
  end.

Inductive member := MField (v : gv) | MMeth (sg : bytes) (r : gv).
Definition member_value (m : member) : gv := match m with MField v => v | MMeth _ r => r end.

Definition field_members (fs : list (bytes * bool * gv)) : list (bytes * member) :=
  flat_map (fun f => match f with
                     | (n, true, v) => [(lower_first n, MField v)]
                     | (_, false, _) => []
                     end) fs.
Definition meth_members (ms : list (bytes * bytes * gv)) : list (bytes * member) :=
  map (fun m => match m with (n, sg, r) => (lower_first n, MMeth sg r) end) ms.

(* what a selector can name on g, under its lower-camel name: exported fields, the method set (pointer-receiver
   methods only when the struct is held by a pointer), map entries *)
Fixpoint members (g : gv) : list (bytes * member) :=
  match g with
  | GStruct fs vm _ => field_members fs ++ meth_members vm
  | GPtr v =>
    match v with
    | GStruct fs vm pm => field_members fs ++ meth_members vm ++ meth_members pm
    | _ => members v
    end
  | GIface _ v => members v
  | GMap l => map (fun kv => (fst kv, MField (snd kv))) l
  | _ => []
  end.

(* the entry named k (Go names are unique; should a description repeat one, the last counts) *)
Fixpoint find_last {A} (k : bytes) (l : list (bytes * A)) : option A :=
  match l with
  | [] => None
  | (k', v) :: r =>
    match find_last k r with
    | Some x => Some x
    | None => if beqb k k' then Some v else None
    end
  end.

Definition go_member (g : gv) (n : bytes) : option member := find_last n (members g).

Definition go_step (g : gv) (s : step) : option gv :=
  match s, strip g with
  | Field n, GStruct _ _ _ => option_map member_value (go_member g n)
  | Field n, GMap _ => option_map member_value (go_member g n)
  | Key k, GMap _ => option_map member_value (go_member g k)
  | Idx _ i, GSlice l => nth_z l i
  | _, _ => None
  end.

Fixpoint go_walk (g : gv) (p : list step) : option gv :=
  match p with
  | [] => Some g
  | s :: r => match go_step g s with Some g' => go_walk g' r | None => None end
  end.

Definition leaf_of (g : gv) : option leaf :=
  match strip g with
  | GStr s => Some (LStr s)
  | GInt z => Some (LInt z)
  | GFloat z => Some (LInt z)
  | GBool b => Some (LBool b)
  | _ => None
  end.

Definition go_path (d : gv) (p : list step) : option leaf :=
  match go_walk d p with Some g => leaf_of g | None => None end.

(* ================================================================== the domain of the theorems *)

Definition is_some {A} (o : option A) : bool := match o with Some _ => true | None => false end.

(* a value the walk may stand on: no func value, and an interface with methods holds a struct or a map *)
Fixpoint opaque_free (g : gv) : bool :=
  match g with
  | GIface named v =>
    (negb named ||
     match v with
     | GPtrNil => true
     | _ => match strip v with GStruct _ _ _ | GMap _ | GMapNil => true | _ => false end
     end)
    && opaque_free v
  | GPtr v => opaque_free v
  | _ => true
  end.
Definition node_ok (g : gv) : bool :=
  opaque_free g && match strip g with GFunc _ _ => false | _ => true end.

(* the step makes sense for the kind of value it is applied to (or that value is absent) *)
Definition kind_ok (g : gv) (s : step) : bool :=
  match s, strip g with
  | Field _, (GStruct _ _ _ | GMap _ | GMapNil | GNil | GInt _ | GFloat _ | GBool _ | GChan) => true
  | Field n, GStr _ => negb (mem n string_members)
  | Key _, (GMap _ | GMapNil | GNil | GChan) => true
  | Idx _ _, (GSlice _ | GSliceNil | GNil | GChan) => true
  | Idx _ i, GStr s => negb (in_range i (length s))     (* out of range on a string: nothing, like on a list *)
  | _, _ => false
  end.

(* where the path ends: a leaf (integers below 10^10 in absolute value) or nothing *)
Definition end_ok (g : gv) : bool :=
  match strip g with
  | GStr _ | GBool _ | GNil | GChan => true
  | GInt z | GFloat z => Z.ltb (Z.abs z) ten10
  | _ => false
  end.

Fixpoint shape_walk (g : gv) (p : list step) : bool :=
  match p with
  | [] => end_ok g
  | s :: r =>
    kind_ok g s &&
    match go_step g s with
    | Some g' => node_ok g' && shape_walk g' r
    | None => true
    end
  end.

(* F-C11-a: a name that is absent as such but that Map.Member's chain folds onto a present member *)
Definition fold_hit (g : gv) (n : bytes) : bool :=
  negb (is_some (go_member g n)) &&
  existsb (fun c => is_some (go_member g c)) (fold_candidates n).

Definition step_fold_hit (g : gv) (s : step) : bool :=
  match s with Field n => fold_hit g n | _ => false end.

Fixpoint fold_walk (g : gv) (p : list step) : bool :=   (* true = no step of p folds *)
  match p with
  | [] => true
  | s :: r =>
    negb (step_fold_hit g s) &&
    match go_step g s with Some g' => fold_walk g' r | None => true end
  end.

(* at the top level the only folding is `$lowerFirst(key)` *)
Definition top_fold_hit (d : gv) (n : bytes) : bool :=
  negb (is_some (go_member d n)) &&
  existsb (fun km => beqb (lower_first (fst km)) n) (members d).

Definition reserved_top : list bytes :=
  [B "global"; B "range"; B "json"; B "null"; B "parseInt";
   B "Math"; B "JSON"; B "Object"; B "stripTags"].       (* `$global`, `range` -> `__Range`, template functions *)

Definition ascii_name (n : bytes) : bool :=
  negb (beqb n []) && forallb is_ascii n && negb (beqb n (B "__assign")).
Definition ascii_initial (n : bytes) : bool := match n with [] => true | c :: _ => is_ascii c end.

Fixpoint ascii_tree (g : gv) : bool :=
  match g with
  | GSlice l => forallb ascii_tree l
  | GMap l => forallb (fun kv => ascii_initial (fst kv) && ascii_tree (snd kv)) l
  | GStruct fs vm pm =>
    forallb (fun f => match f with (n, _, v) => ascii_initial n && ascii_tree v end) fs
    && forallb (fun m => match m with (n, _, r) => ascii_initial n && ascii_tree r end) vm
    && forallb (fun m => match m with (n, _, r) => ascii_initial n && ascii_tree r end) pm
  | GPtr v => ascii_tree v
  | GIface _ v => ascii_tree v
  | GFunc _ r => ascii_tree r
  | _ => true
  end.

(* the five visible parts of the domain *)
Definition names_ok (d : gv) (p : list step) : bool :=
  ascii_tree d &&
  forallb (fun s => match s with Field n => ascii_name n | _ => true end) p &&
  match p with Field n :: _ => negb (mem n reserved_top) | _ => false end.

Definition shape_ok (d : gv) (p : list step) : bool :=
  match p with
  | Field n :: rest =>
    node_ok d &&
    match go_step d (Field n) with
    | Some g' => node_ok g' && shape_walk g' rest
    | None => true
    end
  | _ => false
  end.

Definition fold_free (d : gv) (p : list step) : bool :=
  match p with
  | Field n :: rest =>
    negb (top_fold_hit d n) &&
    match go_step d (Field n) with Some g' => fold_walk g' rest | None => true end
  | _ => true
  end.

(* F-C11-b: the first name selects a method of the page data itself *)
Definition top_method (d : gv) (p : list step) : bool :=
  match p with
  | Field n :: _ =>
    match strip d, go_member d n with
    | GStruct _ _ _, Some (MMeth _ _) => true
    | _, _ => false
    end
  | _ => false
  end.

(* F-C11-c: unescaped output of a dotted name whose first name is undefined *)
Definition raw_undefined (d : gv) (p : list step) (raw : bool) : bool :=
  match p with
  | Field n :: rest => raw && negb (is_some (go_step d (Field n))) && forallb is_field rest
  | _ => false
  end.

Definition dom_C11 (d : gv) (p : list step) (raw : bool) : bool :=
  names_ok d p && shape_ok d p && fold_free d p
  && negb (top_method d p) && negb (raw_undefined d p raw).

(* ================================================================== members that collide after the name mapping
   The member table is keyed by lower_first(name); Go keeps the names apart: an exported field Title and an
   unexported field title are two fields of one struct, so are an unexported field holder and a method Holder(),
   an embedded type Inner and a field inner. Map.convert never stores an unexported field
   (`if val.Field(i).CanInterface()`), so the order of declaration cannot matter. *)
Definition exported_field (f : bytes * bool * gv) : bool := snd (fst f).
Definition exported_fields (fs : list (bytes * bool * gv)) : list (bytes * bool * gv) := filter exported_field fs.

(* the field part of the member table if the loop stored EVERY field, an unreadable one as Nil (which is what
   convert answers for it): not what Map.convert does; kept to state what the guard is for *)
Definition table_unguarded (fs : list (bytes * bool * gv)) : list (bytes * val) :=
  build (map (fun f : bytes * bool * gv => match f with (n, e, v) => (lower_first n, if e then convert v else VNil) end) fs).

(* ================================================================== histories
   The renders one process performs one after the other (on one engine or several). The Go code keeps no table that
   outlives one converted value: Map.items belongs to the *Map that one render made for one value, and neither the
   package nor the Engine holds anything derived from page data. So M keeps nothing between two renders either, and
   the model of a history is the model of each of its renders; S likewise reads every value on its own. *)
Definition render_req : Type := (gv * list step * bool)%type.

Definition run_history (h : list render_req) : list (res bytes) :=
  map (fun x => match x with (d, p, raw) => run d p raw end) h.

Definition spec_history (h : list render_req) : list (res bytes) :=
  map (fun x => match x with (d, p, raw) => ROk (render raw (leaf_text (go_path d p))) end) h.

Definition dom_history (h : list render_req) : bool :=
  forallb (fun x => match x with (d, p, raw) => dom_C11 d p raw end) h.
