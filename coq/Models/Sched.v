(* C08 model: k renders on one engine under an arbitrary scheduler.

   Go (pugjs/engine.go, Render, after the rate limit):

     if atomic.LoadInt32(&e.templatesLoaded) == 0 && !e.Debug { e.LoadTemplates("") }   // cold start: C10
     else if e.Debug { e.LoadTemplates(templateName) }                                   // debug: reload, WRITES e.templates
     e.RLock(); templateInstance, ok := e.templates[templateName]; e.RUnlock()
     if !ok { return nil, "Template ... not found!" }
     templateInstance.ExecuteTemplate(ctx, result, templateName, convert(data), e.Trace)

   and pugjs/tpl_exec.go, Template.execute:

     state := &state{tmpl: t, wr: wr, vars: []variable{{"$", value}}, ...}   // allocated per call
     ... state.globals = append(..., variable{`$global`, &Map{...}})         // per call
     state.walk(value, t.Root)                                               // reads t.Tree, t.common.execFuncs (under muFuncs.RLock)

   Part 1 is generic: whatever one render does is a step function [gstep] over
   (shared, private) state; the theorems of Proofs/SchedProofs.v hold for EVERY
   such function that does not change what other renders can see of the shared
   state ([view_preserved], [view_determines]; with the identity view:
   [reads_only]).  Part 2 gives concrete step functions: a small engine with a
   template table and a function table in production and in debug mode, and the
   replay machine the judge runs.  Part 3 is the gate around the lookup: the
   engine's RWMutex with readers (Render: RLock, lookup, RUnlock) and writers
   (LoadTemplates: Lock, several writes, Unlock).

   Definitions only; proofs are in Proofs/SchedProofs.v. *)
From PV Require Import Base.Bytes.

(* ------------------------------------------------------------------ Part 1: scheduler *)

Fixpoint upd {A} (i : nat) (x : A) (l : list A) : list A :=
  match l, i with
  | [], _ => []
  | _ :: r, O => x :: r
  | y :: r, S i' => y :: upd i' x r
  end.

Section Sched.
  Variables shared priv : Type.
  (* one atomic step of one render: None = the render has returned (not enabled) *)
  Variable gstep : shared -> priv -> option (shared * priv).

  Record sys := mkSys { sh : shared; rs : list priv }.

  (* the scheduler picks render i; a finished render or a wrong index stutters *)
  Definition sys_step (i : nat) (s : sys) : sys :=
    match nth_error (rs s) i with
    | None => s
    | Some p =>
      match gstep (sh s) p with
      | None => s
      | Some (h', p') => mkSys h' (upd i p' (rs s))
      end
    end.

  (* a schedule is ANY list of render indices *)
  Definition run (sched : list nat) (s : sys) : sys :=
    fold_left (fun s i => sys_step i s) sched s.

  (* a render run alone for n of its own steps *)
  Fixpoint alone (n : nat) (h : shared) (p : priv) : shared * priv :=
    match n with
    | O => (h, p)
    | S n' =>
      match gstep h p with
      | None => (h, p)
      | Some (h', p') => alone n' h' p'
      end
    end.

  Definition finished (h : shared) (p : priv) : bool :=
    match gstep h p with None => true | Some _ => false end.

  (* every Render call has returned *)
  Definition complete (s : sys) : bool := forallb (finished (sh s)) (rs s).

  Definition count (i : nat) (sched : list nat) : nat := count_occ Nat.eq_dec sched i.

  (* the sequential schedule: render i runs ns[i] steps, one render after the other *)
  Fixpoint seq_sched (i : nat) (ns : list nat) : list nat :=
    match ns with
    | [] => []
    | n :: r => repeat i n ++ seq_sched (S i) r
    end.

  (* footprint discipline, stated through a view of the shared state:
     no step changes the view, and a step's effect on its own state (and whether
     it is enabled) depends on the shared state through the view only *)
  Variable view : Type.
  Variable vw : shared -> view.

  Definition view_preserved : Prop :=
    forall h p h' p', gstep h p = Some (h', p') -> vw h' = vw h.

  Definition view_determines : Prop :=
    forall h1 h2 p, vw h1 = vw h2 ->
      option_map snd (gstep h1 p) = option_map snd (gstep h2 p).

  (* two system states that no render can tell apart *)
  Definition sys_equiv (s1 s2 : sys) : Prop :=
    vw (sh s1) = vw (sh s2) /\ rs s1 = rs s2.
End Sched.

Arguments mkSys {shared priv}.
Arguments sh {shared priv}.
Arguments rs {shared priv}.
Arguments sys_step {shared priv}.
Arguments run {shared priv}.
Arguments alone {shared priv}.
Arguments finished {shared priv}.
Arguments complete {shared priv}.
Arguments view_preserved {shared priv} gstep {view} vw.
Arguments view_determines {shared priv} gstep {view} vw.
Arguments sys_equiv {shared priv view} vw.

(* the special case the engine is in after loading in production mode: steps only read *)
Definition reads_only {shared priv} (gstep : shared -> priv -> option (shared * priv)) : Prop :=
  forall h p h' p', gstep h p = Some (h', p') -> h' = h.

(* ------------------------------------------------------------------ Part 2a: a small engine *)

(* compiled template = list of instructions over a per-render accumulator *)
Inductive instr :=
| IText (b : bytes)           (* static text *)
| IData                       (* print the render's data *)
| IAcc                        (* print the accumulator *)
| IAdd (z : Z)                (* variable mutation: acc := acc + z *)
| IAddData                    (* acc := acc + data *)
| ICall (f : bytes)           (* acc := funcs[f](acc); unknown function = execution error *)
| IRepeat (n : nat) (body : list instr).  (* loop, unrolled when reached *)

Definition tset := list (bytes * list instr).

Record eng := mkEng {
  e_templates : tset;                       (* Engine.templates *)
  e_funcs : list (bytes * (Z -> Z));        (* common.execFuncs *)
  e_disk : tset;                            (* what LoadTemplates would compile from Basedir *)
  e_loads : nat;                            (* how often the set was replaced (ghost) *)
}.

Inductive rpc :=
| PStart                       (* before the debug test *)
| PLookup                      (* about to RLock / look up / RUnlock *)
| PExec (code : list instr)    (* executing; remaining code *)
| POk                          (* returned (result, nil) *)
| PErr.                        (* returned an error / panicked *)

Record rstate := mkR {
  r_name : bytes; r_data : Z;              (* the call's arguments *)
  r_acc : Z; r_out : bytes; r_pc : rpc;    (* state struct and output buffer, allocated per call *)
}.

Definition set_pc (r : rstate) (pc : rpc) : rstate :=
  mkR (r_name r) (r_data r) (r_acc r) (r_out r) pc.

Definition exec_instr (e : eng) (r : rstate) (i : instr) (rest : list instr) : rstate :=
  match i with
  | IText b => mkR (r_name r) (r_data r) (r_acc r) (r_out r ++ b) (PExec rest)
  | IData => mkR (r_name r) (r_data r) (r_acc r) (r_out r ++ show_Z (r_data r)) (PExec rest)
  | IAcc => mkR (r_name r) (r_data r) (r_acc r) (r_out r ++ show_Z (r_acc r)) (PExec rest)
  | IAdd z => mkR (r_name r) (r_data r) (r_acc r + z)%Z (r_out r) (PExec rest)
  | IAddData => mkR (r_name r) (r_data r) (r_acc r + r_data r)%Z (r_out r) (PExec rest)
  | ICall f =>
    match lookup f (e_funcs e) with
    | Some g => mkR (r_name r) (r_data r) (g (r_acc r)) (r_out r) (PExec rest)
    | None => set_pc r PErr
    end
  | IRepeat n body => set_pc r (PExec (concat (repeat body n) ++ rest))
  end.

Definition prefix_filter (name : bytes) (d : tset) : tset :=
  filter (fun kv => prefixb name (fst kv)) d.

(* one atomic step of Engine.Render; [debug] is Engine.Debug *)
Definition estep (debug : bool) (e : eng) (r : rstate) : option (eng * rstate) :=
  match r_pc r with
  | PStart =>
    if debug
    then (* LoadTemplates(templateName): replaces the shared set by the files matching the name *)
      Some (mkEng (prefix_filter (r_name r) (e_disk e)) (e_funcs e) (e_disk e) (S (e_loads e)),
            set_pc r PLookup)
    else Some (e, set_pc r PLookup)
  | PLookup =>
    match lookup (r_name r) (e_templates e) with
    | Some code => Some (e, set_pc r (PExec code))
    | None => Some (e, set_pc r PErr)
    end
  | PExec [] => Some (e, set_pc r POk)
  | PExec (i :: rest) => Some (e, exec_instr e r i rest)
  | POk | PErr => None
  end.

(* what the caller of Render gets: None = still running *)
Definition eresult (r : rstate) : option (option bytes) :=
  match r_pc r with
  | POk => Some (Some (r_out r))
  | PErr => Some None
  | _ => None
  end.

Definition new_render (name : bytes) (data : Z) : rstate := mkR name data 0%Z [] PStart.

(* ------------------------------------------------------------------ Part 2b: the replay machine (judge) *)

(* The judge instantiates "what one render does" with what Go was OBSERVED to do
   when the job ran alone: the shared table holds, per job, the sequential result
   cut into chunks; a render copies its job's chunks one step at a time. *)

Definition chunk_len : nat := 32.

Fixpoint chunks_fuel (fuel : nat) (b : bytes) : list bytes :=
  match fuel with
  | O => []
  | S f =>
    match b with
    | [] => []
    | _ => firstn chunk_len b :: chunks_fuel f (skipn chunk_len b)
    end
  end.

Definition chunks (b : bytes) : list bytes := chunks_fuel (length b) b.

(* what Render returned: the output, or an error class (1 not found, 2 execution panic, ...) *)
Definition result := (bytes + nat)%type.

Definition jobtab := list (list bytes + nat).  (* per job: chunks of the output | error class *)

Inductive pstatus := Running | DoneOk | DoneErr (cls : nat).

Record pstate := mkP { p_job : nat; p_pos : nat; p_out : bytes; p_st : pstatus }.

Definition pstep (tab : jobtab) (p : pstate) : option (jobtab * pstate) :=
  match p_st p with
  | Running =>
    match nth_error tab (p_job p) with
    | Some (inl cs) =>
      match nth_error cs (p_pos p) with
      | Some c => Some (tab, mkP (p_job p) (S (p_pos p)) (p_out p ++ c) Running)
      | None => Some (tab, mkP (p_job p) (p_pos p) (p_out p) DoneOk)
      end
    | Some (inr k) => Some (tab, mkP (p_job p) (p_pos p) (p_out p) (DoneErr k))
    | None => Some (tab, mkP (p_job p) (p_pos p) (p_out p) (DoneErr 0))
    end
  | _ => None
  end.

Definition presult (p : pstate) : option result :=
  match p_st p with
  | Running => None
  | DoneOk => Some (inl (p_out p))
  | DoneErr k => Some (inr k)
  end.

Definition new_replay (job : nat) : pstate := mkP job 0 [] Running.

Definition chunk_result (r : result) : list bytes + nat :=
  match r with inl b => inl (chunks b) | inr k => inr k end.

Definition mk_jobtab (seq : list result) : jobtab := map chunk_result seq.

(* ------------------------------------------------------------------ Part 3: the gate around the lookup *)

(* sync.RWMutex as the set of its holders: LRead [] is the free lock.  (Go keeps
   counters; recording WHO holds the lock is the same machine with ghost names.) *)
Inductive lockst :=
| LRead (holders : list nat)
| LWrite (holder : nat).

Section Gate.
  Variable T : Type.                       (* a compiled template *)
  Definition gset := list (bytes * T).     (* a template set *)

  Record gshared := mkG { g_cur : gset; g_lock : lockst }.

  Inductive rphase :=
  | RIdle                     (* before e.RLock() *)
  | RLocked                   (* holding the read lock *)
  | RRead (v : option T)      (* e.templates[name] read, still holding *)
  | RDone (v : option T).     (* after e.RUnlock() *)

  Inductive lphase :=
  | LIdle                     (* before e.Lock() *)
  | LHold (todo : list gset)  (* holding the write lock; memory states still to be written *)
  | LDone.

  (* A loader writes the shared set in several steps: every element of [inter]
     (arbitrary partial states, "mixes") and then [final].  [after]: a debug-mode
     Render continues with the lookup of that name after its load. *)
  Inductive thread :=
  | TReader (name : bytes) (ph : rphase)
  | TLoader (inter : list gset) (final : gset) (after : option bytes) (ph : lphase).

  Definition remove_nat (i : nat) (l : list nat) : list nat := remove Nat.eq_dec i l.

  (* one step of thread i; [locking = false] is the machine WITHOUT the mutex (for the
     refutation only).  None = blocked or finished: the scheduler's pick stutters. *)
  Definition gstep1 (locking : bool) (i : nat) (g : gshared) (t : thread) : option (gshared * thread) :=
    match t with
    | TReader name RIdle =>
      match g_lock g with
      | LRead hs => Some (mkG (g_cur g) (LRead (i :: hs)), TReader name RLocked)
      | LWrite _ => if locking then None else Some (g, TReader name RLocked)
      end
    | TReader name RLocked => Some (g, TReader name (RRead (lookup name (g_cur g))))
    | TReader name (RRead v) =>
      match g_lock g with
      | LRead hs => Some (mkG (g_cur g) (LRead (remove_nat i hs)), TReader name (RDone v))
      | LWrite _ => Some (g, TReader name (RDone v))
      end
    | TReader _ (RDone _) => None
    | TLoader inter final after LIdle =>
      match g_lock g with
      | LRead [] => Some (mkG (g_cur g) (LWrite i), TLoader inter final after (LHold (inter ++ [final])))
      | LRead (_ :: _) =>
        if locking then None
        else Some (mkG (g_cur g) (LWrite i), TLoader inter final after (LHold (inter ++ [final])))
      | LWrite _ => None
      end
    | TLoader inter final after (LHold (x :: todo)) =>
      Some (mkG x (g_lock g), TLoader inter final after (LHold todo))
    | TLoader inter final after (LHold []) =>
      Some (mkG (g_cur g) (LRead []),
            match after with
            | Some name => TReader name RIdle
            | None => TLoader inter final after LDone
            end)
    | TLoader _ _ _ LDone => None
    end.

  Record gsys := mkGS { gs_sh : gshared; gs_ts : list thread }.

  Definition gsys_step (locking : bool) (i : nat) (s : gsys) : gsys :=
    match nth_error (gs_ts s) i with
    | None => s
    | Some t =>
      match gstep1 locking i (gs_sh s) t with
      | None => s
      | Some (g', t') => mkGS g' (upd i t' (gs_ts s))
      end
    end.

  Definition grun (locking : bool) (sched : list nat) (s : gsys) : gsys :=
    fold_left (fun s i => gsys_step locking i s) sched s.

  (* all threads at their first instruction, lock free *)
  Definition thread_initial (t : thread) : Prop :=
    match t with
    | TReader _ RIdle => True
    | TLoader _ _ _ LIdle => True
    | _ => False
    end.

  Definition ginit (cur : gset) (ts : list thread) : gsys := mkGS (mkG cur (LRead [])) ts.

  (* the committed sets: the initial one and every loader's final one *)
  Fixpoint finals (ts : list thread) : list gset :=
    match ts with
    | [] => []
    | TLoader _ final _ _ :: r => final :: finals r
    | TReader _ _ :: r => finals r
    end.

  (* what a lookup has observed, if it has *)
  Definition observed (t : thread) : option (bytes * option T) :=
    match t with
    | TReader name (RRead v) => Some (name, v)
    | TReader name (RDone v) => Some (name, v)
    | _ => None
    end.
End Gate.

Arguments mkG {T}.
Arguments g_cur {T}.
Arguments g_lock {T}.
Arguments RIdle {T}.
Arguments RLocked {T}.
Arguments RRead {T}.
Arguments RDone {T}.
Arguments LIdle {T}.
Arguments LHold {T}.
Arguments LDone {T}.
Arguments TReader {T}.
Arguments TLoader {T}.
Arguments gstep1 {T}.
Arguments mkGS {T}.
Arguments gs_sh {T}.
Arguments gs_ts {T}.
Arguments gsys_step {T}.
Arguments grun {T}.
Arguments thread_initial {T}.
Arguments ginit {T}.
Arguments finals {T}.
Arguments observed {T}.

(* ------------------------------------------------------------------ Part 2c: context-aware template functions *)

(* A Render call is (template, data, ctx).  Go (pugjs/tpl_exec.go): the context is a field of
   the per-call state,

     state := &state{tmpl: t, ctx: reflect.ValueOf(ctx), ...}

   and (pugjs/tpl_funcs.go, findFunction) a template function registered through
   Engine.FuncProvider has the type func(context.Context) interface{}: EVERY time a template
   names it, the shared table common.execFuncs is read (under muFuncs.RLock) and the entry is
   bound to the context of the render that is executing:

     if fn.Type() == ctxFuncType { fn = fn.Call([]reflect.Value{s.ctx})[0].Elem() }

   Model: a provider maps a context to the function to call; a bound function is
   [g c] and is represented by the context [c] it was bound to.  [cstep false] is the code as
   it is (bind per use, nothing shared is written).  [cstep true] is the same engine with the
   bound functions remembered in the SHARED template set, keyed by the context that used them
   last: decide (read section) / call the provider outside any lock / store (write section).
   It is here only to show that the theorem about [cstep false] is not vacuous: with a memo
   in the shared state the statement is false (Proofs/SchedProofs.v, ctx_memo_refuted). *)

Definition provider := Z -> Z -> Z.            (* context -> argument -> result *)

Record cshared := mkCS {
  cs_funcs : list (bytes * provider);          (* common.execFuncs *)
  cs_owner : option Z;                         (* memo variant only: whose bindings are stored *)
  cs_bound : list (bytes * Z);                 (* memo variant only: name -> context it was bound to *)
}.

Inductive cpc :=
| CRun (code : list bytes)                               (* the functions the template still calls *)
| CBind (f : bytes) (rebind : bool) (rest : list bytes)  (* memo variant: inside f's provider, decision taken *)
| CEnd
| CFail.                                                 (* unknown function: execution error *)

Record cstate := mkC { c_ctx : Z; c_acc : Z; c_pc : cpc }.

Definition owner_is (c : Z) (o : option Z) : bool :=
  match o with Some c' => Z.eqb c c' | None => false end.

Definition cstep (memo : bool) (h : cshared) (r : cstate) : option (cshared * cstate) :=
  match c_pc r with
  | CRun [] => Some (h, mkC (c_ctx r) (c_acc r) CEnd)
  | CRun (f :: rest) =>
    match lookup f (cs_funcs h) with
    | None => Some (h, mkC (c_ctx r) (c_acc r) CFail)
    | Some g =>
      if memo then
        let rebind := negb (owner_is (c_ctx r) (cs_owner h)) in
        match lookup f (cs_bound h) with
        | Some c =>
          if rebind then Some (h, mkC (c_ctx r) (c_acc r) (CBind f rebind rest))
          else Some (h, mkC (c_ctx r) (g c (c_acc r)) (CRun rest))       (* a hit: the stored binding *)
        | None => Some (h, mkC (c_ctx r) (c_acc r) (CBind f rebind rest))
        end
      else Some (h, mkC (c_ctx r) (g (c_ctx r) (c_acc r)) (CRun rest))   (* bound to the caller's context *)
    end
  | CBind f rebind rest =>
    match lookup f (cs_funcs h) with
    | None => Some (h, mkC (c_ctx r) (c_acc r) CFail)
    | Some g =>
      Some (if memo
            then (if rebind then mkCS (cs_funcs h) (Some (c_ctx r)) [(f, c_ctx r)]
                  else mkCS (cs_funcs h) (cs_owner h) ((f, c_ctx r) :: cs_bound h))
            else h,                                                      (* unreachable without the memo *)
            mkC (c_ctx r) (g (c_ctx r) (c_acc r)) (CRun rest))
    end
  | CEnd | CFail => None
  end.

(* S: what a render whose context is [c] must compute, whoever else is rendering *)
Fixpoint cspec (funcs : list (bytes * provider)) (c : Z) (code : list bytes) (a : Z) : option Z :=
  match code with
  | [] => Some a
  | f :: rest =>
    match lookup f funcs with
    | Some g => cspec funcs c rest (g c a)
    | None => None
    end
  end.

Definition cresult (r : cstate) : option (option Z) :=
  match c_pc r with
  | CEnd => Some (Some (c_acc r))
  | CFail => Some None
  | _ => None
  end.

Definition new_crender (c : Z) (code : list bytes) : cstate := mkC c 0%Z (CRun code).

(* ------------------------------------------------------------------ Part 2d: struct data, members that are not there *)

(* "Each with its own data": the data of a call is a Go value of the application, in practice a
   STRUCT, and templates read members that the value may not have.  Go (pugjs/types.go):

     convert:       case reflect.Struct: newMap := &Map{o: val.Interface()}      // nothing derived yet
     Map.convert:   m.items[lowerFirst(val.Type().Field(i).Name)] = convert(val.Field(i)) ...
                    // on the FIRST member access, by reflection on the value, into the value's own Map
     Map.Member:    items[f] | items[upperFirst(f)] | items[strings.Title(f)] |
                    f' := strings.NewReplacer("id","ID","url","URL","api","API").Replace(f);
                    items[f'] | items[upperFirst(f')] | items[strings.Title(f')] | Nil{}

   Everything is derived from the call's own value by pure helpers, on the spot: nothing is
   remembered per Go type, no helper keeps state between calls.  So it makes no difference
   whether a type, a template or a helper is used for the first time in the process, and how
   many renders are doing so at once.  [mstep MAsIs] is that code.  Two variants, here only to
   show that the theorem about [MAsIs] is not vacuous (Proofs/SchedProofs.v, *_refuted):
   [MTypeCache] remembers the member names per type in the shared state and publishes the entry
   BEFORE it is filled (right for ever once a type has been converted alone: only renders that
   meet a type for the first time TOGETHER see it); [MSharedCaser] title-cases through one
   shared stateful helper (its buffer is the shared state).

   The shared state holds the read-only type table of package reflect (type -> field names).
   Members are numbers; a member that is not there is [None] (Nil{}). *)

Definition ascii_range (lo hi : N) (c : ascii) : bool :=
  let n := N_of_ascii c in (N.leb lo n && N.leb n hi)%bool.

Definition up_ascii (c : ascii) : ascii :=
  if ascii_range 97 122 c then ascii_of_N (N_of_ascii c - 32) else c.
Definition low_ascii (c : ascii) : ascii :=
  if ascii_range 65 90 c then ascii_of_N (N_of_ascii c + 32) else c.

(* lowerFirst / upperFirst (pugjs/tpl_exec.go), on ASCII *)
Definition lower_first (b : bytes) : bytes := match b with [] => [] | c :: r => low_ascii c :: r end.
Definition upper_first (b : bytes) : bytes := match b with [] => [] | c :: r => up_ascii c :: r end.

(* strings.Title on ASCII: the first letter of every word; letters, digits, '_' and bytes >= 128
   do not separate words *)
Definition is_sep (c : ascii) : bool :=
  negb (ascii_range 97 122 c || ascii_range 65 90 c || ascii_range 48 57 c || ascii_range 95 95 c
        || ascii_range 128 255 c)%bool.

Fixpoint title_from (start : bool) (b : bytes) : bytes :=
  match b with
  | [] => []
  | c :: r => (if start then up_ascii c else c) :: title_from (is_sep c) r
  end.
Definition title (b : bytes) : bytes := title_from true b.

(* strings.NewReplacer("id", "ID", "url", "URL", "api", "API").Replace *)
Fixpoint fold_ids (b : bytes) : bytes :=
  match b with
  | "i"%char :: "d"%char :: r => "I"%char :: "D"%char :: fold_ids r
  | "u"%char :: "r"%char :: "l"%char :: r => "U"%char :: "R"%char :: "L"%char :: fold_ids r
  | "a"%char :: "p"%char :: "i"%char :: r => "A"%char :: "P"%char :: "I"%char :: fold_ids r
  | c :: r => c :: fold_ids r
  | [] => []
  end.

Definition mitems := list (bytes * Z).

Definition or_else {A} (a b : option A) : option A := match a with Some _ => a | None => b end.

(* the lookups of Map.Member before the first strings.Title ... *)
Definition member_fast (items : mitems) (f : bytes) : option Z :=
  or_else (lookup f items) (lookup (upper_first f) items).

(* ... and from it on; [t], [t'] are what the title-casing of f and of the folded f returned *)
Definition member_slow (items : mitems) (f t t' : bytes) : option Z :=
  or_else (lookup t items)
    (let f' := fold_ids f in
     or_else (lookup f' items) (or_else (lookup (upper_first f') items) (lookup t' items))).

(* S: the member of a value, a function of the value alone *)
Definition member (items : mitems) (f : bytes) : option Z :=
  or_else (member_fast items f) (member_slow items f (title f) (title (fold_ids f))).

Fixpoint nlookup {A} (k : nat) (m : list (nat * A)) : option A :=
  match m with
  | [] => None
  | (k', v) :: r => if Nat.eqb k k' then Some v else nlookup k r
  end.

Fixpoint nappend (k : nat) (x : bytes) (m : list (nat * list bytes)) : list (nat * list bytes) :=
  match m with
  | [] => []
  | (k', v) :: r => if Nat.eqb k k' then (k', v ++ [x]) :: r else (k', v) :: nappend k x r
  end.

Inductive mvariant := MAsIs | MTypeCache | MSharedCaser.

Record mshared := mkMS {
  ms_types : list (nat * list bytes);   (* reflect: struct type -> Go field names; never written *)
  ms_cache : list (nat * list bytes);   (* MTypeCache only: type -> member names published so far *)
  ms_word : bytes;                      (* MSharedCaser only: the buffer of the shared caser *)
}.

(* the call's data: a struct value (its type, its field values) or a map value (its entries) *)
Inductive mdata :=
| DStruct (t : nat) (vals : list Z)
| DMapV (kv : mitems).

Inductive mpc :=
| MRun (items : option mitems) (code : list bytes) (out : list (option Z))
                                   (* items = None: the value's Map is not converted yet;
                                      code: the members the template still reads *)
| MFill (todo : list bytes) (code : list bytes) (out : list (option Z))
                                   (* MTypeCache: this render published the type's entry and is filling it *)
| MCased (f : bytes) (items : mitems) (code : list bytes) (out : list (option Z))
                                   (* MSharedCaser: f is in the shared caser, its result not read yet *)
| MEnd (out : list (option Z)).

Record mstate := mkM { m_data : mdata; m_pc : mpc }.

(* Map.convert's derivation of the member names of a struct type *)
Definition names_of (h : mshared) (t : nat) : list bytes :=
  match nlookup t (ms_types h) with Some fs => map lower_first fs | None => [] end.

(* S: the members of a value *)
Definition items_of (types : list (nat * list bytes)) (d : mdata) : mitems :=
  match d with
  | DStruct t vals =>
    combine (match nlookup t types with Some fs => map lower_first fs | None => [] end) vals
  | DMapV kv => kv
  end.

Definition mstep (v : mvariant) (h : mshared) (r : mstate) : option (mshared * mstate) :=
  let d := m_data r in
  match m_pc r with
  | MRun None code out =>
    match d, v with
    | DStruct t vals, MTypeCache =>
      match nlookup t (ms_cache h) with
      | Some names => Some (h, mkM d (MRun (Some (combine names vals)) code out))   (* whatever is there *)
      | None => Some (mkMS (ms_types h) ((t, []) :: ms_cache h) (ms_word h),          (* published empty *)
                      mkM d (MFill (names_of h t) code out))
      end
    | _, _ => Some (h, mkM d (MRun (Some (items_of (ms_types h) d)) code out))
    end
  | MFill (n :: todo) code out =>
    match d, v with
    | DStruct t _, MTypeCache =>
      Some (mkMS (ms_types h) (nappend t n (ms_cache h)) (ms_word h), mkM d (MFill todo code out))
    | _, _ => Some (h, mkM d (MFill todo code out))                                   (* unreachable *)
    end
  | MFill [] code out =>
    match d with
    | DStruct t vals =>
      Some (h, mkM d (MRun (Some (combine (match nlookup t (ms_cache h) with Some ns => ns | None => [] end) vals))
                           code out))
    | DMapV kv => Some (h, mkM d (MRun (Some kv) code out))                           (* unreachable *)
    end
  | MRun (Some items) [] out => Some (h, mkM d (MEnd out))
  | MRun (Some items) (f :: rest) out =>
    match member_fast items f with
    | Some x => Some (h, mkM d (MRun (Some items) rest (out ++ [Some x])))
    | None =>
      match v with
      | MSharedCaser => Some (mkMS (ms_types h) (ms_cache h) f, mkM d (MCased f items rest out))
      | _ => Some (h, mkM d (MRun (Some items) rest (out ++ [member_slow items f (title f) (title (fold_ids f))])))
      end
    end
  | MCased f items rest out =>
    (* both casings are of whatever the shared buffer holds now (one read: the model has ONE
       point of interference per lookup where the real helper has two) *)
    let w := ms_word h in
    Some (h, mkM d (MRun (Some items) rest (out ++ [member_slow items f (title w) (title (fold_ids w))])))
  | MEnd _ => None
  end.

(* S: what a render of (data, members read) returns, whoever else is rendering and whatever
   has or has not been rendered before *)
Definition mspec (types : list (nat * list bytes)) (d : mdata) (code : list bytes) : list (option Z) :=
  map (member (items_of types d)) code.

Definition mresult (r : mstate) : option (list (option Z)) :=
  match m_pc r with MEnd out => Some out | _ => None end.

Definition new_mrender (d : mdata) (code : list bytes) : mstate := mkM d (MRun None code []).
