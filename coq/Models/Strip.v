(* C14 model: the stripTags template function (templatefunctions/striptags_func.go).

   M follows the Go code function by function:
     createTag            -> mk_allow
     StriptagsFunc.Func   -> allow_of_slices / mk_allowlist / strip
     cleanTags            -> clean
     isSelfClosingTag     -> void   (table pugjs.SelfClosingTags, extracted: Gen/Tables.v)
     getAllowedAttributes -> allowed_attrs
     html.EscapeString    -> esc6   (golang.org/x/net/html, escape.go: escapes
                                     & ' < > double-quote and CR)

   html.ParseFragment is NOT modelled: the model starts from the node forest
   the parser returned, and every theorem quantifies over all forests.

   S: SafeDoc, the grammar of harmless output, with the executable checker
   safe_doc_b used by the judge.  Definitions only; proofs are in
   Proofs/StripProofs.v. *)
From PV Require Import Base.Bytes Gen.Tables.
Local Open Scope char_scope.

(* ------------------------------------------------------------------ *)
(* The parsed tree: golang.org/x/net/html.Node as cleanTags reads it
   (Type, Data, Attr[i].Key, Attr[i].Val, children in sibling order).   *)

Inductive hnode : Type :=
| HElem (name : bytes) (attrs : list (bytes * bytes)) (children : list hnode)
| HText (data : bytes)
| HComment (data : bytes)
| HDoctype (data : bytes)
| HOther.                           (* ErrorNode, DocumentNode, RawNode *)

(* ------------------------------------------------------------------ *)
(* M                                                                    *)

(* html.EscapeString: const escapedChars = & ' < > double-quote CR *)
Definition esc_char (c : ascii) : bytes :=
  if Ascii.eqb c "&" then B "&amp;"
  else if Ascii.eqb c "'" then B "&#39;"
  else if Ascii.eqb c "<" then B "&lt;"
  else if Ascii.eqb c ">" then B "&gt;"
  else if Ascii.eqb c """" then B "&#34;"
  else if Ascii.eqb c "013" then B "&#13;"
  else [c].

Definition esc6 (s : bytes) : bytes := flat_map esc_char s.

(* isSelfClosingTag *)
Definition void (n : bytes) : bool := mem n self_closing_tags.

(* allowedTags: map from element name to the set of allowed attribute names,
   as an association list read with [lookup] (first binding wins; built with
   Base.Bytes.insert, which is Go's map assignment). *)
Definition allowlist := list (bytes * list bytes).

(* cleanTags: tag, ok := allowedTags[n.Data]; ... if allowedTag.name != "" *)
Definition find_tag (allow : allowlist) (n : bytes) : option (list bytes) :=
  match lookup n allow with
  | Some aa => match n with [] => None | _ :: _ => Some aa end
  | None => None
  end.

(* getAllowedAttributes, one attribute *)
Definition attr_out (aa : list bytes) (kv : bytes * bytes) : bytes :=
  if mem (fst kv) aa then
    match snd kv with
    | [] => " " :: fst kv
    | _ :: _ => " " :: fst kv ++ "=" :: """" :: esc6 (snd kv) ++ [""""]
    end
  else [].

Definition allowed_attrs (aa : list bytes) (attrs : list (bytes * bytes)) : bytes :=
  flat_map (attr_out aa) attrs.

(* cleanTags *)
Fixpoint clean (allow : allowlist) (n : hnode) : bytes :=
  match n with
  | HElem name attrs kids =>
    let body := flat_map (clean allow) kids in      (* children are always visited *)
    match find_tag allow name with
    | Some aa =>
      "<" :: name ++ allowed_attrs aa attrs
          ++ (if void name then [" "; "/"] else []) ++ ">" :: body
          ++ (if void name then [] else "<" :: "/" :: name ++ [">"])
    | None => body
    end
  | HText s => esc6 s
  | HComment _ | HDoctype _ | HOther => []
  end.

(* the loop over the fragment's top-level nodes in Func *)
Definition strip (allow : allowlist) (forest : list hnode) : bytes :=
  flat_map (clean allow) forest.

(* ---- createTag ---- *)

(* strings.ToLower restricted to ASCII input (the judge declines definitions
   with a byte >= 0x80, where Go applies Unicode case mapping) *)
Definition lower_ascii (c : ascii) : ascii :=
  let n := nat_of_ascii c in
  if (65 <=? n)%nat && (n <=? 90)%nat then ascii_of_nat (n + 32) else c.

Definition to_lower (s : bytes) : bytes := map lower_ascii s.

(* strings.Split(s, sep) for a one-byte separator: never the empty list *)
Fixpoint split_on (sep : ascii) (s : bytes) : list bytes :=
  match s with
  | [] => [[]]
  | c :: r =>
    if Ascii.eqb c sep then [] :: split_on sep r
    else match split_on sep r with
         | h :: t => (c :: h) :: t
         | [] => [[c]]
         end
  end.

Fixpoint drop_while_eq (c : ascii) (s : bytes) : bytes :=
  match s with
  | x :: r => if Ascii.eqb x c then drop_while_eq c r else s
  | [] => []
  end.

(* strings.TrimRight(s, ")") *)
Definition trim_right (c : ascii) (s : bytes) : bytes := rev (drop_while_eq c (rev s)).

(* createTag: (name, allowed attribute names).  No "(" : attributes is the
   nil map, nothing is allowed. *)
Definition mk_allow (definition : bytes) : bytes * list bytes :=
  let d := to_lower definition in
  match split_on "(" d with
  | name :: rest :: _ => (name, split_on " " (trim_right ")" rest))
  | _ => (d, [])
  end.

(* for _, item := range slice { if definition, ok := item.(string); ok {
     tag := createTag(definition); allowedTags[tag.name] = tag } }
   an item that is not a string is None *)
Fixpoint mk_allowlist_from (acc : allowlist) (items : list (option bytes)) : allowlist :=
  match items with
  | [] => acc
  | None :: r => mk_allowlist_from acc r
  | Some d :: r => mk_allowlist_from (insert (fst (mk_allow d)) (snd (mk_allow d)) acc) r
  end.

Definition mk_allowlist (items : list (option bytes)) : allowlist := mk_allowlist_from [] items.

(* func(htmlString string, allowedTagsConfig ...config.Slice):
   the allow-list is read only when exactly one slice is passed *)
Definition allow_of_slices (slices : list (list (option bytes))) : allowlist :=
  match slices with
  | [s] => mk_allowlist s
  | _ => []
  end.

Definition striptags (slices : list (list (option bytes))) (forest : list hnode) : bytes :=
  strip (allow_of_slices slices) forest.

(* ---- the same function with an accumulator ----

   [clean] copies the text of a subtree once per enclosing level ("++" on the
   left operand), as the Go code does with "res +=".  [clean_acc allow n acc]
   is [clean allow n ++ acc] (Proofs/StripProofs.v, clean_acc_spec) computed
   without copying; the judge runs it on forests that are thousands of levels
   deep. *)
Fixpoint clean_acc (allow : allowlist) (n : hnode) (acc : bytes) : bytes :=
  match n with
  | HElem name attrs kids =>
    let body := fun tail =>
      (fix go (l : list hnode) : bytes :=
         match l with
         | [] => tail
         | k :: r => clean_acc allow k (go r)
         end) kids in
    match find_tag allow name with
    | Some aa =>
      "<" :: name ++ allowed_attrs aa attrs
          ++ (if void name then [" "; "/"] else []) ++ ">" ::
          body ((if void name then [] else "<" :: "/" :: name ++ [">"]) ++ acc)
    | None => body acc
    end
  | HText s => esc6 s ++ acc
  | HComment _ | HDoctype _ | HOther => acc
  end.

Fixpoint strip_acc (allow : allowlist) (forest : list hnode) : bytes :=
  match forest with
  | [] => []
  | n :: r => clean_acc allow n (strip_acc allow r)
  end.

Definition striptags_fast (slices : list (list (option bytes))) (forest : list hnode) : bytes :=
  strip_acc (allow_of_slices slices) forest.

(* ---- a forest written down without nesting ----

   The harness dumps the parse tree in document order as a flat list of
   tokens (open element / close element / leaf), so that a tree of any depth
   is a flat Gallina list literal; [build_forest] reads it back.
   [flatten_forest] is the writer; build_forest (flatten_forest f) = f
   (Proofs/StripProofs.v, build_flatten). *)
Inductive ftok : Type :=
| FOpen (name : bytes) (attrs : list (bytes * bytes))
| FClose
| FLeaf (n : hnode).

(* stack: the open elements, innermost first, each with the children of its
   parent read so far (latest first); cur: children of the innermost open
   element read so far (latest first).  A close without an open is skipped,
   an open without a close is closed at the end. *)
Fixpoint unwind (stack : list (bytes * list (bytes * bytes) * list hnode))
         (cur : list hnode) : list hnode :=
  match stack with
  | [] => rev cur
  | (n, a, up) :: st => unwind st (HElem n a (rev cur) :: up)
  end.

Fixpoint build_go (toks : list ftok)
         (stack : list (bytes * list (bytes * bytes) * list hnode))
         (cur : list hnode) : list hnode :=
  match toks with
  | FOpen n a :: r => build_go r ((n, a, cur) :: stack) []
  | FClose :: r =>
    match stack with
    | (n, a, up) :: st => build_go r st (HElem n a (rev cur) :: up)
    | [] => build_go r [] cur
    end
  | FLeaf x :: r => build_go r stack (x :: cur)
  | [] => unwind stack cur
  end.

Definition build_forest (toks : list ftok) : list hnode := build_go toks [] [].

Fixpoint flatten (n : hnode) : list ftok :=
  match n with
  | HElem name attrs kids => FOpen name attrs :: flat_map flatten kids ++ [FClose]
  | HText _ | HComment _ | HDoctype _ | HOther => [FLeaf n]
  end.

Definition flatten_forest (forest : list hnode) : list ftok := flat_map flatten forest.

(* ------------------------------------------------------------------ *)
(* S: what the property demands of the output                           *)

(* the character references that may appear *)
Definition refs : list bytes :=
  [B "&amp;"; B "&#39;"; B "&lt;"; B "&gt;"; B "&#34;"; B "&#13;"].

(* a character that is harmless as it stands *)
Definition plain (c : ascii) : bool :=
  negb (Ascii.eqb c "&" || Ascii.eqb c "<" || Ascii.eqb c ">" ||
        Ascii.eqb c """" || Ascii.eqb c "'").

(* escaped text: no < > double-quote or apostrophe; & only as the start of
   one of [refs] *)
Inductive EscText : bytes -> Prop :=
| ET_nil : EscText []
| ET_char c s : plain c = true -> EscText s -> EscText (c :: s)
| ET_ref r s : In r refs -> EscText s -> EscText (r ++ s).

(* ---- well-formed names ---- *)

Definition is_space (c : ascii) : bool :=
  Ascii.eqb c " " || Ascii.eqb c "009" || Ascii.eqb c "010" ||
  Ascii.eqb c "012" || Ascii.eqb c "013".

Definition name_char_ok (c : ascii) : bool :=
  negb (Ascii.eqb c "<" || Ascii.eqb c ">" || Ascii.eqb c """" || Ascii.eqb c "'" ||
        Ascii.eqb c "&" || Ascii.eqb c "=" || Ascii.eqb c "/" || is_space c).

Definition is_letter (c : ascii) : bool :=
  let n := nat_of_ascii c in
  ((65 <=? n)%nat && (n <=? 90)%nat) || ((97 <=? n)%nat && (n <=? 122)%nat).

Definition attr_name_ok (k : bytes) : bool :=
  match k with [] => false | _ :: _ => forallb name_char_ok k end.

(* an element name starts with an ASCII letter (so "<" + name never opens a
   comment, a declaration or a processing instruction) *)
Definition elem_name_ok (n : bytes) : bool :=
  match n with [] => false | c :: _ => is_letter c && forallb name_char_ok n end.

(* n is allow-listed, with attribute names aa *)
Definition allowed_b (allow : allowlist) (n : bytes) : option (list bytes) :=
  match n with
  | [] => None
  | _ :: _ => lookup n allow
  end.

(* the attribute part of a start tag: any number of  SPACE k  or
   SPACE k = QUOTE v QUOTE  with k allowed and v escaped text *)
Inductive SafeAttrs (aa : list bytes) : bytes -> Prop :=
| SA_nil : SafeAttrs aa []
| SA_bare k r : In k aa -> attr_name_ok k = true -> SafeAttrs aa r ->
                SafeAttrs aa (" " :: k ++ r)
| SA_val k v r : In k aa -> attr_name_ok k = true -> EscText v -> SafeAttrs aa r ->
                 SafeAttrs aa (" " :: k ++ "=" :: """" :: v ++ """" :: r).

Inductive SafeDoc (allow : allowlist) : bytes -> Prop :=
| SD_nil : SafeDoc allow []
| SD_text t s : EscText t -> SafeDoc allow s -> SafeDoc allow (t ++ s)
| SD_start n aa av (sc : bool) s :
    allowed_b allow n = Some aa -> elem_name_ok n = true ->
    SafeAttrs aa av -> SafeDoc allow s ->
    SafeDoc allow ("<" :: n ++ av ++ (if sc then [" "; "/"] else []) ++ ">" :: s)
| SD_end n aa s :
    allowed_b allow n = Some aa -> elem_name_ok n = true -> SafeDoc allow s ->
    SafeDoc allow ("<" :: "/" :: n ++ ">" :: s).

(* ---- domain: allow-lists whose names are names ---- *)

Definition allow_ok (allow : allowlist) : bool :=
  forallb (fun e => elem_name_ok (fst e) && forallb attr_name_ok (snd e)) allow.

(* raw-text / escapable-raw-text / plaintext elements: text below them is not
   parsed as character data by a browser; they are outside the property *)
Definition rawtext_names : list bytes :=
  [B "script"; B "style"; B "textarea"; B "title"; B "xmp"; B "noscript";
   B "noframes"; B "noembed"; B "iframe"; B "plaintext"].

Definition no_rawtext (allow : allowlist) : bool :=
  forallb (fun e => negb (mem (fst e) rawtext_names)) allow.

Definition dom_C14 (allow : allowlist) : bool := allow_ok allow && no_rawtext allow.

(* ---- executable checker for SafeDoc ---- *)

(* longest prefix whose characters satisfy p, and the rest *)
Fixpoint span (p : ascii -> bool) (s : bytes) : bytes * bytes :=
  match s with
  | c :: r => if p c then let sr := span p r in (c :: fst sr, snd sr) else ([], s)
  | [] => ([], [])
  end.

Definition ref_at (s : bytes) : bool := existsb (fun r => prefixb r s) refs.

Fixpoint esc_text_b (s : bytes) : bool :=
  match s with
  | [] => true
  | c :: r => (plain c || (Ascii.eqb c "&" && ref_at s)) && esc_text_b r
  end.

(* skip one reference at the head of s *)
Definition ref_skip (s : bytes) : option bytes :=
  match find (fun r => prefixb r s) refs with
  | Some r => Some (skipn (length r) s)
  | None => None
  end.

(* allow-listed and well-formed *)
Definition allowed_ok_b (allow : allowlist) (n : bytes) : option (list bytes) :=
  match allowed_b allow n with
  | Some aa => if elem_name_ok n then Some aa else None
  | None => None
  end.

(* result of a fuelled parser: out of fuel / rejected / accepted *)
Inductive pres (A : Type) : Type := POut | PRej | POk (x : A).
Arguments POut {A}. Arguments PRej {A}. Arguments POk {A} x.

Definition key_end (c : ascii) : bool :=
  Ascii.eqb c " " || Ascii.eqb c "=" || Ascii.eqb c ">".

Definition name_end (c : ascii) : bool := Ascii.eqb c " " || Ascii.eqb c ">".

(* after the element name of a start tag: attributes, optional " /", ">".
   Returns what follows the ">". *)
Fixpoint attrs_chk (fuel : nat) (aa : list bytes) (s : bytes) : pres bytes :=
  match fuel with
  | O => POut
  | S f =>
    match s with
    | [] => PRej
    | c :: r =>
      if Ascii.eqb c ">" then POk r
      else if Ascii.eqb c " " then
        if prefixb ["/"; ">"] r then POk (skipn 2 r)
        else
          let k := fst (span (fun c => negb (key_end c)) r) in
          let r1 := snd (span (fun c => negb (key_end c)) r) in
          if mem k aa && attr_name_ok k then
            if prefixb ["="; """"] r1 then
              let r2 := skipn 2 r1 in
              let v := fst (span (fun c => negb (Ascii.eqb c """")) r2) in
              match snd (span (fun c => negb (Ascii.eqb c """")) r2) with
              | _ :: r4 => if esc_text_b v then attrs_chk f aa r4 else PRej
              | [] => PRej
              end
            else attrs_chk f aa r1
          else PRej
      else PRej
    end
  end.

Fixpoint doc_chk (fuel : nat) (allow : allowlist) (s : bytes) : pres unit :=
  match fuel with
  | O => POut
  | S f =>
    match s with
    | [] => POk tt
    | c :: r =>
      if Ascii.eqb c "<" then
        if prefixb ["/"] r then
          let n := fst (span (fun c => negb (Ascii.eqb c ">")) (skipn 1 r)) in
          match snd (span (fun c => negb (Ascii.eqb c ">")) (skipn 1 r)) with
          | _ :: r4 =>
            match allowed_ok_b allow n with
            | Some _ => doc_chk f allow r4
            | None => PRej
            end
          | [] => PRej
          end
        else
          let n := fst (span (fun c => negb (name_end c)) r) in
          let r3 := snd (span (fun c => negb (name_end c)) r) in
          match allowed_ok_b allow n with
          | Some aa =>
            (* the document's own fuel is enough for the attributes (r3 is a
               suffix of r): no length is computed per tag, the checker is
               linear in the size of the output *)
            match attrs_chk f aa r3 with
            | POk r4 => doc_chk f allow r4
            | PRej => PRej
            | POut => POut
            end
          | None => PRej
          end
      else if plain c then doc_chk f allow r
      else if Ascii.eqb c "&" then
        match ref_skip s with
        | Some r' => doc_chk f allow r'
        | None => PRej
        end
      else PRej
    end
  end.

Definition safe_doc_b (allow : allowlist) (s : bytes) : bool :=
  match doc_chk (S (length s)) allow s with
  | POk _ => true
  | _ => false
  end.

(* ------------------------------------------------------------------ *)
(* reading the output back, for the statement about text                *)

(* the inverse of esc6 on its image: decode the six references *)
Definition ref_table : list (bytes * ascii) :=
  [(B "&amp;", "&"); (B "&#39;", "'"); (B "&lt;", "<"); (B "&gt;", ">");
   (B "&#34;", """"); (B "&#13;", "013")].

Definition decode_ref (s : bytes) : option (ascii * nat) :=
  match find (fun e => prefixb (fst e) s) ref_table with
  | Some e => Some (snd e, pred (length (fst e)))
  | None => None
  end.

(* skip = number of characters still to drop (the tail of a decoded reference) *)
Fixpoint unesc_go (skip : nat) (s : bytes) : bytes :=
  match s with
  | [] => []
  | c :: r =>
    match skip with
    | S k => unesc_go k r
    | O =>
      match decode_ref s with
      | Some (d, k) => d :: unesc_go k r
      | None => c :: unesc_go 0 r
      end
    end
  end.

Definition unesc6 (s : bytes) : bytes := unesc_go 0 s.

(* the text between the tags: drop everything from a "<" to the next ">" *)
Fixpoint drop_tags (in_tag : bool) (s : bytes) : bytes :=
  match s with
  | [] => []
  | c :: r =>
    if in_tag then drop_tags (negb (Ascii.eqb c ">")) r
    else if Ascii.eqb c "<" then drop_tags true r
    else c :: drop_tags false r
  end.

(* the forest's character data in document order *)
Fixpoint text_of (n : hnode) : bytes :=
  match n with
  | HElem _ _ kids => flat_map text_of kids
  | HText s => s
  | HComment _ | HDoctype _ | HOther => []
  end.

(* the forest without comments, doctypes and other non-element, non-text nodes *)
Fixpoint prune (n : hnode) : list hnode :=
  match n with
  | HElem name attrs kids => [HElem name attrs (flat_map prune kids)]
  | HText s => [HText s]
  | HComment _ | HDoctype _ | HOther => []
  end.

Fixpoint has_no_decl (n : hnode) : bool :=
  match n with
  | HElem _ _ kids => forallb has_no_decl kids
  | HText _ => true
  | HComment _ | HDoctype _ | HOther => false
  end.
