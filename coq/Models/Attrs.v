(* C05 model: attribute rendering of a tag (pugjs/runtime.go __attr, __attrs, __and_attrs,
   __op__map_params, classNames; pugjs/types.go Map.Keys; the attribute lowering of
   CommonTag.render in pugjs/transform_tag.go and Mixin.renderCall in transform_mixin.go).

   The model follows the code AFTER the repairs F-C05-a,b,c,e,f,g,h (see /verif/fixes):

     __attr k v e:       Bool / bool -> {Name k, BoolVal}          (MustEscape stays false)
                         Nil / untyped nil -> {Name k, BoolVal false}
                         Object -> {k, classNames(v) if k == "class" else v.String(), e}
                         string -> {k, v, e};  anything else -> {k, convert(v).String(), e}
     __and_attrs m:      for k in m.Keys(): Bool -> {k, "true"/"false", true, BoolVal}; Nil -> {k, BoolVal false};
                         else {k, classNames / String(), true}
     Map.Keys():         the explicit order if there is one, else the keys sorted bytewise
     __attrs lists...:   a := map name -> []tmpattr, order := names by first occurrence;
                         "class" accumulates (an entry equal to an earlier one is dropped), any other name
                         is overwritten;  rendering: false -> skip (class: skip the entry),
                         mustEscape -> HTMLEscapeString, else val[0] is a double quote -> val[1:len-1] else nothing,
                         empty class entries skipped, entries joined by one space, empty class omitted.

   Definitions only; proofs are in Proofs/AttrsProofs.v. *)
From PV Require Import Base.Bytes Base.Escape.

Definition sp : bytes := B " ".
Definition is_nil {A} (l : list A) : bool := match l with [] => true | _ => false end.
Definition is_class (n : bytes) : bool := beqb n (B "class").

(* ------------------------------------------------------------------ Go values *)
(* pugjs.Object values that can reach an attribute *)
Inductive obj :=
| OStr (s : bytes) | ONum (z : Z) | OBool (b : bool) | ONil | OArr (l : list obj).

(* the interface{} the template executor hands to __attr: template literals are native Go values *)
Inductive gval :=
| GNil                      (* untyped nil: an undefined variable *)
| GStr (s : bytes) | GInt (z : Z) | GBool (b : bool)
| GObj (o : obj).

(* Object.String(): Number prints integers below 10^10 in decimal (big.Float %.10g) *)
Fixpoint obj_string (o : obj) : bytes :=
  match o with
  | OStr s => s
  | ONum z => show_Z z
  | OBool b => if b then B "true" else B "false"
  | ONil => []
  | OArr l => join sp (map obj_string l)
  end.

(* classNames (runtime.go) *)
Fixpoint class_names (o : obj) : bytes :=
  match o with
  | OArr l =>
    join sp (flat_map (fun item =>
                         match item with
                         | ONil => []
                         | OBool false => []
                         | _ => match class_names item with [] => [] | n => [n] end
                         end) l)
  | _ => obj_string o
  end.

(* convert() on the native values *)
Definition convert (v : gval) : obj :=
  match v with
  | GNil => ONil | GStr s => OStr s | GInt z => ONum z | GBool b => OBool b | GObj o => o
  end.

(* ------------------------------------------------------------------ __attr *)
Record attr_rec := { a_name : bytes; a_val : bytes; a_esc : bool; a_bool : option bool }.

Definition bool_rec (k : bytes) (b : bool) : attr_rec :=
  {| a_name := k; a_val := []; a_esc := false; a_bool := Some b |}.

Definition mk_attr (k : bytes) (v : gval) (e : bool) : attr_rec :=
  match v with
  | GObj (OBool b) => bool_rec k b
  | GBool b => bool_rec k b
  | GObj ONil => bool_rec k false
  | GNil => bool_rec k false
  | GObj o => {| a_name := k; a_val := if is_class k then class_names o else obj_string o;
                 a_esc := e; a_bool := None |}
  | GStr s => {| a_name := k; a_val := s; a_esc := e; a_bool := None |}
  | GInt z => {| a_name := k; a_val := obj_string (convert v); a_esc := e; a_bool := None |}
  end.

(* ------------------------------------------------------------------ Map, Keys, __and_attrs *)
(* m_items: the Go map in some iteration order; m_order: Map.order *)
Record gmap := { m_items : list (bytes * obj); m_order : list bytes }.

(* bytewise string order (Go's < on strings) *)
Fixpoint bleb (a b : bytes) : bool :=
  match a, b with
  | [], _ => true
  | _ :: _, [] => false
  | x :: a', y :: b' =>
    if N.ltb (N_of_ascii x) (N_of_ascii y) then true
    else if N.ltb (N_of_ascii y) (N_of_ascii x) then false
    else bleb a' b'
  end.

Fixpoint ins_sorted (x : bytes) (l : list bytes) : list bytes :=
  match l with
  | [] => [x]
  | y :: r => if bleb x y then x :: l else y :: ins_sorted x r
  end.
Definition sort_bytes (l : list bytes) : list bytes := fold_right ins_sorted [] l.

Definition map_keys (m : gmap) : list bytes :=
  match m_order m with
  | [] => sort_bytes (keys (m_items m))
  | o => o
  end.

(* Member(k) for a key that Keys() returned: the exact-match branch *)
Definition member (m : gmap) (k : bytes) : obj :=
  match lookup k (m_items m) with Some v => v | None => ONil end.

Definition and_attr_one (m : gmap) (k : bytes) : attr_rec :=
  match member m k with
  | OBool b => {| a_name := k; a_val := if b then B "true" else B "false"; a_esc := true; a_bool := Some b |}
  | ONil => {| a_name := k; a_val := []; a_esc := true; a_bool := Some false |}
  | v => {| a_name := k; a_val := if is_class k then class_names v else obj_string v;
            a_esc := true; a_bool := None |}
  end.

Definition and_attrs (m : gmap) : list attr_rec := map (and_attr_one m) (map_keys m).

(* __op__map (object literal): ordered *)
Definition op_map (l : list (bytes * obj)) : gmap :=
  {| m_items := fold_left (fun acc kv => insert (fst kv) (snd kv) acc) l []; m_order := map fst l |}.

(* a data map: no order *)
Definition data_map (l : list (bytes * obj)) : gmap := {| m_items := l; m_order := [] |}.

(* __op__map_params: repeated names are collected into a []interface{}; convert() makes it a Map without order *)
Inductive pgroup := POne (v : gval) | PMany (l : list gval).
Definition params_step (acc : list (bytes * pgroup)) (kv : bytes * gval) : list (bytes * pgroup) :=
  match lookup (fst kv) acc with
  | Some (POne old) => insert (fst kv) (PMany [old; snd kv]) acc
  | Some (PMany olds) => insert (fst kv) (PMany (olds ++ [snd kv])) acc
  | None => insert (fst kv) (POne (snd kv)) acc
  end.
Definition pgroup_obj (g : pgroup) : obj :=
  match g with POne v => convert v | PMany vs => OArr (map convert vs) end.
Definition map_params (l : list (bytes * gval)) : gmap :=
  {| m_items := map (fun kg => (fst kg, pgroup_obj (snd kg))) (fold_left params_step l []); m_order := [] |}.

(* ------------------------------------------------------------------ __attrs *)
Record tmpattr := { t_esc : bool; t_val : bytes; t_bool : option bool }.

Definition to_tmp (a : attr_rec) : tmpattr :=
  match a_bool a with
  | Some b => {| t_esc := a_esc a;
                 t_val := if a_esc a then a_name a else B """" ++ a_name a ++ B """";
                 t_bool := Some b |}
  | None => {| t_esc := a_esc a; t_val := a_val a; t_bool := None |}
  end.

(* Go struct equality [s == att]: the *bool fields are equal only when both are nil *)
Definition tmp_eqb (x y : tmpattr) : bool :=
  Bool.eqb (t_esc x) (t_esc y) && beqb (t_val x) (t_val y) &&
  match t_bool x, t_bool y with None, None => true | _, _ => false end.

Definition collect_step (acc : list (bytes * list tmpattr)) (a : attr_rec) : list (bytes * list tmpattr) :=
  let t := to_tmp a in
  let n := a_name a in
  match lookup n acc with
  | Some olds =>
    if is_class n then (if existsb (tmp_eqb t) olds then acc else insert n (olds ++ [t]) acc)
    else insert n [t] acc
  | None => insert n [t] acc
  end.
Definition collect (rs : list attr_rec) : list (bytes * list tmpattr) := fold_left collect_step rs [].

(* template.HTMLEscapeString: the five characters, and NUL -> U+FFFD *)
Definition go_esc_char (c : ascii) : bytes :=
  if Ascii.eqb c zero then [ascii_of_N 239; ascii_of_N 191; ascii_of_N 189] else esc_char c.
Definition go_escape (s : bytes) : bytes := flat_map go_esc_char s.

(* the text one entry contributes; None = run-time panic (val[0] of an empty string, val[1:0]) *)
Definition piece (t : tmpattr) : option bytes :=
  if t_esc t then Some (go_escape (t_val t))
  else match t_val t with
       | [] => None
       | c :: rest =>
         if Ascii.eqb c """" then (match rest with [] => None | _ => Some (removelast rest) end)
         else Some []
       end.

Inductive aout := APanic | ASkip | AText (t : bytes).

Fixpoint attr_value (cls : bool) (vals : list tmpattr) (tmp : bytes) : aout :=
  match vals with
  | [] => AText tmp
  | v :: r =>
    match t_bool v with
    | Some false => if cls then attr_value cls r tmp else ASkip
    | _ =>
      match piece v with
      | None => APanic
      | Some text =>
        if cls && is_nil text then attr_value cls r tmp
        else attr_value cls r ((match tmp with [] => [] | _ => tmp ++ sp end) ++ text)
      end
    end
  end.

Definition fmt_attr (n v : bytes) : bytes := sp ++ n ++ B "=""" ++ v ++ B """".

Fixpoint render_entries (l : list (bytes * list tmpattr)) : option bytes :=
  match l with
  | [] => Some []
  | (n, vals) :: r =>
    match attr_value (is_class n) vals [] with
    | APanic => None
    | ASkip => render_entries r
    | AText t =>
      if is_class n && is_nil t then render_entries r
      else option_map (fun rest => fmt_attr n t ++ rest) (render_entries r)
    end
  end.

(* __attrs: None = panic *)
Definition render_attrs (rs : list attr_rec) : option bytes := render_entries (collect rs).

(* ------------------------------------------------------------------ the attribute sources of a tag *)
Inductive scalar := SStr (s : bytes) | SNum (z : Z) | SBool (b : bool) | SNull | SUndef.
Inductive aval := AOne (s : scalar) | AArr (l : list scalar).

(* one source of attributes, in source order:
   SrcAttr n v esc lit   name=value (esc = pug's mustEscape; lit: the value is written as a literal, else it is data)
   SrcSpread ord es      &attributes(obj): ord = object literal (keeps source order), else a data map given in
                         an arbitrary (Go map iteration) order
   SrcMixin atts         &attributes(attributes) inside a mixin called with the attributes atts (name, value, lit) *)
Inductive asrc :=
| SrcAttr (n : bytes) (v : aval) (esc lit : bool)
| SrcSpread (ord : bool) (es : list (bytes * aval))
| SrcMixin (atts : list (bytes * aval * bool)).

Definition scalar_obj (s : scalar) : obj :=
  match s with
  | SStr s => OStr s | SNum z => ONum z | SBool b => OBool b | SNull => ONil | SUndef => ONil
  end.
Definition aval_obj (v : aval) : obj :=
  match v with AOne s => scalar_obj s | AArr l => OArr (map scalar_obj l) end.

(* what the executor evaluates the compiled expression to *)
Definition aval_gval (lit : bool) (v : aval) : gval :=
  match v with
  | AOne SUndef => GNil
  | AOne SNull => GObj ONil
  | AOne (SStr s) => if lit then GStr s else GObj (OStr s)
  | AOne (SNum z) => if lit then GInt z else GObj (ONum z)
  | AOne (SBool b) => if lit then GBool b else GObj (OBool b)
  | AArr l => GObj (OArr (map scalar_obj l))
  end.

(* characters that fmt's %q and the template lexer leave alone and that HTML does not treat specially *)
Definition plain (c : ascii) : bool :=
  let n := N_of_ascii c in
  N.leb 32 n && N.leb n 126 && negb (is_special c) && negb (Ascii.eqb c "\").

(* CommonTag.render: mustEscape=false passes the %q-quoted text of the compiled expression *)
Definition lower_attr (n : bytes) (v : aval) (esc lit : bool) : attr_rec :=
  if esc then mk_attr n (aval_gval lit v) true
  else match v, lit with
       | AOne (SStr s), true => mk_attr n (GStr (B """" ++ s ++ B """")) false
       | _, _ => mk_attr n (GStr (B "$")) false   (* "$x", "5", "(__op__array ..": never starts with a quote *)
       end.

Definition lower_src (s : asrc) : list attr_rec :=
  match s with
  | SrcAttr n v esc lit => [lower_attr n v esc lit]
  | SrcSpread true es => and_attrs (op_map (map (fun kv => (fst kv, aval_obj (snd kv))) es))
  | SrcSpread false es => and_attrs (data_map (map (fun kv => (fst kv, aval_obj (snd kv))) es))
  | SrcMixin atts => and_attrs (map_params (map (fun t => (fst (fst t), aval_gval (snd t) (snd (fst t)))) atts))
  end.

Definition lower (srcs : list asrc) : list attr_rec := flat_map lower_src srcs.

(* what the model can express: integers below 10^10 in absolute value, literal numbers non-negative,
   unescaped string literals of plain characters *)
Definition num_ok (z : Z) : bool := Z.ltb (Z.abs z) 10000000000.
Definition scalar_modelled (lit : bool) (s : scalar) : bool :=
  match s with SNum z => num_ok z && (negb lit || Z.leb 0 z) | _ => true end.
Definition aval_scalars (v : aval) : list scalar := match v with AOne s => [s] | AArr l => l end.
Definition aval_modelled (lit : bool) (v : aval) : bool := forallb (scalar_modelled lit) (aval_scalars v).
Definition src_modelled (s : asrc) : bool :=
  match s with
  | SrcAttr n v esc lit =>
    aval_modelled lit v &&
    (esc || match v, lit with AOne (SStr s), true => forallb plain s | _, _ => true end)
  | SrcSpread ord es =>
    (* an object literal with a null value does not compile to a well-formed __op__map call *)
    forallb (fun kv => aval_modelled ord (snd kv)
                       && negb (ord && match snd kv with AOne SNull => true | _ => false end)) es
  | SrcMixin atts => forallb (fun t => aval_modelled (snd t) (snd (fst t))) atts
  end.

(* the model of one tag: None = not modelled, Some None = the render panics, Some (Some s) = attribute text *)
Definition model_attrs (srcs : list asrc) : option (option bytes) :=
  if forallb src_modelled srcs then Some (render_attrs (lower srcs)) else None.

(* ------------------------------------------------------------------ S: the property *)
(* keep the first occurrence of every name *)
Definition nodup_first (l : list bytes) : list bytes :=
  fold_left (fun acc x => if mem x acc then acc else acc ++ [x]) l [].

Definition scalar_tokens (s : scalar) : list bytes :=
  match s with
  | SStr [] => []
  | SStr s => [s]
  | SNum z => [show_Z z]
  | _ => []              (* false, null, undefined: dropped *)
  end.
Definition class_tokens (v : aval) : list bytes := flat_map scalar_tokens (aval_scalars v).

Definition value_text (n : bytes) (v : aval) : option bytes :=
  match v with
  | AOne (SStr s) => Some s
  | AOne (SNum z) => Some (show_Z z)
  | AOne (SBool true) => Some n
  | _ => None            (* false, null, undefined: omitted *)
  end.

(* stable insertion sort of (name, value) pairs by name *)
Fixpoint ins_kv {A} (x : bytes * A) (l : list (bytes * A)) : list (bytes * A) :=
  match l with
  | [] => [x]
  | y :: r => if bleb (fst y) (fst x) then y :: ins_kv x r else x :: l
  end.
Definition sort_kv {A} (l : list (bytes * A)) : list (bytes * A) := fold_left (fun acc x => ins_kv x acc) l [].

(* the values of a repeated name of a mixin call form one list, in source order *)
Definition group_kv (l : list (bytes * aval)) : list (bytes * aval) :=
  fold_left (fun acc kv =>
               match lookup (fst kv) acc with
               | Some old => insert (fst kv) (AArr (aval_scalars old ++ aval_scalars (snd kv))) acc
               | None => insert (fst kv) (snd kv) acc
               end) l [].

(* the (name, value) contributions of the sources, in the order the property fixes *)
Definition contribs (s : asrc) : list (bytes * aval) :=
  match s with
  | SrcAttr n v _ _ => [(n, v)]
  | SrcSpread true es => es
  | SrcSpread false es => sort_kv es
  | SrcMixin atts => sort_kv (group_kv (map fst atts))
  end.

Definition named {A} (n : bytes) (l : list (bytes * A)) : list A :=
  map snd (filter (fun kv => beqb n (fst kv)) l).

Definition spec_value (n : bytes) (cs : list (bytes * aval)) : option bytes :=
  if is_class n then
    match flat_map class_tokens (named n cs) with
    | [] => None
    | toks => Some (join sp toks)
    end
  else match rev (named n cs) with
       | v :: _ => value_text n v      (* the last value given for the name *)
       | [] => None
       end.

Definition spec_of_contribs (cs : list (bytes * aval)) : list (bytes * bytes) :=
  flat_map (fun n => match spec_value n cs with Some v => [(n, v)] | None => [] end)
           (nodup_first (map fst cs)).

Definition attr_spec (srcs : list asrc) : list (bytes * bytes) := spec_of_contribs (flat_map contribs srcs).

(* ------------------------------------------------------------------ the reader *)
(* v is in EscText: no quote, apostrophe or angle bracket, every & starts one of the five references *)
Fixpoint esc_text (s : bytes) : bool :=
  match s with
  | [] => true
  | c :: r =>
    if Ascii.eqb c "&" then
      (prefixb (B "#34;") r || prefixb (B "#39;") r || prefixb (B "amp;") r
       || prefixb (B "lt;") r || prefixb (B "gt;") r) && esc_text r
    else negb (is_special c) && esc_text r
  end.

Definition name_char (c : ascii) : bool :=
  let n := N_of_ascii c in
  (N.leb 48 n && N.leb n 57) || (N.leb 65 n && N.leb n 90) || (N.leb 97 n && N.leb n 122)
  || Ascii.eqb c "-" || Ascii.eqb c "_" || Ascii.eqb c ":" || Ascii.eqb c "." || Ascii.eqb c "@".
Definition name_ok (n : bytes) : bool := negb (is_nil n) && forallb name_char n.

(* reads  ( name="value")*  and nothing else; values are decoded with unescape5 *)
Inductive pstate :=
| PStart                               (* expect the separating space *)
| PName (acc : bytes)                  (* reading a name (reversed) *)
| PQuote (name : bytes)                (* after '=': expect the opening quote *)
| PVal (name : bytes) (acc : bytes).   (* reading the value (reversed) *)

Fixpoint parse_go (st : pstate) (s : bytes) (out : list (bytes * bytes)) : option (list (bytes * bytes)) :=
  match s with
  | [] => match st with PStart => Some (rev out) | _ => None end
  | c :: r =>
    match st with
    | PStart => if Ascii.eqb c " " then parse_go (PName []) r out else None
    | PName acc =>
      if Ascii.eqb c "=" then (if name_ok (rev acc) then parse_go (PQuote (rev acc)) r out else None)
      else parse_go (PName (c :: acc)) r out
    | PQuote name => if Ascii.eqb c """" then parse_go (PVal name []) r out else None
    | PVal name acc =>
      if Ascii.eqb c """" then
        (if esc_text (rev acc) then parse_go PStart r ((name, unescape5 (rev acc)) :: out) else None)
      else parse_go (PVal name (c :: acc)) r out
    end
  end.

Definition parse_attrs (s : bytes) : option (list (bytes * bytes)) := parse_go PStart s [].

(* ------------------------------------------------------------------ the domain of C05_spec *)
Definition no_nul (s : bytes) : bool := forallb (fun c => negb (Ascii.eqb c zero)) s.

Definition scalar_ok (s : scalar) : bool :=
  match s with SStr s => no_nul s | SNum z => num_ok z | _ => true end.
Definition class_scalar_ok (s : scalar) : bool :=
  scalar_ok s && match s with SBool true => false | _ => true end.
Definition value_ok (n : bytes) (v : aval) : bool :=
  if is_class n then forallb class_scalar_ok (aval_scalars v)
  else match v with AOne s => scalar_ok s | AArr _ => false end.

Fixpoint nodupb (l : list bytes) : bool :=
  match l with [] => true | x :: r => negb (mem x r) && nodupb r end.

Definition src_ok (s : asrc) : bool :=
  match s with
  | SrcAttr n v esc lit =>
    name_ok n && value_ok n v && aval_modelled lit v &&
    (esc || (lit && match v with AOne (SStr s) => forallb plain s | _ => false end))
  | SrcSpread ord es =>
    forallb (fun kv => name_ok (fst kv) && value_ok (fst kv) (snd kv) && aval_modelled ord (snd kv)
                       && negb (ord && match snd kv with AOne SNull => true | _ => false end)) es
    && nodupb (map fst es)
  | SrcMixin atts =>
    forallb (fun t => name_ok (fst (fst t)) && value_ok (fst (fst t)) (snd (fst t))
                      && aval_modelled (snd t) (snd (fst t))) atts
    && nodupb (filter (fun n => negb (is_class n)) (map (fun t => fst (fst t)) atts))
  end.

(* no class entry repeats an earlier one verbatim (the code drops such an entry) *)
Fixpoint tmp_nodupb (l : list tmpattr) : bool :=
  match l with [] => true | x :: r => negb (existsb (tmp_eqb x) r) && tmp_nodupb r end.
Definition class_recs (rs : list attr_rec) : list tmpattr :=
  map to_tmp (filter (fun a => is_class (a_name a)) rs).

Definition dom_C05 (srcs : list asrc) : bool :=
  forallb src_ok srcs && tmp_nodupb (class_recs (lower srcs)).
