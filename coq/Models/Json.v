(* C12 model: data handed to the browser as JSON.

   Go code followed (as it is now):
     templatefunctions/js_json.go   JSON.Stringify = json.Marshal(x); JSON.Parse = Convert(json.Unmarshal(x))
     pugjs/runtime.go runtimeJSON   json(x) = json.Marshal(x)
     pugjs/types.go                 convert (JSON-shaped Go data -> Nil/Bool/Number/String/*Array/*Map),
                                    Map.MarshalJSON (keys sorted, written through lowerFirst into a Go map,
                                    that map handed to encoding/json), Array.MarshalJSON, Nil.MarshalJSON,
                                    Number (float64) / String / Bool encoded by kind
     pugjs/tpl_exec.go lowerFirst
   and, for the text, encoding/json of the Go toolchain the harness is built with (go1.23):
     map keys sorted bytewise; strings with escapeHTML = true: quote and backslash behind a backslash, \b \f \n \r \t, other bytes < 0x20 and
     < > & as \u00XX, U+2028/U+2029 as  / , each byte that is not part of a valid UTF-8 sequence
     as �, everything else copied; integer-valued float64 below 1e21 in plain decimal.

   This file holds definitions only: the model M (convert, marshal, encode_go, stringify, parse), the
   specification S (json_of, wf_jv, dom_C12), a JSON reader [decode] for the output grammar and an
   independent recogniser [valid_json] of RFC 8259 JSON texts.  Proofs are in Proofs/JsonProofs.v. *)
From PV Require Import Base.Bytes.
From Coq Require Import Decimal.

Definition code (c : ascii) : N := N_of_ascii c.
Definition chr (n : N) : ascii := ascii_of_N n.

(* ------------------------------------------------------------------ byte strings, ordered as Go orders strings *)

Fixpoint bytes_cmp (a b : bytes) : comparison :=
  match a, b with
  | [], [] => Eq
  | [], _ :: _ => Lt
  | _ :: _, [] => Gt
  | x :: a', y :: b' =>
    match N.compare (code x) (code y) with
    | Eq => bytes_cmp a' b'
    | Lt => Lt
    | Gt => Gt
    end
  end.

Definition bytes_leb (a b : bytes) : bool := match bytes_cmp a b with Gt => false | _ => true end.
Definition bytes_ltb (a b : bytes) : bool := match bytes_cmp a b with Lt => true | _ => false end.

(* a Go map[string]T has no order; wherever Go sorts the keys (Map.MarshalJSON, encoding/json) this
   stable insertion sort is the model *)
Fixpoint ins_kv {A} (k : bytes) (v : A) (l : list (bytes * A)) : list (bytes * A) :=
  match l with
  | [] => [(k, v)]
  | (k', v') :: r => if bytes_leb k k' then (k, v) :: l else (k', v') :: ins_kv k v r
  end.

Fixpoint sort_kv {A} (l : list (bytes * A)) : list (bytes * A) :=
  match l with
  | [] => []
  | (k, v) :: r => ins_kv k v (sort_kv r)
  end.

Fixpoint sorted_strict (l : list bytes) : bool :=
  match l with
  | [] => true
  | a :: r => match r with
              | [] => true
              | b :: _ => bytes_ltb a b && sorted_strict r
              end
  end.

Fixpoint nodupb (l : list bytes) : bool :=
  match l with
  | [] => true
  | a :: r => negb (mem a r) && nodupb r
  end.

(* ------------------------------------------------------------------ UTF-8, as unicode/utf8.DecodeRuneInString reads it *)

Definition contb (c : ascii) : bool := (128 <=? code c)%N && (code c <? 192)%N.

(* length of the well-formed sequence starting with c (followed by r); 0 = (RuneError, 1) *)
Definition rune_len (c : ascii) (r : bytes) : nat :=
  let n := code c in
  if (n <? 128)%N then 1
  else if (n <? 194)%N then 0
  else if (n <? 224)%N then
    match r with
    | b1 :: _ => if contb b1 then 2 else 0
    | _ => 0
    end
  else if (n <? 240)%N then
    match r with
    | b1 :: b2 :: _ =>
      let lo := if (n =? 224)%N then 160%N else 128%N in
      let hi := if (n =? 237)%N then 159%N else 191%N in
      if (lo <=? code b1)%N && (code b1 <=? hi)%N && contb b2 then 3 else 0
    | _ => 0
    end
  else if (n <? 245)%N then
    match r with
    | b1 :: b2 :: b3 :: _ =>
      let lo := if (n =? 240)%N then 144%N else 128%N in
      let hi := if (n =? 244)%N then 143%N else 191%N in
      if (lo <=? code b1)%N && (code b1 <=? hi)%N && contb b2 && contb b3 then 4 else 0
    | _ => 0
    end
  else 0.

(* k = bytes of the current sequence still to be skipped *)
Fixpoint utf8_valid_k (k : nat) (s : bytes) : bool :=
  match s with
  | [] => match k with O => true | S _ => false end
  | c :: r =>
    match k with
    | S k' => contb c && utf8_valid_k k' r
    | O => match rune_len c r with
           | O => false
           | S m => utf8_valid_k m r
           end
    end
  end.

Definition utf8_valid (s : bytes) : bool := utf8_valid_k 0 s.

(* ------------------------------------------------------------------ the three value spaces *)

(* JSON-shaped Go data: nil, bool, int / integer-valued float64, string, []interface{}, map[string]interface{}
   (a Go map: association list, keys pairwise distinct, order meaningless).
   GOther = any other Go value (a float64 with a fraction, or beyond 2^54): not modelled. *)
Inductive gv :=
| GNil | GBool (b : bool) | GInt (z : Z) | GStr (s : bytes)
| GArr (l : list gv) | GMap (m : list (bytes * gv)) | GOther.

(* template objects: pugjs.Nil, Bool, Number (float64 holding an integer), String, *Array, *Map *)
Inductive obj :=
| ONil | OBool (b : bool) | ONum (z : Z) | OStr (s : bytes)
| OArr (l : list obj) | OMap (m : list (bytes * obj)).

(* JSON values; an object lists its members in text order *)
Inductive jv :=
| JNull | JBool (b : bool) | JInt (z : Z) | JStr (s : bytes)
| JArr (l : list jv) | JObj (m : list (bytes * jv)).

(* ------------------------------------------------------------------ convert (pugjs/types.go) *)

Definition two53 : Z := 9007199254740992.
Definition two54 : Z := 18014398509481984.

(* Number(float64(val.Int())): exact up to 2^53; between 2^53 and 2^54 the representable values are the
   even integers, ties go to the even mantissa (multiples of 4); beyond 2^54 not modelled *)
Definition f64_of_int (z : Z) : Z :=
  let a := Z.abs z in
  if (a <=? two53)%Z then z
  else if Z.even a then z
  else let q := (a / 2)%Z in
       let a' := if Z.even q then (a - 1)%Z else (a + 1)%Z in
       if (z <? 0)%Z then (- a')%Z else a'.

Fixpoint convert (d : gv) : obj :=
  match d with
  | GNil => ONil
  | GBool b => OBool b
  | GInt z => ONum (f64_of_int z)
  | GStr s => OStr s
  | GArr l => OArr (map convert l)
  | GMap m => OMap (map (fun kv => match kv with (k, v) => (k, convert v) end) m)
  | GOther => ONil
  end.

(* lowerFirst: utf8.DecodeRuneInString + unicode.ToLower on the first rune.  Modelled for keys whose first
   byte is ASCII (and the empty key); other keys are outside the model ([key_modelled]). *)
Definition lower_first (k : bytes) : bytes :=
  match k with
  | [] => []
  | c :: r => if (65 <=? code c)%N && (code c <=? 90)%N then chr (code c + 32) :: r else k
  end.

Definition key_modelled (k : bytes) : bool :=
  match k with
  | [] => true
  | c :: _ => (code c <? 128)%N
  end.

(* where the model speaks for the code *)
Fixpoint modelled (d : gv) : bool :=
  match d with
  | GNil | GBool _ | GStr _ => true
  | GInt z => (Z.abs z <=? two54)%Z
  | GArr l => forallb modelled l
  | GMap m => forallb (fun kv => match kv with (k, v) => key_modelled k && modelled v end) m
  | GOther => false
  end.

(* ------------------------------------------------------------------ MarshalJSON on template objects *)

(* Map.MarshalJSON: keys sorted; for k in keys: tmp[lowerFirst(k)] = items[k] *)
Definition tmp_map {A} (l : list (bytes * A)) : list (bytes * A) :=
  fold_left (fun acc kv => insert (lower_first (fst kv)) (snd kv) acc) l [].

(* the value tree encoding/json walks: tmp is a Go map, represented by its key-sorted association list
   (the order in which encoding/json writes it) *)
Fixpoint marshal (o : obj) : jv :=
  match o with
  | ONil => JNull
  | OBool b => JBool b
  | ONum z => JInt z
  | OStr s => JStr s
  | OArr l => JArr (map marshal l)
  | OMap m => JObj (sort_kv (tmp_map (sort_kv (map (fun kv => match kv with (k, v) => (k, marshal v) end) m))))
  end.

(* ------------------------------------------------------------------ encoding/json: the text *)

Definition hexd (n : N) : ascii := chr (if (n <? 10)%N then 48 + n else 87 + n).

(* one ASCII byte inside a string (escapeHTML = true) *)
Definition esc_ascii (c : ascii) : bytes :=
  let n := code c in
  if (n =? 34)%N || (n =? 92)%N then ["\"%char; c]
  else if (n =? 8)%N then ["\"; "b"]%char
  else if (n =? 12)%N then ["\"; "f"]%char
  else if (n =? 10)%N then ["\"; "n"]%char
  else if (n =? 13)%N then ["\"; "r"]%char
  else if (n =? 9)%N then ["\"; "t"]%char
  else if (n <? 32)%N || (n =? 60)%N || (n =? 62)%N || (n =? 38)%N
       then ["\"; "u"; "0"; "0"]%char ++ [hexd (n / 16); hexd (n mod 16)]
  else [c].

Definition is_ls (c b1 b2 : ascii) : bool := (code c =? 226)%N && (code b1 =? 128)%N && (code b2 =? 168)%N.
Definition is_ps (c b1 b2 : ascii) : bool := (code c =? 226)%N && (code b1 =? 128)%N && (code b2 =? 169)%N.

(* appendString's loop; k = bytes of the current (valid, copied) sequence still to copy *)
Fixpoint enc_str_body (k : nat) (s : bytes) : bytes :=
  match s with
  | [] => []
  | c :: r =>
    match k with
    | S k' => c :: enc_str_body k' r
    | O =>
      if (code c <? 128)%N then esc_ascii c ++ enc_str_body 0 r
      else match rune_len c r with
           | O => ["\"; "u"; "f"; "f"; "f"; "d"]%char ++ enc_str_body 0 r
           | S m =>
             match r with
             | b1 :: b2 :: r2 =>
               if is_ls c b1 b2 then ["\"; "u"; "2"; "0"; "2"; "8"]%char ++ enc_str_body 0 r2
               else if is_ps c b1 b2 then ["\"; "u"; "2"; "0"; "2"; "9"]%char ++ enc_str_body 0 r2
               else c :: enc_str_body m r
             | _ => c :: enc_str_body m r
             end
           end
    end
  end.

Definition dq : ascii := """"%char.

Definition enc_str (s : bytes) : bytes := dq :: enc_str_body 0 s ++ [dq].

Fixpoint enc_uint (u : uint) : bytes :=
  match u with
  | Nil => []
  | D0 u' => "0"%char :: enc_uint u'
  | D1 u' => "1"%char :: enc_uint u'
  | D2 u' => "2"%char :: enc_uint u'
  | D3 u' => "3"%char :: enc_uint u'
  | D4 u' => "4"%char :: enc_uint u'
  | D5 u' => "5"%char :: enc_uint u'
  | D6 u' => "6"%char :: enc_uint u'
  | D7 u' => "7"%char :: enc_uint u'
  | D8 u' => "8"%char :: enc_uint u'
  | D9 u' => "9"%char :: enc_uint u'
  end.

(* strconv.AppendFloat(f, 'f', -1, 64) of an integer-valued float64 below 2^54: its plain decimal digits *)
Definition enc_int (z : Z) : bytes :=
  match Z.to_int z with
  | Pos u => enc_uint u
  | Neg u => "-"%char :: enc_uint u
  end.

Fixpoint arr_tail (l : list bytes) : bytes :=
  match l with
  | [] => ["]"%char]
  | t :: r => ","%char :: t ++ arr_tail r
  end.

Definition arr_body (l : list bytes) : bytes :=
  match l with
  | [] => ["]"%char]
  | t :: r => t ++ arr_tail r
  end.

Fixpoint obj_tail (l : list (bytes * bytes)) : bytes :=
  match l with
  | [] => ["}"%char]
  | (k, t) :: r => ","%char :: enc_str k ++ ":"%char :: t ++ obj_tail r
  end.

Definition obj_body (l : list (bytes * bytes)) : bytes :=
  match l with
  | [] => ["}"%char]
  | (k, t) :: r => enc_str k ++ ":"%char :: t ++ obj_tail r
  end.

(* json.Marshal of the tree: no white space, members in sorted key order *)
Fixpoint encode_go (j : jv) : bytes :=
  match j with
  | JNull => ["n"; "u"; "l"; "l"]%char
  | JBool true => ["t"; "r"; "u"; "e"]%char
  | JBool false => ["f"; "a"; "l"; "s"; "e"]%char
  | JInt z => enc_int z
  | JStr s => enc_str s
  | JArr l => "["%char :: arr_body (map encode_go l)
  | JObj m => "{"%char :: obj_body (sort_kv (map (fun kv => match kv with (k, v) => (k, encode_go v) end) m))
  end.

Definition stringify (o : obj) : bytes := encode_go (marshal o).      (* JSON.stringify(x) and json(x) *)
Definition stringify_data (d : gv) : bytes := stringify (convert d).  (* ... of page data d *)

(* ------------------------------------------------------------------ S: what the data is, as JSON *)

Fixpoint json_of (d : gv) : jv :=
  match d with
  | GNil => JNull
  | GBool b => JBool b
  | GInt z => JInt z
  | GStr s => JStr s
  | GArr l => JArr (map json_of l)
  | GMap m => JObj (sort_kv (map (fun kv => match kv with (k, v) => (k, json_of v) end) m))
  | GOther => JNull
  end.

Definition key_lower_initial (k : bytes) : bool :=
  match k with
  | [] => true
  | c :: _ => (code c <? 128)%N && negb ((65 <=? code c)%N && (code c <=? 90)%N)
  end.

(* the property's domain: lower-case-initial pairwise distinct keys, |n| <= 2^53, Unicode (valid UTF-8) text *)
Fixpoint dom_C12 (d : gv) : bool :=
  match d with
  | GNil | GBool _ => true
  | GInt z => (Z.abs z <=? two53)%Z
  | GStr s => utf8_valid s
  | GArr l => forallb dom_C12 l
  | GMap m => nodupb (map fst m)
              && forallb (fun kv => match kv with (k, v) => key_lower_initial k && utf8_valid k && dom_C12 v end) m
  | GOther => false
  end.

(* canonical JSON trees: text is Unicode, members strictly sorted by key *)
Fixpoint wf_jv (j : jv) : bool :=
  match j with
  | JNull | JBool _ | JInt _ => true
  | JStr s => utf8_valid s
  | JArr l => forallb wf_jv l
  | JObj m => sorted_strict (map fst m)
              && forallb (fun kv => match kv with (k, v) => utf8_valid k && wf_jv v end) m
  end.

(* template objects whose text is Unicode and whose keys lowerFirst is modelled for *)
Fixpoint obj_ok (o : obj) : bool :=
  match o with
  | ONil | OBool _ | ONum _ => true
  | OStr s => utf8_valid s
  | OArr l => forallb obj_ok l
  | OMap m => forallb (fun kv => match kv with (k, v) => key_modelled k && utf8_valid k && obj_ok v end) m
  end.

(* ------------------------------------------------------------------ a JSON reader for the output grammar *)

Definition hexval (c : ascii) : option N :=
  let n := code c in
  if (48 <=? n)%N && (n <=? 57)%N then Some (n - 48)%N
  else if (97 <=? n)%N && (n <=? 102)%N then Some (n - 87)%N
  else if (65 <=? n)%N && (n <=? 70)%N then Some (n - 55)%N
  else None.

Definition hex4 (a b c d : ascii) : option N :=
  match hexval a, hexval b, hexval c, hexval d with
  | Some x, Some y, Some z, Some w => Some (((x * 16 + y) * 16 + z) * 16 + w)%N
  | _, _, _, _ => None
  end.

(* UTF-8 of a BMP code point; surrogate halves are declined (the encoder never writes them) *)
Definition utf8_enc (cp : N) : option bytes :=
  if (cp <? 128)%N then Some [chr cp]
  else if (cp <? 2048)%N then Some [chr (192 + cp / 64); chr (128 + cp mod 64)]
  else if (55296 <=? cp)%N && (cp <? 57344)%N then None
  else Some [chr (224 + cp / 4096); chr (128 + (cp / 64) mod 64); chr (128 + cp mod 64)].

Definition simple_esc (e : ascii) : option ascii :=
  let m := code e in
  if (m =? 34)%N || (m =? 92)%N || (m =? 47)%N then Some e
  else if (m =? 98)%N then Some (chr 8)
  else if (m =? 102)%N then Some (chr 12)
  else if (m =? 110)%N then Some (chr 10)
  else if (m =? 114)%N then Some (chr 13)
  else if (m =? 116)%N then Some (chr 9)
  else None.

Definition push (p : bytes) (x : option (bytes * bytes)) : option (bytes * bytes) :=
  match x with
  | Some (t, r) => Some (p ++ t, r)
  | None => None
  end.

(* string contents after the opening quote, up to and including the closing quote *)
Fixpoint dstr (s : bytes) : option (bytes * bytes) :=
  match s with
  | [] => None
  | c :: r =>
    let n := code c in
    if (n =? 34)%N then Some ([], r)
    else if (n =? 92)%N then
      match r with
      | [] => None
      | e :: r1 =>
        if (code e =? 117)%N then
          match r1 with
          | h1 :: h2 :: h3 :: h4 :: r2 =>
            match hex4 h1 h2 h3 h4 with
            | Some cp => match utf8_enc cp with
                         | Some u => push u (dstr r2)
                         | None => None
                         end
            | None => None
            end
          | _ => None
          end
        else match simple_esc e with
             | Some ch => push [ch] (dstr r1)
             | None => None
             end
      end
    else if (n <? 32)%N then None
    else push [c] (dstr r)
  end.

Definition digit_of (c : ascii) : option (uint -> uint) :=
  let n := code c in
  if (n =? 48)%N then Some D0 else if (n =? 49)%N then Some D1 else if (n =? 50)%N then Some D2
  else if (n =? 51)%N then Some D3 else if (n =? 52)%N then Some D4 else if (n =? 53)%N then Some D5
  else if (n =? 54)%N then Some D6 else if (n =? 55)%N then Some D7 else if (n =? 56)%N then Some D8
  else if (n =? 57)%N then Some D9 else None.

Fixpoint read_uint (s : bytes) : uint * bytes :=
  match s with
  | [] => (Nil, [])
  | c :: r =>
    match digit_of c with
    | Some d => let (u, rest) := read_uint r in (d u, rest)
    | None => (Nil, s)
    end
  end.

(* an integer literal: -? (0 | [1-9][0-9]* ); minus zero and fractions/exponents are not integers: declined *)
Definition dnum (s : bytes) : option (jv * bytes) :=
  match s with
  | [] => None
  | c :: r =>
    let neg := (code c =? 45)%N in
    let (u, rest) := read_uint (if neg then r else s) in
    if uint_beq (unorm u) u then
      if neg then (if uint_beq u zero then None else Some (JInt (Z.of_int (Neg u)), rest))
      else Some (JInt (Z.of_int (Pos u)), rest)
    else None
  end.

Definition lit (w : bytes) (v : jv) (s : bytes) : option (jv * bytes) :=
  if prefixb w s then Some (v, skipn (length w) s) else None.

(* insignificant white space (RFC 8259): space, tab, line feed, carriage return *)
Definition is_ws (c : ascii) : bool :=
  let n := code c in (n =? 32)%N || (n =? 9)%N || (n =? 10)%N || (n =? 13)%N.

Fixpoint skip_ws (s : bytes) : bytes :=
  match s with
  | c :: r => if is_ws c then skip_ws r else s
  | [] => []
  end.

(* fuel: one unit per value / element / member; white space is skipped wherever the grammar allows it
   (the encoder writes none, but a text with white space is still read) *)
Fixpoint pval (f : nat) (s0 : bytes) : option (jv * bytes) :=
  match f with
  | O => None
  | S f' =>
    let s := skip_ws s0 in
    match s with
    | [] => None
    | c :: r =>
      let n := code c in
      if (n =? 34)%N then
        match dstr r with
        | Some (t, r1) => Some (JStr t, r1)
        | None => None
        end
      else if (n =? 91)%N then
        match skip_ws r with
        | [] => None
        | c1 :: r1 =>
          if (code c1 =? 93)%N then Some (JArr [], r1)
          else match pval f' r with
               | Some (v, r2) =>
                 match parr f' r2 with
                 | Some (l, r3) => Some (JArr (v :: l), r3)
                 | None => None
                 end
               | None => None
               end
        end
      else if (n =? 123)%N then
        match skip_ws r with
        | [] => None
        | c1 :: r1 =>
          if (code c1 =? 125)%N then Some (JObj [], r1)
          else match pmem f' r with
               | Some (kv, r2) =>
                 match pobj f' r2 with
                 | Some (l, r3) => Some (JObj (kv :: l), r3)
                 | None => None
                 end
               | None => None
               end
        end
      else if (n =? 110)%N then lit ["n"; "u"; "l"; "l"]%char JNull s
      else if (n =? 116)%N then lit ["t"; "r"; "u"; "e"]%char (JBool true) s
      else if (n =? 102)%N then lit ["f"; "a"; "l"; "s"; "e"]%char (JBool false) s
      else dnum s
    end
  end
with parr (f : nat) (s0 : bytes) : option (list jv * bytes) :=
  match f with
  | O => None
  | S f' =>
    match skip_ws s0 with
    | [] => None
    | c :: r =>
      if (code c =? 93)%N then Some ([], r)
      else if (code c =? 44)%N then
        match pval f' r with
        | Some (v, r1) =>
          match parr f' r1 with
          | Some (l, r2) => Some (v :: l, r2)
          | None => None
          end
        | None => None
        end
      else None
    end
  end
with pmem (f : nat) (s0 : bytes) : option ((bytes * jv) * bytes) :=
  match f with
  | O => None
  | S f' =>
    match skip_ws s0 with
    | [] => None
    | c :: r =>
      if (code c =? 34)%N then
        match dstr r with
        | Some (k, r0) =>
          match skip_ws r0 with
          | c2 :: r1 =>
            if (code c2 =? 58)%N then
              match pval f' r1 with
              | Some (v, r2) => Some ((k, v), r2)
              | None => None
              end
            else None
          | [] => None
          end
        | None => None
        end
      else None
    end
  end
with pobj (f : nat) (s0 : bytes) : option (list (bytes * jv) * bytes) :=
  match f with
  | O => None
  | S f' =>
    match skip_ws s0 with
    | [] => None
    | c :: r =>
      if (code c =? 125)%N then Some ([], r)
      else if (code c =? 44)%N then
        match pmem f' r with
        | Some (kv, r1) =>
          match pobj f' r1 with
          | Some (l, r2) => Some (kv :: l, r2)
          | None => None
          end
        | None => None
        end
      else None
    end
  end.

(* every call consumes at least one byte, so the length of the text is enough fuel (Proofs: decode_encode) *)
Definition decode (s : bytes) : option jv :=
  match pval (S (length s)) s with
  | Some (j, r) => match skip_ws r with [] => Some j | _ :: _ => None end
  | None => None
  end.

(* json.Unmarshal into interface{} followed by pugjs.Convert *)
Fixpoint obj_of_jv (j : jv) : obj :=
  match j with
  | JNull => ONil
  | JBool b => OBool b
  | JInt z => ONum z
  | JStr s => OStr s
  | JArr l => OArr (map obj_of_jv l)
  | JObj m => OMap (map (fun kv => match kv with (k, v) => (k, obj_of_jv v) end) m)
  end.

Definition parse (t : bytes) : option obj := option_map obj_of_jv (decode t).   (* JSON.parse *)

(* ------------------------------------------------------------------ an independent recogniser of JSON texts
   RFC 8259: value grammar with insignificant white space, numbers in full (int frac exp), every escape
   including any \uXXXX; bytes >= 0x80 inside strings are let through (UTF-8 well-formedness is [utf8_valid]'s
   business).  It shares nothing with [decode] but [skip_ws]; no values are built. *)

Definition is_digit (c : ascii) : bool := (48 <=? code c)%N && (code c <=? 57)%N.
Definition is_hex (c : ascii) : bool :=
  is_digit c || ((97 <=? code c)%N && (code c <=? 102)%N) || ((65 <=? code c)%N && (code c <=? 70)%N).

Fixpoint rstr (s : bytes) : option bytes :=
  match s with
  | [] => None
  | c :: r =>
    if Ascii.eqb c dq then Some r
    else if Ascii.eqb c "\"%char then
      match r with
      | [] => None
      | e :: r1 =>
        if Ascii.eqb e "u"%char then
          match r1 with
          | h1 :: h2 :: h3 :: h4 :: r2 => if is_hex h1 && is_hex h2 && is_hex h3 && is_hex h4 then rstr r2 else None
          | _ => None
          end
        else if existsb (Ascii.eqb e) [dq; "\"; "/"; "b"; "f"; "n"; "r"; "t"]%char then rstr r1
        else None
      end
    else if (code c <? 32)%N then None
    else rstr r
  end.

Fixpoint skip_digits (s : bytes) : bytes :=
  match s with
  | c :: r => if is_digit c then skip_digits r else s
  | [] => []
  end.

Definition digits1 (s : bytes) : option bytes :=      (* one or more digits *)
  match s with
  | c :: r => if is_digit c then Some (skip_digits r) else None
  | [] => None
  end.

Definition rfrac (s : bytes) : option bytes :=
  match s with
  | c :: r => if Ascii.eqb c "."%char then digits1 r else Some s
  | [] => Some s
  end.

Definition rexp (s : bytes) : option bytes :=
  match s with
  | c :: r =>
    if Ascii.eqb c "e"%char || Ascii.eqb c "E"%char then
      match r with
      | g :: r1 => if Ascii.eqb g "+"%char || Ascii.eqb g "-"%char then digits1 r1 else digits1 r
      | [] => None
      end
    else Some s
  | [] => Some s
  end.

Definition rnum (s : bytes) : option bytes :=
  let s1 := match s with
            | c :: r => if Ascii.eqb c "-"%char then r else s
            | [] => s
            end in
  match s1 with
  | c :: r =>
    if Ascii.eqb c "0"%char then match rfrac r with Some r1 => rexp r1 | None => None end
    else if is_digit c then match rfrac (skip_digits r) with Some r1 => rexp r1 | None => None end
    else None
  | [] => None
  end.

Definition rlit (w s : bytes) : option bytes := if prefixb w s then Some (skipn (length w) s) else None.

Fixpoint rval (f : nat) (s0 : bytes) : option bytes :=
  match f with
  | O => None
  | S f' =>
    let s := skip_ws s0 in
    match s with
    | [] => None
    | c :: r =>
      if Ascii.eqb c dq then rstr r
      else if Ascii.eqb c "["%char then
        match skip_ws r with
        | c1 :: r1 => if Ascii.eqb c1 "]"%char then Some r1
                      else match rval f' r with Some r2 => rarr f' r2 | None => None end
        | [] => None
        end
      else if Ascii.eqb c "{"%char then
        match skip_ws r with
        | c1 :: r1 => if Ascii.eqb c1 "}"%char then Some r1
                      else match rmem f' r with Some r2 => robj f' r2 | None => None end
        | [] => None
        end
      else if Ascii.eqb c "n"%char then rlit ["n"; "u"; "l"; "l"]%char s
      else if Ascii.eqb c "t"%char then rlit ["t"; "r"; "u"; "e"]%char s
      else if Ascii.eqb c "f"%char then rlit ["f"; "a"; "l"; "s"; "e"]%char s
      else rnum s
    end
  end
with rarr (f : nat) (s0 : bytes) : option bytes :=
  match f with
  | O => None
  | S f' =>
    match skip_ws s0 with
    | c :: r =>
      if Ascii.eqb c "]"%char then Some r
      else if Ascii.eqb c ","%char then match rval f' r with Some r1 => rarr f' r1 | None => None end
      else None
    | [] => None
    end
  end
with rmem (f : nat) (s0 : bytes) : option bytes :=
  match f with
  | O => None
  | S f' =>
    match skip_ws s0 with
    | c :: r =>
      if Ascii.eqb c dq then
        match rstr r with
        | Some r0 => match skip_ws r0 with
                     | c2 :: r1 => if Ascii.eqb c2 ":"%char then rval f' r1 else None
                     | [] => None
                     end
        | None => None
        end
      else None
    | [] => None
    end
  end
with robj (f : nat) (s0 : bytes) : option bytes :=
  match f with
  | O => None
  | S f' =>
    match skip_ws s0 with
    | c :: r =>
      if Ascii.eqb c "}"%char then Some r
      else if Ascii.eqb c ","%char then match rmem f' r with Some r1 => robj f' r1 | None => None end
      else None
    | [] => None
    end
  end.

Definition valid_json (s : bytes) : bool :=
  match rval (S (length s)) s with
  | Some r => match skip_ws r with [] => true | _ :: _ => false end
  | None => false
  end.

(* ------------------------------------------------------------------ equality tests used by the judge *)

Fixpoint bytes_eqb (a b : bytes) : bool :=
  match a, b with
  | [], [] => true
  | x :: a', y :: b' => Ascii.eqb x y && bytes_eqb a' b'
  | _, _ => false
  end.

Fixpoint jv_eqb (a b : jv) : bool :=
  match a, b with
  | JNull, JNull => true
  | JBool x, JBool y => Bool.eqb x y
  | JInt x, JInt y => Z.eqb x y
  | JStr x, JStr y => bytes_eqb x y
  | JArr l, JArr l' =>
    (fix go (l : list jv) (l' : list jv) : bool :=
       match l, l' with
       | [], [] => true
       | x :: r, y :: r' => jv_eqb x y && go r r'
       | _, _ => false
       end) l l'
  | JObj m, JObj m' =>
    (fix go (m : list (bytes * jv)) (m' : list (bytes * jv)) : bool :=
       match m, m' with
       | [], [] => true
       | (k, x) :: r, (k', y) :: r' => bytes_eqb k k' && jv_eqb x y && go r r'
       | _, _ => false
       end) m m'
  | _, _ => false
  end.
