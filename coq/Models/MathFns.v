(* C18 model: templatefunctions/js_math.go (Math.min/max/ceil/trunc/round) and
   parseInt_func.go, over exact rationals.  Every finite double is a rational;
   Go's float comparisons, math.Ceil, math.Floor and math.Trunc are exact on
   finite doubles, and [n + 0.5] is exact for |n| < 2^52 (recorded assumption,
   see gen/c18.py), so on [dom_num] the float program and this rational
   program compute the same values.

   M proper is the code AFTER the two repairs (fixes/…F-C18-a, …F-C18-b):

     func (m Math) Max(x ...interface{}) (res float64) {
         res = float64(math.SmallestNonzeroFloat64)
         for i, v := range x {
             <kind switch>
             if i == 0 || v.(float64) > res { res = v.(float64) }     // repaired: "i == 0 ||"
         }
     }
     func round(n float64) float64 {
         if n >= 0.5  { return math.Trunc(n + 0.5) }
         if n <= -0.5 { return math.Floor(n + 0.5) }                   // repaired: was Trunc(n - 0.5)
         if math.IsNaN(n) { return math.NaN() }
         return 0
     }

   The unrepaired reading ([m_max_unrepaired], [m_round_unrepaired]) is kept
   for the [_refuted] witnesses.  Definitions only; proofs are in
   Proofs/MathFnsProofs.v. *)
From Coq Require Import QArith Qround Qabs.
From PV Require Import Base.Bytes.
Local Open Scope Q_scope.

(* ------------------------------------------------------------------ *)
(* comparisons on Q as booleans (Go's <, >, <=, >= on finite doubles)  *)

Definition qlt (x y : Q) : bool := (Qnum x * QDen y <? Qnum y * QDen x)%Z.
Definition qle (x y : Q) : bool := (Qnum x * QDen y <=? Qnum y * QDen x)%Z.

(* ================================================================== *)
(* S — what ECMAScript (ECMA-262 21.3.2, 19.2.5) defines               *)
(* ================================================================== *)

(* floor is the only primitive of S: the greatest integer <= x *)
Definition es_floor (x : Q) : Z := Qfloor x.

(* Math.ceil: the smallest integer >= x *)
Definition es_ceil (x : Q) : Z :=
  let f := es_floor x in if Qeq_bool (inject_Z f) x then f else (f + 1)%Z.

(* Math.trunc: the integral part, fractional digits removed = sign(x) * floor(|x|) *)
Definition es_trunc (x : Q) : Z :=
  if qle 0 x then es_floor x else (- es_floor (- x))%Z.

(* Math.round: floor(x + 1/2) — ties go towards +infinity; the result -0 is the
   rational 0 and prints "0" *)
Definition es_round (x : Q) : Z := es_floor (x + (1 # 2)).

Definition qmin (x y : Q) : Q := if qle x y then x else y.
Definition qmax (x y : Q) : Q := if qle y x then x else y.

(* Math.min / Math.max of a non-empty argument list: the least / greatest one
   (the value on [] is irrelevant: outside the property's quantifier) *)
Fixpoint es_min (l : list Q) : Q :=
  match l with
  | [] => 0
  | x :: r => match r with [] => x | _ => qmin x (es_min r) end
  end.

Fixpoint es_max (l : list Q) : Q :=
  match l with
  | [] => 0
  | x :: r => match r with [] => x | _ => qmax x (es_max r) end
  end.

(* parseInt of a number: "its integer part" (the property's text; ECMAScript
   agrees except for 0 < |x| < 10^-6 and |x| >= 10^21, where ToString switches
   to exponent notation — excluded by [dom_pnum]) *)
Definition es_parse_int_num (x : Q) : Z := es_trunc x.

(* parseInt of a decimal digit string: optional sign, then the positional value *)
Definition is_digit (c : ascii) : bool :=
  let n := N_of_ascii c in (48 <=? n)%N && (n <=? 57)%N.

Definition digits_of (s : bytes) : list Z :=
  map (fun c => (Z.of_N (N_of_ascii c) - 48)%Z) s.

Fixpoint positional (ds : list Z) : Z :=   (* most significant digit first *)
  match ds with
  | [] => 0%Z
  | d :: r => (d * 10 ^ Z.of_nat (length r) + positional r)%Z
  end.

Definition split_sign (s : bytes) : Z * bytes :=
  match s with
  | c :: r => if Ascii.eqb c "-" then ((-1)%Z, r)
              else if Ascii.eqb c "+" then (1%Z, r) else (1%Z, s)
  | [] => (1%Z, s)
  end.

Definition is_digit_string (s : bytes) : bool :=
  match snd (split_sign s) with
  | [] => false
  | b => forallb is_digit b
  end.

Definition es_parse_int_digits (s : bytes) : Z :=
  (fst (split_sign s) * positional (digits_of (snd (split_sign s))))%Z.

(* ================================================================== *)
(* the property's domain                                               *)
(* ================================================================== *)

Definition two52 : Z := 4503599627370496.            (* 2^52 *)
Definition two63 : Z := 9223372036854775808.         (* 2^63 *)
Definition two64 : Z := 18446744073709551616.        (* 2^64 *)

(* |x| < 2^52: integers and halves are exact doubles, n + 0.5 is exact *)
Definition dom_num (x : Q) : bool := qlt (Qabs x) (inject_Z two52).

(* non-empty list of such numbers, any length *)
Definition dom_args (l : list Q) : bool :=
  match l with [] => false | _ => forallb dom_num l end.

(* numbers on which "integer part" and ECMAScript's parseInt coincide *)
Definition dom_pnum (x : Q) : bool :=
  dom_num x && (Qeq_bool x 0 || qle (1 # 1000000) (Qabs x)).

(* sign? digit+ with |value| < 2^52 *)
Definition dom_digits (s : bytes) : bool :=
  is_digit_string s && (Z.abs (es_parse_int_digits s) <? two52)%Z.

(* ================================================================== *)
(* M — the Go code, arm by arm                                         *)
(* ================================================================== *)

(* what a template or a Go caller can hand over *)
Inductive kind := KInt | KInt64 | KFloat64.      (* reflect.Kind of the argument; pugjs.Number is Float64 *)
Inductive arg :=
| ANum (k : kind) (v : Q)     (* a number of that kind with exactly this value *)
| AStr (s : bytes)            (* string / pugjs.String *)
| ABool (b : bool).           (* stands for "any other kind" *)

Inductive outcome :=
| Val (q : Q)                 (* returned this number (int results are integers) *)
| Panic                       (* x.(float64) on a non-number *)
| Declined.                   (* model declines: float64 -> int conversion out of range *)

(* the kind switch repeated in every Math method:
     if Kind == Int {x = float64(Int())} else if Kind == Int64 {…} else if Kind == Float64 {…}
   None: x stays what it was, and the following x.(float64) panics *)
Definition kind_switch (a : arg) : option Q :=
  match a with
  | ANum KInt v => Some v
  | ANum KInt64 v => Some v
  | ANum KFloat64 v => Some v
  | AStr _ => None
  | ABool _ => None
  end.

(* int(f) for an integral float f: defined by Go only when f fits *)
Definition to_int (z : Z) : outcome :=
  if ((- two63 <=? z) && (z <? two63))%Z then Val (inject_Z z) else Declined.

(* math.Floor, math.Ceil (= -Floor(-x) in the Go source), math.Trunc *)
Definition m_floor (x : Q) : Z := (Qnum x / QDen x)%Z.
Definition m_ceilf (x : Q) : Z := (- ((- Qnum x) / QDen x))%Z.
Definition m_truncf (x : Q) : Z := (Qnum x ÷ QDen x)%Z.

(* Math.Ceil / Math.Trunc *)
Definition go_ceil (a : arg) : outcome :=
  match kind_switch a with Some v => to_int (m_ceilf v) | None => Panic end.

Definition go_trunc (a : arg) : outcome :=
  match kind_switch a with Some v => to_int (m_truncf v) | None => Panic end.

(* round(n), repaired *)
Definition m_round (n : Q) : Z :=
  if qle (1 # 2) n then m_truncf (n + (1 # 2))
  else if qle n (- (1 # 2)) then m_floor (n + (1 # 2))
  else 0%Z.

(* round(n) as it is in the source: second arm Trunc(n - 0.5) *)
Definition m_round_unrepaired (n : Q) : Z :=
  if qle (1 # 2) n then m_truncf (n + (1 # 2))
  else if qle n (- (1 # 2)) then m_truncf (n - (1 # 2))
  else 0%Z.

(* Math.Round: the kind switch has a final "else return 0" *)
Definition go_round (a : arg) : outcome :=
  match kind_switch a with Some v => to_int (m_round v) | None => Val 0 end.

(* the source's initial values *)
Definition max_float64 : Q := inject_Z (2 ^ 1024 - 2 ^ 971).          (* math.MaxFloat64 *)
Definition smallest_nonzero_float64 : Q := 1 # (2 ^ 1074).            (* math.SmallestNonzeroFloat64 = 5e-324 *)

(* Min: res = MaxFloat64; for v: if v < res {res = v} *)
Fixpoint min_loop (res : Q) (l : list Q) : Q :=
  match l with
  | [] => res
  | v :: r => min_loop (if qlt v res then v else res) r
  end.
Definition m_min (l : list Q) : Q := min_loop max_float64 l.

(* Max as it is in the source: res = SmallestNonzeroFloat64; if v > res {res = v} *)
Fixpoint max_loop (res : Q) (l : list Q) : Q :=
  match l with
  | [] => res
  | v :: r => max_loop (if qlt res v then v else res) r
  end.
Definition m_max_unrepaired (l : list Q) : Q := max_loop smallest_nonzero_float64 l.

(* Max, repaired: if i == 0 || v > res {res = v}; Max() stays 5e-324 *)
Fixpoint max_loop_i (first : bool) (res : Q) (l : list Q) : Q :=
  match l with
  | [] => res
  | v :: r => max_loop_i false (if first || qlt res v then v else res) r
  end.
Definition m_max (l : list Q) : Q := max_loop_i true smallest_nonzero_float64 l.

(* the loop applies the kind switch to each argument; the first non-number panics
   (no result is observable after a panic, so the position does not matter) *)
Fixpoint values (l : list arg) : option (list Q) :=
  match l with
  | [] => Some []
  | a :: r => match kind_switch a, values r with
              | Some v, Some vs => Some (v :: vs)
              | _, _ => None
              end
  end.

Definition go_min (l : list arg) : outcome :=
  match values l with Some vs => Val (m_min vs) | None => Panic end.
Definition go_max (l : list arg) : outcome :=
  match values l with Some vs => Val (m_max vs) | None => Panic end.

(* strconv.ParseInt(s, 10, 0) on a 64-bit platform; None = any error *)
Definition digit_val (c : ascii) : option Z :=
  let n := Z.of_N (N_of_ascii c) in
  if ((48 <=? n) && (n <=? 57))%Z then Some (n - 48)%Z else None.

Fixpoint parse_uint_loop (acc : Z) (s : bytes) : option Z :=
  match s with
  | [] => Some acc
  | c :: r => match digit_val c with
              | Some d => parse_uint_loop (acc * 10 + d) r
              | None => None                                  (* ErrSyntax (also '_' : base is 10, not 0) *)
              end
  end.

Definition parse_uint (s : bytes) : option Z :=
  match s with
  | [] => None                                                (* ErrSyntax *)
  | _ => match parse_uint_loop 0 s with
         | Some v => if (v <? two64)%Z then Some v else None  (* ErrRange *)
         | None => None
         end
  end.

Definition parse_int_10 (s : bytes) : option Z :=
  match s with
  | [] => None
  | c :: r =>
    let neg := Ascii.eqb c "-" in
    let body := if Ascii.eqb c "+" then r else if neg then r else s in
    match parse_uint body with
    | None => None
    | Some un =>
      if (negb neg && (two63 <=? un)%Z) then None               (* ErrRange *)
      else if (neg && (two63 <? un)%Z) then None                (* ErrRange *)
      else Some (if neg then (- un)%Z else un)
    end
  end.

(* parseInt: the reflect.Kind switch *)
Definition go_parse_int (a : arg) : outcome :=
  match a with
  | AStr s => match parse_int_10 s with                        (* case reflect.String *)
              | Some z => Val (inject_Z z)
              | None => Val 0                                  (* err != nil: return 0 *)
              end
  | ANum KFloat64 v => to_int (m_truncf v)                     (* int(value.Float()) *)
  | ANum KInt v => to_int (m_truncf v)                         (* int(value.Int()) — v is an integer *)
  | ANum KInt64 v => to_int (m_truncf v)                       (* default arm: ConvertibleTo(int) *)
  | ABool _ => Val 0                                           (* default arm, not convertible *)
  end.
