(* C16 model: pugjs.Startup (pugjs/startup.go), controllers.Ready.ServeHTTP
   (controllers/ready.go) and the listener EventSubscriber.Notify attaches
   (pugjs/engine.go).

     type Startup struct { eg *errgroup.Group; done chan struct{} }
     func (s *Startup) AddProcess(f func() error) { s.eg.Go(f) }
     func (s *Startup) Finish() <-chan error {
         errChan := make(chan error)
         go func() {
             err := s.eg.Wait()                    // Waiting: blocks until every f has returned
             if err != nil { errChan <- err }      // Sending err: blocks until the listener receives
             close(s.done)                         // Closed
             close(errChan)
         }()
         return errChan
     }
     func (s *Startup) IsFinished() bool { select { case <-s.done: return true; default: return false } }
     func (r *Ready) ServeHTTP(w, _) { if r.startup.IsFinished() { 200 } else { 425 } }
     Notify, on ServerStartEvent:  errs := e.startup.Finish(); go func(){ err := <-errs; ... }()

   The model is a transition system over the events a history consists of.
   [Add]/[End]/[Finish]/[Probe] are what the environment does (register a
   process, a process returns, the server start event, a GET /pugjs/ready);
   [WaiterStep] is one step of the goroutine started by Finish.

   ASSUMED (trusted, not verified): errgroup.Group.  g.Go(f) runs f in a
   goroutine; the first non-nil error IN COMPLETION ORDER is kept (errOnce);
   g.Wait() blocks until every f has returned and then returns that error.
   This is modelled by [order], the list of results in completion order, and
   [first_failure].  Also assumed: Go channel semantics (an unbuffered send
   completes exactly when the listener receives; a closed channel is always
   ready for receive; close happens once).

   M declines ([None]) histories outside the documented use: AddProcess after
   Finish ("Must only be called after all AddProcess have been made"), a second
   Finish (would close [done] twice), End of a process that is not running. *)
From PV Require Import Base.Bytes.

Definition pid := N.
Definition err := N.     (* the identity carried by a startup error *)

Inductive result := ok | failed (e : err).
Inductive wstate := Idle | Waiting | Sending (e : err) | Closed.
Inductive event :=
  | Add (p : pid)               (* AddProcess(f_p), f_p starts running *)
  | End (p : pid) (r : result)  (* f_p returns r (errgroup has recorded it) *)
  | Finish                      (* Finish() + the listener goroutine of Notify *)
  | WaiterStep                  (* one step of Finish's goroutine *)
  | Probe.                      (* GET /pugjs/ready *)

Record state := mkState {
  procs     : list (pid * option result);  (* registration order; None = still running *)
  order     : list result;                 (* results in completion order (errgroup's view) *)
  finished  : bool;                        (* Finish has been called *)
  waiter    : wstate;                      (* where Finish's goroutine stands *)
  delivered : list err                     (* what the listener has received, oldest first *)
}.

Definition su_init : state := mkState [] [] false Idle [].

Fixpoint pstatus (p : pid) (ps : list (pid * option result)) : option (option result) :=
  match ps with
  | [] => None
  | (q, x) :: r => if N.eqb p q then Some x else pstatus p r
  end.

Fixpoint pset (p : pid) (x : result) (ps : list (pid * option result))
  : list (pid * option result) :=
  match ps with
  | [] => []
  | (q, y) :: r => if N.eqb p q then (q, Some x) :: r else (q, y) :: pset p x r
  end.

Definition has_ended (x : pid * option result) : bool :=
  match snd x with Some _ => true | None => false end.

Definition all_ended (ps : list (pid * option result)) : bool := forallb has_ended ps.

(* errgroup: errOnce keeps the first non-nil error in completion order *)
Fixpoint first_failure (l : list result) : option err :=
  match l with
  | [] => None
  | ok :: r => first_failure r
  | failed e :: _ => Some e
  end.

Definition su_step (s : state) (e : event) : option state :=
  match e with
  | Add p =>
    if finished s then None
    else match pstatus p (procs s) with
         | Some _ => None
         | None => Some (mkState (procs s ++ [(p, None)]) (order s) (finished s)
                                 (waiter s) (delivered s))
         end
  | End p r =>
    match pstatus p (procs s) with
    | Some None => Some (mkState (pset p r (procs s)) (order s ++ [r]) (finished s)
                                 (waiter s) (delivered s))
    | _ => None
    end
  | Finish =>
    if finished s then None
    else Some (mkState (procs s) (order s) true Waiting (delivered s))
  | WaiterStep =>
    match waiter s with
    | Waiting =>                       (* eg.Wait() returns only when every f has returned *)
      if all_ended (procs s)
      then Some (mkState (procs s) (order s) (finished s)
                         (match first_failure (order s) with
                          | Some e => Sending e     (* err != nil: errChan <- err *)
                          | None => Closed          (* close(s.done) *)
                          end)
                         (delivered s))
      else None
    | Sending e =>                     (* the listener receives; then close(s.done) *)
      Some (mkState (procs s) (order s) (finished s) Closed (delivered s ++ [e]))
    | Idle => None
    | Closed => None
    end
  | Probe => Some s
  end.

(* IsFinished / Ready.ServeHTTP *)
Definition probe (s : state) : N :=
  match waiter s with Closed => 200%N | _ => 425%N end.

Definition ostep (os : option state) (e : event) : option state :=
  match os with Some s => su_step s e | None => None end.

(* None = some event of the history was not enabled *)
Definition su_reach (evs : list event) : option state := fold_left ostep evs (Some su_init).

(* ------------------------------------------------------------------ S *)
(* what the property talks about, stated on the history itself *)

(* the results in completion order *)
Fixpoint completions (evs : list event) : list result :=
  match evs with
  | [] => []
  | End _ r :: t => r :: completions t
  | _ :: t => completions t
  end.

(* "the first startup error": first failing result in completion order *)
Definition first_error (evs : list event) : option err := first_failure (completions evs).

Definition running (s : state) (p : pid) : Prop := In (p, None) (procs s).
Definition ended (x : pid * option result) : Prop := snd x <> None.

(* ------------------------------------------------- the model as an acceptor *)
(* The driver of the correspondence check sees Add/End/Finish and the status
   of each probe, never a WaiterStep.  The acceptor inserts WaiterSteps: before
   a probe the model may have taken 0, 1 or 2 of them (never more:
   [ws_closure_complete] in the proofs). *)

Inductive obs :=
  | OAdd (p : pid)
  | OEnd (p : pid) (r : result)
  | OFinish
  | OProbe (st : N) (awaited : bool).
  (* awaited = the driver polled (bounded) for a 200 because every process it
     started had ended and Finish had been called *)

Definition ws_closure (s : state) : list state :=
  s :: match su_step s WaiterStep with
       | None => []
       | Some s1 => s1 :: match su_step s1 WaiterStep with
                          | None => []
                          | Some s2 => [s2]
                          end
       end.

Definition quiescent (s : state) : state := last (ws_closure s) s.

Fixpoint find_status (st : N) (l : list state) : option state :=
  match l with
  | [] => None
  | s :: r => if N.eqb (probe s) st then Some s else find_status st r
  end.

Inductive acc := Declined | Rejected | Accepted (s : state).

Fixpoint run_trace (s : state) (tr : list obs) : acc :=
  match tr with
  | [] => Accepted s
  | OAdd p :: r =>
    match su_step s (Add p) with Some s' => run_trace s' r | None => Declined end
  | OEnd p x :: r =>
    match su_step s (End p x) with Some s' => run_trace s' r | None => Declined end
  | OFinish :: r =>
    match su_step s Finish with Some s' => run_trace s' r | None => Declined end
  | OProbe st aw :: r =>
    match find_status st (if aw then [quiescent s] else ws_closure s) with
    | Some s' => run_trace s' r
    | None => Rejected
    end
  end.

(* what a driver can see of a model run: everything but the WaiterSteps *)
Inductive vis := VAdd (p : pid) | VEnd (p : pid) (r : result) | VFinish | VProbe (st : N).

Definition vis_of (o : obs) : vis :=
  match o with
  | OAdd p => VAdd p
  | OEnd p r => VEnd p r
  | OFinish => VFinish
  | OProbe st _ => VProbe st
  end.

Fixpoint observe (s : state) (evs : list event) : option (list vis * state) :=
  match evs with
  | [] => Some ([], s)
  | e :: r =>
    match su_step s e with
    | None => None
    | Some s' =>
      match observe s' r with
      | None => None
      | Some (v, sf) =>
        Some (match e with
              | Add p => VAdd p :: v
              | End p x => VEnd p x :: v
              | Finish => VFinish :: v
              | WaiterStep => v
              | Probe => VProbe (probe s) :: v
              end, sf)
      end
    end
  end.

(* ------------------------------------- how a probe asks; what its client sees *)
(* controllers/ready.go:

     func (r *Ready) ServeHTTP(w http.ResponseWriter, _ *http.Request) {
         if r.startup.IsFinished() {
             w.WriteHeader(http.StatusOK); w.Write("All pugjs startup tasks are finished"); return
         }
         w.WriteHeader(http.StatusTooEarly); w.Write("Still waiting for ...")
     }

   The handler is mounted on the http.ServeMux of flamingo's systemendpoint
   under "/pugjs/ready", for every method.  A probe is a [request]; the handler
   answers with a sequence of ResponseWriter calls; what an orchestrator sees
   is the status line net/http makes of them.

   ASSUMED (trusted, not verified): net/http's response writer (and
   httptest.ResponseRecorder alike): the status line is fixed by the FIRST
   call - WriteHeader(st) gives st, a Write before any WriteHeader gives an
   implicit 200 and later WriteHeader calls are ignored, no call at all
   gives 200. *)
Record request := mkRequest {
  rq_method  : bytes;                  (* GET, HEAD, POST, ... *)
  rq_query   : bytes;
  rq_headers : list (bytes * bytes);   (* Accept, Content-Type, anything *)
  rq_body    : bytes;
  rq_http10  : bool;                   (* HTTP/1.0 instead of 1.1 *)
  rq_reused  : bool                    (* asked on a connection that carried earlier probes *)
}.

Inductive wop := WriteHeader (st : N) | Write (b : bytes).

Definition client_status (ops : list wop) : N :=
  match ops with
  | WriteHeader st :: _ => st
  | _ => 200%N
  end.

Definition ready_ops (s : state) (r : request) : list wop :=
  match waiter s with
  | Closed => [WriteHeader 200%N; Write (B "All pugjs startup tasks are finished")]
  | _ => [WriteHeader 425%N; Write (B "Still waiting for pugjs startup tasks to be finished")]
  end.

(* the status the client of a probe asked as [r] in state [s] reads *)
Definition serve (s : state) (r : request) : N := client_status (ready_ops s r).

(* counter-model: a handler that answers SOME requests (those [wants] picks,
   e.g. the ones whose Accept header names a document type) with a document it
   writes before it sets the status *)
Definition body_first_ops (wants : request -> bool) (s : state) (r : request) : list wop :=
  if wants r
  then [Write (B "{""ready"":..}"); WriteHeader (probe s)]
  else ready_ops s r.
