(* C06 — the pug AST as the decoder sees it: fields of the AST JSON that ordinary templates never set.

   Pug/Ast.v (pnode) is the tree AFTER buildNode: a Tag there has a name, the inline mark, attributes and a
   body, nothing else.  The *.ast.json files carry more: every Tag token has `selfClosing` (true for the pug
   source `div/` and `img/`), and json.Unmarshal copies it into Token.SelfClosing for buildNode to read.
   [tnode] is pnode with that field kept on every Tag ([self]: absent / false / true); [erase] forgets it.

   M: [bn_tag] follows the Tag arm of renderState.buildNode (pugjs/pug_parser.go) assignment by assignment,
      [mevents1] the case split of CommonTag.render (pugjs/transform_tag.go) in production mode on the built
      tag's SelfClosing field, for the static fragment, as a sequence of document events.
   S: Spec/HtmlSer.v on the erased tree (an end tag for every non-void element and none for void elements:
      the AST's flag has no say), on the domain [sc_dom] of the templates pug itself accepts: pug's code
      generator (pug-code-gen visitTag) rejects a self-closing element with nested content other than
      white-space text ("... is a self closing element: <div/> but contains nested content"); such templates
      have no prescribed rendering and are left outside the domain.
   Definitions only; proofs in Proofs/C06AstProofs.v. *)
From PV Require Import Base.Bytes Js.Ast Pug.Ast Pug.Compile Spec.HtmlSer.

Inductive tnode :=
| TNTag (name : bytes) (self : option bool) (inline : bool) (attrs : list pattr) (ablocks : list bytes)
        (body : list tnode)
| TNText (s : bytes)
| TNCode (stmts : list jstmt) (must_escape inline : bool)
| TNCond (test : jexpr) (cons : list tnode) (alt : option tnode)
| TNCase (e : jexpr) (whens : list (option jexpr * list tnode))
| TNEach (v : bytes) (k : option bytes) (obj : jexpr) (body : list tnode)
| TNWhile (test : jexpr) (body : list tnode)
| TNMixinDef (name : bytes) (params : list bytes) (body : list tnode)
| TNMixinCall (name : bytes) (args : list jexpr) (attrs : list pattr) (body : list tnode)
| TNMixinBlock
| TNDoctype (v : bytes)
| TNBlock (nodes : list tnode)
| TNComment.

Fixpoint erase (n : tnode) : pnode :=
  match n with
  | TNTag name _ i at_ ab b => PTag name i at_ ab (map erase b)
  | TNText s => PText s
  | TNCode st e i => PCode st e i
  | TNCond t cs alt => PCond t (map erase cs) (match alt with Some a => Some (erase a) | None => None end)
  | TNCase e ws => PCase e (map (fun w => (fst w, map erase (snd w))) ws)
  | TNEach v k o b => PEach v k o (map erase b)
  | TNWhile t b => PWhile t (map erase b)
  | TNMixinDef nm ps b => PMixinDef nm ps (map erase b)
  | TNMixinCall nm args at_ b => PMixinCall nm args at_ (map erase b)
  | TNMixinBlock => PMixinBlock
  | TNDoctype v => PDoctype v
  | TNBlock l => PBlock (map erase l)
  | TNComment => PComment
  end.

(* ---- M: buildNode, case "Tag" ------------------------------------------------------------------------- *)
(* encoding/json: an absent key (and null) leaves the Go zero value *)
Definition ast_bool (f : option bool) : bool := match f with Some b => b | None => false end.

(* the fields of pugjs.Tag that decide which branch CommonTag.render takes *)
Record btag := { b_name : bytes; b_self : bool }.

Definition bn_tag (name : bytes) (self : option bool) : btag :=
  let t := {| b_name := name; b_self := false |} in                        (* tag := new(Tag); tag.Name = t.Name *)
  let t := {| b_name := b_name t; b_self := ast_bool self |} in            (* tag.SelfClosing = t.SelfClosing *)
  let t := {| b_name := b_name t; b_self := is_void (b_name t) |} in       (* tag.SelfClosing = SelfClosingTags[tag.Name] *)
  t.

(* NOT the code: the last assignment made conditional ("the table can only add the mark"), so that the AST's
   flag survives for names outside the table.  Refuted in Proofs/C06AstProofs.v *)
Definition bn_tag_guarded (name : bytes) (self : option bool) : btag :=
  let t := {| b_name := name; b_self := false |} in
  let t := {| b_name := b_name t; b_self := ast_bool self |} in
  if is_void (b_name t) then {| b_name := b_name t; b_self := true |} else t.

(* CommonTag.render, production mode, static fragment (no attributes): `case ct.SelfClosing:` writes the start
   tag and nothing else -- the rendered sub-block is dropped --, every other branch writes start tag, sub-block,
   end tag.  As events: ser_event (EVoid n) = "<n>" *)
Fixpoint mevents1 (bn : bytes -> option bool -> btag) (n : tnode) : list hev :=
  match n with
  | TNTag name self _ _ _ body =>
    let t := bn name self in
    if b_self t then [EVoid (b_name t)]
    else EOpen (b_name t) :: flat_map (mevents1 bn) body ++ [EClose (b_name t)]
  | TNText s => [EText s]
  | TNDoctype v => [EDoctype v]
  | TNBlock l => flat_map (mevents1 bn) l
  | _ => []
  end.
Definition mevents (bn : bytes -> option bool -> btag) (l : list tnode) : list hev := flat_map (mevents1 bn) l.

(* ---- S: the domain ------------------------------------------------------------------------------------- *)
(* space, tab, CR, LF: a subset of what JavaScript's \s matches *)
Definition ws_byte (c : ascii) : bool :=
  let n := N_of_ascii c in N.eqb n 32 || N.eqb n 9 || N.eqb n 13 || N.eqb n 10.
(* pug-code-gen: a self-closing tag may hold nothing but Text nodes matching /^\s*$/ *)
Definition blank_node (n : tnode) : bool :=
  match n with TNText s => forallb ws_byte s | _ => false end.

(* a non-void element marked self-closing has blank content.  (Void elements: as before this file, whatever
   they hold is not rendered, marked or not.) *)
Fixpoint sc_dom (n : tnode) : bool :=
  let all := fix go (l : list tnode) : bool := match l with [] => true | x :: r => sc_dom x && go r end in
  match n with
  | TNTag name self _ _ _ body =>
    (match self with Some true => void_el name || forallb blank_node body | _ => true end) && all body
  | TNCond _ cs alt => all cs && match alt with Some a => sc_dom a | None => true end
  | TNCase _ ws => (fix go (l : list (option jexpr * list tnode)) : bool :=
                      match l with [] => true | w :: r => all (snd w) && go r end) ws
  | TNEach _ _ _ b | TNWhile _ b | TNMixinDef _ _ b | TNMixinCall _ _ _ b | TNBlock b => all b
  | _ => true
  end.
