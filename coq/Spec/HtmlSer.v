(* S for C06: what a static pug tree (tags without attributes, literal text, doctype, blocks, comments)
   must render to, written without reference to the template engine: an HTML serialiser.
   Independent of Pug/Compile.v, Tmpl/* and of the table extracted from the Go source. *)
From PV Require Import Base.Bytes Js.Ast Pug.Ast.

(* void elements: HTML5 (W3C Recommendation 2014, section 8.1.2) plus `command`, void in the HTML5 drafts
   of 2011-2013; written down here from the standard, NOT taken from pug_parser.go *)
Definition void_elements : list bytes :=
  [B "area"; B "base"; B "br"; B "col"; B "embed"; B "hr"; B "img"; B "input"; B "keygen"; B "link";
   B "meta"; B "param"; B "source"; B "track"; B "wbr"; B "command"].
Definition void_el (name : bytes) : bool := mem name void_elements.

(* the static fragment of the pug AST *)
Fixpoint static (n : pnode) : bool :=
  match n with
  | PTag _ _ [] [] body => forallb static body
  | PTag _ _ _ _ _ => false
  | PText _ | PDoctype _ | PComment => true
  | PBlock l => forallb static l
  | _ => false
  end.

(* ---- the document as a sequence of events ---------------------------------------------------------- *)
Inductive hev :=
| EOpen (name : bytes)       (* start tag of a non-void element *)
| EClose (name : bytes)      (* end tag *)
| EVoid (name : bytes)       (* start tag of a void element: no content, no end tag *)
| EText (s : bytes)          (* literal text, byte for byte *)
| EDoctype (v : bytes).

Fixpoint events1 (n : pnode) : list hev :=
  match n with
  | PTag name _ _ _ body =>
    if void_el name then [EVoid name]
    else EOpen name :: flat_map events1 body ++ [EClose name]
  | PText s => [EText s]
  | PDoctype v => [EDoctype v]
  | PBlock l => flat_map events1 l
  | _ => []
  end.
Definition events (l : list pnode) : list hev := flat_map events1 l.

Definition nl : bytes := [ascii_of_N 10].
Definition ser_event (e : hev) : bytes :=
  match e with
  | EOpen n | EVoid n => B "<" ++ n ++ B ">"
  | EClose n => B "</" ++ n ++ B ">"
  | EText s => s
  | EDoctype v => B "<!DOCTYPE " ++ v ++ B ">" ++ nl
  end.
Definition ser_events (l : list hev) : bytes := flat_map ser_event l.

(* the serialiser, directly on the tree: nothing between the pieces *)
Fixpoint html_ser1 (n : pnode) : bytes :=
  match n with
  | PTag name _ _ _ body =>
    if void_el name then B "<" ++ name ++ B ">"
    else B "<" ++ name ++ B ">" ++ flat_map html_ser1 body ++ B "</" ++ name ++ B ">"
  | PText s => s
  | PDoctype v => B "<!DOCTYPE " ++ v ++ B ">" ++ nl
  | PBlock l => flat_map html_ser1 l
  | _ => []
  end.
Definition html_ser (l : list pnode) : bytes := flat_map html_ser1 l.

(* ---- well-formedness of an event sequence ---------------------------------------------------------- *)
(* a stack of open elements: every end tag closes the innermost open element, EOpen is never a void
   element and EVoid always is, nothing is left open at the end *)
Fixpoint balanced (stack : list bytes) (l : list hev) : bool :=
  match l with
  | [] => match stack with [] => true | _ => false end
  | EOpen n :: r => negb (void_el n) && balanced (n :: stack) r
  | EClose n :: r => match stack with m :: st => beqb n m && balanced st r | [] => false end
  | EVoid n :: r => void_el n && balanced stack r
  | EText _ :: r => balanced stack r
  | EDoctype _ :: r => balanced stack r
  end.
Definition is_doctype (e : hev) : bool := match e with EDoctype _ => true | _ => false end.
(* the doctype, when there is one, is the first event and the only one *)
Definition doctype_first (l : list hev) : bool :=
  match l with
  | [] => true
  | _ :: r => negb (existsb is_doctype r)
  end.
Definition wf_html (l : list hev) : bool := balanced [] l && doctype_first l.

(* templates that declare the doctype where pug wants it: as the first node, if at all *)
Fixpoint has_doctype (n : pnode) : bool :=
  match n with
  | PDoctype _ => true
  | PTag _ _ _ _ b | PBlock b => existsb has_doctype b
  | _ => false
  end.
Definition doctype_ok (l : list pnode) : bool :=
  match l with
  | PDoctype _ :: r => negb (existsb has_doctype r)
  | _ => negb (existsb has_doctype l)
  end.
