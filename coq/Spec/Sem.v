(* S — the independent specification: JavaScript semantics of the core expression subset
   (ECMA-262: ToBoolean, ToString of integers, + as concatenation when either side is a
   string, same-type comparison/equality, && || returning operands, ?:, array/object
   literals as reference values, the listed Array/String methods) and pug's semantics of
   tags, text, code, conditionals, case, each, while and mixins (closures for blocks).
   It does not mention templates, pipelines or helpers.  [SOff] = outside the property's
   domain (never a violation); [SErr fl] = the error the property prescribes (while cap), with the deviation flags raised on the way. *)
From PV Require Import Base.Bytes Base.Escape Js.Ast Pug.Ast.
Local Open Scope Z_scope.

Inductive jv :=
| JUndef | JNul | JB (b : bool) | JN (z : Z) | JS (s : bytes) | JA (l : nat) | JO (l : nat).

Inductive jobj := JArrO (items : list jv) | JObjO (props : list (bytes * jv)).  (* insertion order *)
Definition jheap := list jobj.

Inductive sres (A : Type) : Type := SOk (a : A) | SErr (flags : list nat) | SOff | SFuel.
Arguments SOk {A} a. Arguments SErr {A} flags. Arguments SOff {A}. Arguments SFuel {A}.
Definition sbind {A B} (r : sres A) (f : A -> sres B) : sres B :=
  match r with SOk a => f a | SErr fl => SErr fl | SOff => SOff | SFuel => SFuel end.
Notation "'sdo' x <- r ; k" := (sbind r (fun x => k)) (at level 200, x pattern, r at level 100, k at level 200).

Definition jalloc (h : jheap) (o : jobj) : nat * jheap := (length h, h ++ [o]).
Definition jget (h : jheap) (l : nat) : option jobj := nth_error h l.
Fixpoint jset (h : jheap) (l : nat) (o : jobj) : jheap :=
  match h, l with
  | [], _ => []
  | _ :: r, O => o :: r
  | x :: r, S k => x :: jset r k o
  end.

Definition in_range (z : Z) : bool := Z.ltb (Z.abs z) 10000000000.
Definition num (z : Z) : sres jv := if in_range z then SOk (JN z) else SOff.
Definition ascii_only (s : bytes) : bool := forallb (fun c => N.ltb (N_of_ascii c) 128) s.

(* finding classes noticed while evaluating (see KNOWN_FINDINGS.txt) *)
Definition fl_num_plus_str : nat := 1.    (* number + string *)
Definition fl_empty_truthy : nat := 2.    (* ToBoolean of an empty array / object *)
Definition fl_print_ref : nat := 3.       (* ToString of an array / object *)
Definition fl_obj_grown : nat := 4.       (* iteration over an object that started empty and was assigned into *)
Definition fl_push_result : nat := 5.     (* result of push / sort used *)
Definition fl_str_index : nat := 6.       (* s[i] on a string *)
Definition fl_loop_shadow : nat := 7.     (* an each whose variable name is already bound *)

Record sstate := {
  s_env : list (bytes * jv);
  s_heap : jheap;
  s_out : list bytes;          (* newest first *)
  s_flags : list nat;
  s_grown : list nat;          (* objects created empty and later assigned into *)
}.
Definition flag (s : sstate) (f : nat) : sstate :=
  {| s_env := s_env s; s_heap := s_heap s; s_out := s_out s; s_flags := f :: s_flags s; s_grown := s_grown s |}.
Definition with_heap (s : sstate) (h : jheap) : sstate :=
  {| s_env := s_env s; s_heap := h; s_out := s_out s; s_flags := s_flags s; s_grown := s_grown s |}.
Definition with_env (s : sstate) (e : list (bytes * jv)) : sstate :=
  {| s_env := e; s_heap := s_heap s; s_out := s_out s; s_flags := s_flags s; s_grown := s_grown s |}.
Definition put (s : sstate) (b : bytes) : sstate :=
  {| s_env := s_env s; s_heap := s_heap s; s_out := b :: s_out s; s_flags := s_flags s; s_grown := s_grown s |}.
Definition soutput (s : sstate) : bytes := concat_bytes (rev (s_out s)).

Definition env_get (e : list (bytes * jv)) (x : bytes) : jv :=
  match lookup x e with Some v => v | None => JUndef end.

Definition to_boolean (s : sstate) (v : jv) : bool * sstate :=
  match v with
  | JUndef | JNul => (false, s)
  | JB b => (b, s)
  | JN z => (negb (Z.eqb z 0), s)
  | JS t => (match t with [] => false | _ => true end, s)
  | JA l => (true, match jget (s_heap s) l with Some (JArrO []) => flag s fl_empty_truthy | _ => s end)
  | JO l => (true, match jget (s_heap s) l with Some (JObjO []) => flag s fl_empty_truthy | _ => s end)
  end.

(* ToString; arrays join with "," (elements null/undefined are empty), objects "[object Object]" *)
Fixpoint to_string (fuel : nat) (h : jheap) (v : jv) : option bytes :=
  match fuel with
  | O => None
  | S f =>
    match v with
    | JUndef => Some (B "undefined")
    | JNul => Some (B "null")
    | JB b => Some (if b then B "true" else B "false")
    | JN z => Some (show_Z z)
    | JS s => Some s
    | JO _ => Some (B "[object Object]")
    | JA l =>
      match jget h l with
      | Some (JArrO items) =>
        let go := fix go (l : list jv) : option (list bytes) :=
          match l with
          | [] => Some []
          | x :: r =>
            match (match x with JUndef | JNul => Some [] | _ => to_string f h x end), go r with
            | Some a, Some b => Some (a :: b)
            | _, _ => None
            end
          end in
        match go items with Some ps => Some (join (B ",") ps) | None => None end
      | _ => None
      end
    end
  end.
Definition is_ref (v : jv) : bool := match v with JA _ | JO _ => true | _ => false end.
Definition tostr (s : sstate) (v : jv) : sres (bytes * sstate) :=
  match to_string (S (S (length (s_heap s)))) (s_heap s) v with
  | Some t => SOk (t, if is_ref v then flag s fl_print_ref else s)
  | None => SOff
  end.

(* what buffered code prints: null / undefined print nothing *)
Definition print_string (s : sstate) (v : jv) : sres (bytes * sstate) :=
  match v with
  | JUndef | JNul => SOk ([], s)
  | _ => tostr s v
  end.

Definition jv_strict_eq (a b : jv) : option bool :=
  match a, b with
  | JN x, JN y => Some (Z.eqb x y)
  | JS x, JS y => Some (beqb x y)
  | JB x, JB y => Some (Bool.eqb x y)
  | _, _ => None                      (* mixed types, null/undefined and references: outside the property's domain *)
  end.

Fixpoint bytes_lt (a b : bytes) : bool :=
  match a, b with
  | [], [] => false
  | [], _ :: _ => true
  | _ :: _, [] => false
  | x :: a', y :: b' =>
    let nx := N_of_ascii x in let ny := N_of_ascii y in
    if N.ltb nx ny then true else if N.ltb ny nx then false else bytes_lt a' b'
  end.

Definition sem_binop (s : sstate) (op : binop) (a b : jv) : sres (jv * sstate) :=
  let cmp (f : Z -> Z -> bool) (g : bytes -> bytes -> bool) : sres (jv * sstate) :=
    match a, b with
    | JN x, JN y => SOk (JB (f x y), s)
    | JS x, JS y => if ascii_only x && ascii_only y then SOk (JB (g x y), s) else SOff
    | _, _ => SOff
    end in
  let arith (f : Z -> Z -> Z) : sres (jv * sstate) :=
    match a, b with
    | JN x, JN y => sdo v <- num (f x y); SOk (v, s)
    | _, _ => SOff
    end in
  let eq (neg : bool) : sres (jv * sstate) :=
    match jv_strict_eq a b with
    | Some r => SOk (JB (if neg then negb r else r), s)
    | None => SOff
    end in
  match op with
  | BAdd =>
    match a, b with
    | JN x, JN y => sdo v <- num (x + y); SOk (v, s)
    | JS x, JS y => SOk (JS (x ++ y), s)
    | JS x, JN y => SOk (JS (x ++ show_Z y), s)
    | JN x, JS y => SOk (JS (show_Z x ++ y), flag s fl_num_plus_str)
    | _, _ => SOff
    end
  | BSub => arith Z.sub
  | BMul => arith Z.mul
  | BDiv =>
    match a, b with
    | JN x, JN y => if Z.eqb y 0 then SOff else if Z.eqb (Z.rem x y) 0 then sdo v <- num (Z.quot x y); SOk (v, s) else SOff
    | _, _ => SOff
    end
  | BMod =>
    match a, b with
    | JN x, JN y => if Z.eqb y 0 then SOff else sdo v <- num (Z.rem x y); SOk (v, s)
    | _, _ => SOff
    end
  | BLt => cmp Z.ltb bytes_lt
  | BGt => cmp Z.gtb (fun x y => bytes_lt y x)
  | BLe => cmp Z.leb (fun x y => negb (bytes_lt y x))
  | BGe => cmp Z.geb (fun x y => negb (bytes_lt x y))
  | BEq | BSEq => eq false
  | BNe | BSNe => eq true
  | _ => SOff
  end.

(* ---- Array / String methods (ECMA-262) on in-range arguments ------------------------ *)
Fixpoint ins_sorted (lt : bytes -> bytes -> bool) (x : bytes * jv) (l : list (bytes * jv)) : list (bytes * jv) :=
  match l with
  | [] => [x]
  | y :: r => if lt (fst x) (fst y) then x :: y :: r else y :: ins_sorted lt x r
  end.
(* stable: an element is placed after the equal ones already there when folding from the right *)
Definition stable_sort (l : list (bytes * jv)) : list (bytes * jv) :=
  fold_right (fun x acc => ins_sorted (fun a b => negb (bytes_lt b a)) x acc) [] l.

Fixpoint idx_of (sub s : bytes) (i : Z) (fuel : nat) : Z :=
  match fuel with
  | O => -1
  | S f => if prefixb sub s then i else match s with [] => -1 | _ :: r => idx_of sub r (i + 1) f end
  end.
Fixpoint split_by (fuel : nat) (sep s acc : bytes) : list bytes :=
  match fuel with
  | O => [rev acc ++ s]
  | S f =>
    match s with
    | [] => [rev acc]
    | c :: r => if prefixb sep s then rev acc :: split_by f sep (skipn (length sep) s) []
                else split_by f sep r (c :: acc)
    end
  end.
Definition up (c : ascii) : ascii :=
  let n := N_of_ascii c in if N.leb 97 n && N.leb n 122 then ascii_of_N (n - 32) else c.
Definition low (c : ascii) : ascii :=
  let n := N_of_ascii c in if N.leb 65 n && N.leb n 90 then ascii_of_N (n + 32) else c.

Definition sem_array_method (s : sstate) (l : nat) (name : bytes) (args : list jv) : sres (jv * sstate) :=
  match jget (s_heap s) l with
  | Some (JArrO items) =>
    let n := Z.of_nat (length items) in
    let upd (items' : list jv) := with_heap s (jset (s_heap s) l (JArrO items')) in
    if beqb name (B "push") then
      match args with [v] => SOk (JN (n + 1), flag (upd (items ++ [v])) fl_push_result) | _ => SOff end
    else if beqb name (B "pop") then
      match rev items with [] => SOk (JUndef, s) | x :: r => SOk (x, upd (rev r)) end
    else if beqb name (B "shift") then
      match items with [] => SOk (JUndef, s) | x :: r => SOk (x, upd r) end
    else if beqb name (B "unshift") then
      match args with [] => SOff | _ => SOk (JN (n + Z.of_nat (length args)), upd (args ++ items)) end
    else if beqb name (B "sort") then
      let keyed := fix go (l : list jv) : option (list (bytes * jv)) :=
        match l with
        | [] => Some []
        | x :: r =>
          match x, go r with
          | JN z, Some b => Some ((show_Z z, x) :: b)
          | JS t, Some b => if ascii_only t then Some ((t, x) :: b) else None
          | _, _ => None
          end
        end in
      match keyed items with
      | Some kv => SOk (JA l, flag (upd (map snd (stable_sort kv))) fl_push_result)
      | None => SOff
      end
    else if beqb name (B "splice") then
      match args with
      | [JN z] =>
        if Z.ltb z 0 || Z.ltb n z then SOff else
        let k := Z.to_nat z in
        let s1 := upd (firstn k items) in
        let '(loc, h2) := jalloc (s_heap s1) (JArrO (skipn k items)) in SOk (JA loc, with_heap s1 h2)
      | _ => SOff
      end
    else if beqb name (B "slice") then
      match args with
      | [JN z] =>
        if Z.ltb z 0 || Z.ltb n z then SOff else
        let '(loc, h2) := jalloc (s_heap s) (JArrO (skipn (Z.to_nat z) items)) in SOk (JA loc, with_heap s h2)
      | _ => SOff
      end
    else if beqb name (B "indexOf") then
      match args with
      | [w] =>
        let go := fix go (l : list jv) (i : Z) : option Z :=
          match l with
          | [] => Some (-1)
          | x :: r =>
            match x, w with
            | JN a, JN b => if Z.eqb a b then Some i else go r (i + 1)
            | JS a, JS b => if beqb a b then Some i else go r (i + 1)
            | JB a, JB b => if Bool.eqb a b then Some i else go r (i + 1)
            | (JA _ | JO _), _ | _, (JA _ | JO _) => None
            | _, _ => go r (i + 1)               (* different primitive types are never strictly equal *)
            end
          end in
        match go items 0 with Some i => SOk (JN i, s) | None => SOff end
      | _ => SOff
      end
    else if beqb name (B "join") then
      match args with
      | [JS sep] =>
        let go := fix go (l : list jv) : option (list bytes) :=
          match l with
          | [] => Some []
          | x :: r =>
            match x, go r with
            | JN z, Some b => Some (show_Z z :: b)
            | JS t, Some b => Some (t :: b)
            | JB t, Some b => Some ((if t then B "true" else B "false") :: b)
            | (JUndef | JNul), Some b => Some ([] :: b)
            | _, _ => None
            end
          end in
        match go items with Some ps => SOk (JS (join sep ps), s) | None => SOff end
      | _ => SOff
      end
    else SOff
  | _ => SOff
  end.

Definition sem_string_method (s : sstate) (t : bytes) (name : bytes) (args : list jv) : sres (jv * sstate) :=
  if negb (ascii_only t) then SOff else
  let n := Z.of_nat (length t) in
  if beqb name (B "charAt") then
    match args with
    | [JN i] => if Z.ltb i 0 then SOff else
                SOk (JS (match nth_error t (Z.to_nat i) with Some c => [c] | None => [] end), s)
    | _ => SOff
    end
  else if beqb name (B "indexOf") then
    match args with
    | [JS sub] => if ascii_only sub then SOk (JN (idx_of sub t 0 (S (length t))), s) else SOff
    | _ => SOff
    end
  else if beqb name (B "slice") then
    let norm (i : Z) : option Z :=
      let j := if Z.ltb i 0 then n + i else i in
      if Z.ltb j 0 || Z.ltb n j then None else Some j in
    match args with
    | [JN a] =>
      match norm a with Some f => SOk (JS (skipn (Z.to_nat f) t), s) | None => SOff end
    | [JN a; JN b] =>
      match norm a, norm b with
      | Some f, Some u => if Z.ltb u f then SOff else SOk (JS (firstn (Z.to_nat (u - f)) (skipn (Z.to_nat f) t)), s)
      | _, _ => SOff
      end
    | _ => SOff
    end
  else if beqb name (B "split") then
    match args with
    | [JS sep] =>
      if negb (ascii_only sep) then SOff else
      let parts := match sep with
                   | [] => map (fun c => [c]) t
                   | _ => split_by (S (length t)) sep t []
                   end in
      let '(loc, h2) := jalloc (s_heap s) (JArrO (map JS parts)) in SOk (JA loc, with_heap s h2)
    | _ => SOff
    end
  else if beqb name (B "toUpperCase") then match args with [] => SOk (JS (map up t), s) | _ => SOff end
  else if beqb name (B "toLowerCase") then match args with [] => SOk (JS (map low t), s) | _ => SOff end
  else SOff.

(* ---- expressions ------------------------------------------------------------------------ *)
Fixpoint sem_expr (fuel : nat) (s : sstate) (e : jexpr) {struct fuel} : sres (jv * sstate) :=
  match fuel with
  | O => SFuel
  | S f =>
    let eval_list := fix go (s : sstate) (es : list jexpr) : sres (list jv * sstate) :=
      match es with
      | [] => SOk ([], s)
      | x :: r =>
        sdo a <- sem_expr f s x; let '(v, s1) := a in
        sdo b <- go s1 r; let '(vs, s2) := b in SOk (v :: vs, s2)
      end in
    match e with
    | JId x => SOk (env_get (s_env s) x, s)
    | JNum z => sdo v <- num z; SOk (v, s)
    | JStr t => SOk (JS t, s)
    | JBool b => SOk (JB b, s)
    | JNull => SOk (JNul, s)
    | JArr es =>
      sdo a <- eval_list s es; let '(vs, s1) := a in
      let '(loc, h2) := jalloc (s_heap s1) (JArrO vs) in SOk (JA loc, with_heap s1 h2)
    | JObj kvs =>
      let go := fix go (s : sstate) (l : list (bytes * jexpr)) (acc : list (bytes * jv)) : sres (list (bytes * jv) * sstate) :=
        match l with
        | [] => SOk (acc, s)
        | (k, x) :: r =>
          (* a key written twice keeps its first position and gets the last value (ECMA-262 CreateDataProperty) *)
          sdo a <- sem_expr f s x; let '(v, s1) := a in go s1 r (insert k v acc)
        end in
      sdo a <- go s kvs []; let '(props, s1) := a in
      let '(loc, h2) := jalloc (s_heap s1) (JObjO props) in SOk (JO loc, with_heap s1 h2)
    | JDot o name =>
      sdo a <- sem_expr f s o; let '(v, s1) := a in
      match v with
      | JO l =>
        match jget (s_heap s1) l with
        | Some (JObjO props) => SOk (match lookup name props with Some x => x | None => JUndef end, s1)
        | _ => SOff
        end
      | JA l =>
        if beqb name (B "length") then
          match jget (s_heap s1) l with
          | Some (JArrO items) => SOk (JN (Z.of_nat (length items)), s1)
          | _ => SOff
          end
        else SOff
      | JS t => if beqb name (B "length") then
                  if ascii_only t then SOk (JN (Z.of_nat (length t)), s1) else SOff
                else SOff
      | _ => SOff             (* member of undefined/null throws in JavaScript; C11 covers data paths *)
      end
    | JIdx o i =>
      sdo a <- sem_expr f s o; let '(v, s1) := a in
      sdo b <- sem_expr f s1 i; let '(k, s2) := b in
      match v, k with
      | JA l, JN z =>
        match jget (s_heap s2) l with
        | Some (JArrO items) =>
          if Z.ltb z 0 then SOff else
          SOk (match nth_error items (Z.to_nat z) with Some x => x | None => JUndef end, s2)
        | _ => SOff
        end
      | JO l, JS key =>
        match jget (s_heap s2) l with
        | Some (JObjO props) => match lookup key props with Some x => SOk (x, s2) | None => SOff end
        | _ => SOff
        end
      | JS t, JN z =>
        if negb (ascii_only t) || Z.ltb z 0 then SOff else
        SOk (match nth_error t (Z.to_nat z) with Some c => JS [c] | None => JUndef end, flag s2 fl_str_index)
      | _, _ => SOff
      end
    | JCall (JDot o name) args =>
      sdo a <- sem_expr f s o; let '(v, s1) := a in
      sdo b <- eval_list s1 args; let '(vs, s2) := b in
      match v with
      | JA l => sem_array_method s2 l name vs
      | JS t => sem_string_method s2 t name vs
      | _ => SOff
      end
    | JUn UNot _ x =>
      sdo a <- sem_expr f s x; let '(v, s1) := a in
      let '(b, s2) := to_boolean s1 v in SOk (JB (negb b), s2)
    | JUn UNeg _ x =>
      sdo a <- sem_expr f s x; let '(v, s1) := a in
      match v with JN z => sdo r <- num (- z); SOk (r, s1) | _ => SOff end
    (* the unevaluated operand / branch must be inside the domain too (the engine evaluates it eagerly;
       without side effects and errors that is unobservable): it is evaluated for the domain check only *)
    | JBin BAnd l r =>
      sdo a <- sem_expr f s l; let '(v, s1) := a in
      let '(b, s2) := to_boolean s1 v in
      if b then sem_expr f s2 r else (sdo _ <- sem_expr f s2 r; SOk (v, s2))
    | JBin BOr l r =>
      sdo a <- sem_expr f s l; let '(v, s1) := a in
      let '(b, s2) := to_boolean s1 v in
      if b then (sdo _ <- sem_expr f s2 r; SOk (v, s2)) else sem_expr f s2 r
    | JBin op l r =>
      sdo a <- sem_expr f s l; let '(x, s1) := a in
      sdo b <- sem_expr f s1 r; let '(y, s2) := b in
      sem_binop s2 op x y
    | JCond c a b =>
      sdo t <- sem_expr f s c; let '(v, s1) := t in
      let '(tb, s2) := to_boolean s1 v in
      sdo _ <- sem_expr f s2 (if tb then b else a);
      sem_expr f s2 (if tb then a else b)
    | _ => SOff
    end
  end.

Definition efuel : nat := 200.

(* ---- environments ---------------------------------------------------------------------------- *)
Definition env_set (e : list (bytes * jv)) (x : bytes) (v : jv) : list (bytes * jv) := insert x v e.

(* ---- attributes (what the property prescribes) ------------------------------------------------ *)
(* class entries: strings, or arrays of strings with false/null/undefined entries dropped *)
Definition class_pieces (s : sstate) (v : jv) : sres (list bytes) :=
  match v with
  | JS t => SOk [t]
  | JN z => SOk [show_Z z]
  | JUndef | JNul | JB false => SOk []
  | JA l =>
    match jget (s_heap s) l with
    | Some (JArrO items) =>
      (fix go (l : list jv) : sres (list bytes) :=
         match l with
         | [] => SOk []
         | JS t :: r => sdo b <- go r; SOk (t :: b)
         | JN z :: r => sdo b <- go r; SOk (show_Z z :: b)
         | (JUndef | JNul | JB false) :: r => go r
         | _ => SOff
         end) items
    | _ => SOff
    end
  | _ => SOff
  end.

Inductive aval := AVText (t : bytes) | AVTrue | AVOmit | AVClass (pieces : list bytes).

Definition attr_value_of (s : sstate) (name : bytes) (v : jv) : sres aval :=
  if beqb name (B "class") then sdo p <- class_pieces s v; SOk (AVClass p)
  else match v with
       | JS t => SOk (AVText t)
       | JN z => SOk (AVText (show_Z z))
       | JB true => SOk AVTrue
       | JB false | JNul | JUndef => SOk AVOmit
       | _ => SOff
       end.

(* one attribute list -> ` name="value"`... : first-occurrence order, class merged, no duplicates otherwise *)
Fixpoint merge_attrs (l : list (bytes * aval)) (acc : list (bytes * aval)) : option (list (bytes * aval)) :=
  match l with
  | [] => Some acc
  | (n, v) :: r =>
    match lookup n acc, v with
    | None, _ => merge_attrs r (acc ++ [(n, v)])
    | Some (AVClass p), AVClass q => merge_attrs r (insert n (AVClass (p ++ q)) acc)
    | Some _, _ => None                 (* a repeated non-class name: outside the domain *)
    end
  end.

Definition name_ok (n : bytes) : bool :=
  match n with [] => false | _ => forallb (fun c => let k := N_of_ascii c in
     (N.leb 97 k && N.leb k 122) || (N.leb 65 k && N.leb k 90) || (N.leb 48 k && N.leb k 57)
     || N.eqb k 45 || N.eqb k 95 || N.eqb k 58) n end.

Definition ws_free_edges (t : bytes) : bool :=
  (* the engine trims the joined class text; pieces without inner edge space keep that invisible *)
  match t, rev t with
  | c :: _, d :: _ => negb (Ascii.eqb c " ") && negb (Ascii.eqb d " ")
  | _, _ => true
  end.

Fixpoint render_attr_list (l : list (bytes * aval)) : option bytes :=
  match l with
  | [] => Some []
  | (n, v) :: r =>
    if negb (name_ok n) then None else
    match render_attr_list r with
    | None => None
    | Some rest =>
      match v with
      | AVOmit => Some rest
      | AVTrue => Some (B " " ++ n ++ B "=""" ++ n ++ B """" ++ rest)
      | AVText t => if ascii_only t then Some (B " " ++ n ++ B "=""" ++ escape t ++ B """" ++ rest) else
                    Some (B " " ++ n ++ B "=""" ++ escape t ++ B """" ++ rest)
      | AVClass ps =>
        let ps' := filter (fun p => match p with [] => false | _ => true end) ps in
        if negb (forallb ws_free_edges ps') then None else
        match ps' with
        | [] => Some rest
        | _ => Some (B " class=""" ++ escape (join (B " ") ps') ++ B """" ++ rest)
        end
      end
    end
  end.

(* ---- pug nodes ------------------------------------------------------------------------------------ *)
Inductive closure := Closure (env : list (bytes * jv)) (nodes : list pnode) (block : option closure).
Definition c_env (c : closure) := let '(Closure e _ _) := c in e.
Definition c_nodes (c : closure) := let '(Closure _ n _) := c in n.
Definition c_block (c : closure) := let '(Closure _ _ b) := c in b.

Record mixin := { m_params : list bytes; m_body : list pnode }.

(* HTML5 (W3C Recommendation 2014, section 8.1.2) plus `command`, void in the HTML5 drafts of 2011-2013 *)
Definition void_tags : list bytes :=
  [B "area"; B "base"; B "br"; B "col"; B "embed"; B "hr"; B "img"; B "input"; B "keygen"; B "link";
   B "meta"; B "param"; B "source"; B "track"; B "wbr"; B "command"].

Definition while_limit : nat := 100 * 100.       (* completed iterations allowed; a test still true after that many is the prescribed error *)

Section Nodes.
  Variable globals : list (bytes * jv).          (* page data: what a mixin body sees *)

  Fixpoint sem_stmt (fuel : nat) (esc buffered : bool) (s : sstate) (st : jstmt) {struct fuel} : sres sstate :=
    match fuel with
    | O => SFuel
    | S f =>
      match st with
      | SExpr (JAssign None (JId x) r) =>
        sdo a <- sem_expr efuel s r; let '(v, s1) := a in SOk (with_env s1 (env_set (s_env s1) x v))
      | SExpr (JAssign None (JDot (JId o) k) r) =>
        sdo a <- sem_expr efuel s r; let '(v, s1) := a in
        match env_get (s_env s1) o with
        | JO l =>
          match jget (s_heap s1) l with
          | Some (JObjO props) =>
            let s2 := with_heap s1 (jset (s_heap s1) l (JObjO (insert k v props))) in
            SOk (match props with
                 | [] => {| s_env := s_env s2; s_heap := s_heap s2; s_out := s_out s2; s_flags := s_flags s2;
                            s_grown := l :: s_grown s2 |}
                 | _ => s2 end)
          | _ => SOff
          end
        | _ => SOff
        end
      | SExpr (JAssign _ _ _) => SOff
      | SExpr (JUn UInc _ (JId x)) =>
        match env_get (s_env s) x with
        | JN z => sdo v <- num (z + 1); SOk (with_env s (env_set (s_env s) x v))
        | _ => SOff
        end
      | SExpr e =>
        sdo a <- sem_expr efuel s e; let '(v, s1) := a in
        if buffered then
          sdo p <- print_string s1 v; let '(t, s2) := p in
          SOk (put s2 (if esc then escape t else t))
        else SOk s1
      | SVar ds =>
        (fix go (s : sstate) (l : list jexpr) : sres sstate :=
           match l with
           | [] => SOk s
           | JVar x None :: r => go (with_env s (env_set (s_env s) x JUndef)) r
           | JVar x (Some i) :: r =>
             sdo a <- sem_expr efuel s i; let '(v, s1) := a in go (with_env s1 (env_set (s_env s1) x v)) r
           | _ => SOff
           end) s ds
      | SBlock l =>
        (fix go (s : sstate) (l : list jstmt) : sres sstate :=
           match l with [] => SOk s | x :: r => sdo s1 <- sem_stmt f esc buffered s x; go s1 r end) s l
      | SIf c t e =>
        sdo a <- sem_expr efuel s c; let '(v, s1) := a in
        let '(b, s2) := to_boolean s1 v in
        if b then sem_stmt f esc buffered s2 t
        else match e with Some e' => sem_stmt f esc buffered s2 e' | None => SOk s2 end
      | SOther => SOff
      end
    end.

  Definition is_buffered (stmts : list jstmt) (esc : bool) : bool :=
    (* `= e` / `!= e` are single expression statements; `- ...` is unbuffered.  The AST does not carry the
       buffer flag into the model, so: escaped => buffered; unescaped single call/identifier => treated as buffered `!=` *)
    esc.

  Fixpoint sem_nodes (fuel : nat) (mixins : list (bytes * mixin)) (blk : option closure)
                     (s : sstate) (ns : list pnode) {struct fuel} : sres (sstate * list (bytes * mixin)) :=
    match fuel with
    | O => SFuel
    | S f =>
      match ns with
      | [] => SOk (s, mixins)
      | n :: r =>
        sdo a <- sem_node f mixins blk s n; let '(s1, m1) := a in sem_nodes f m1 blk s1 r
      end
    end

  with sem_node (fuel : nat) (mixins : list (bytes * mixin)) (blk : option closure)
                (s : sstate) (n : pnode) {struct fuel} : sres (sstate * list (bytes * mixin)) :=
    match fuel with
    | O => SFuel
    | S f =>
      let eval_attrs := fix go (s : sstate) (l : list pattr) : sres (list (bytes * aval) * sstate) :=
        match l with
        | [] => SOk ([], s)
        | a :: r =>
          sdo x <- sem_expr efuel s (pa_val a); let '(v, s1) := x in
          sdo av <- attr_value_of s1 (pa_name a) v;
          sdo y <- go s1 r; let '(rest, s2) := y in SOk ((pa_name a, av) :: rest, s2)
        end in
      match n with
      | PComment => SOk (s, mixins)
      | PBlock l => sem_nodes f mixins blk s l
      | PText t => SOk (put s t, mixins)
      | PDoctype v => SOk (put s (B "<!DOCTYPE " ++ v ++ B ">" ++ [ascii_of_N 10]), mixins)
      | PCode stmts esc _ =>
        let buffered := match stmts with
                        | [SExpr (JAssign _ _ _)] | [SExpr (JUn UInc _ _)] => false
                        | [SExpr _] => true
                        | _ => false
                        end in
        (fix go (s : sstate) (l : list jstmt) : sres (sstate * list (bytes * mixin)) :=
           match l with
           | [] => SOk (s, mixins)
           | x :: r => sdo s1 <- sem_stmt f esc buffered s x; go s1 r
           end) s stmts
      | PTag name _ attrs ablocks body =>
        sdo a <- eval_attrs s attrs; let '(avs, s1) := a in
        (* &attributes(obj): its entries after the tag's own attributes, in the object's order *)
        sdo sp <- (match ablocks with
                   | [] => SOk []
                   | [ab] =>
                     match env_get (s_env s1) ab with
                     | JO l =>
                       match jget (s_heap s1) l with
                       | Some (JObjO props) =>
                         (fix go (l : list (bytes * jv)) : sres (list (bytes * aval)) :=
                            match l with
                            | [] => SOk []
                            | (k, v) :: r => sdo av <- attr_value_of s1 k v; sdo b <- go r; SOk ((k, av) :: b)
                            end) props
                       | _ => SOff
                       end
                     | _ => SOff
                     end
                   | _ => SOff
                   end);
        match merge_attrs (avs ++ sp) [] with
        | None => SOff
        | Some merged =>
          match render_attr_list merged with
          | None => SOff
          | Some at_ =>
            let s2 := put s1 (B "<" ++ name ++ at_ ++ B ">") in
            if mem name void_tags then SOk (s2, mixins)
            else
              sdo b <- sem_nodes f mixins blk s2 body; let '(s3, m3) := b in
              SOk (put s3 (B "</" ++ name ++ B ">"), m3)
          end
        end
      | PCond test cons_ alt =>
        sdo a <- sem_expr efuel s test; let '(v, s1) := a in
        let '(b, s2) := to_boolean s1 v in
        if b then sem_nodes f mixins blk s2 cons_
        else match alt with
             | Some a' => sem_node f mixins blk s2 a'
             | None => SOk (s2, mixins)
             end
      | PCase e whens =>
        sdo a <- sem_expr efuel s e; let '(v, s1) := a in
        let go := fix go (s : sstate) (l : list (option jexpr * list pnode)) : sres (option (list pnode) * sstate) :=
          match l with
          | [] => SOk (None, s)
          | (None, _) :: r => go s r
          | (Some w, body) :: r =>
            sdo b <- sem_expr efuel s w; let '(wv, s1) := b in
            match jv_strict_eq v wv with
            | Some true => SOk (Some body, s1)
            | Some false => go s1 r
            | None => SOff
            end
          end in
        sdo c <- go s1 whens; let '(hit, s2) := c in
        match hit with
        | Some body => sem_nodes f mixins blk s2 body
        | None =>
          match fold_left (fun acc w => match fst w with None => Some (snd w) | Some _ => acc end) whens None with
          | Some body => sem_nodes f mixins blk s2 body
          | None => SOk (s2, mixins)
          end
        end
      | PEach v k obj body =>
        sdo a <- sem_expr efuel s obj; let '(c, s0) := a in
        let saved_v := lookup v (s_env s0) in
        let saved_k := match k with Some k' => lookup k' (s_env s0) | None => None end in
        let s1 := match saved_v, saved_k with None, None => s0 | _, _ => flag s0 fl_loop_shadow end in
        let restore (s : sstate) : sstate :=
          (* loop variables are scoped to the loop *)
          let e1 := match saved_v with Some x => env_set (s_env s) v x | None => filter (fun p => negb (beqb (fst p) v)) (s_env s) end in
          let e2 := match k with
                    | Some k' => match saved_k with Some x => env_set e1 k' x | None => filter (fun p => negb (beqb (fst p) k')) e1 end
                    | None => e1 end in
          with_env s e2 in
        let iter := fix go (fuel2 : nat) (s : sstate) (m : list (bytes * mixin)) (pairs : list (jv * jv))
            : sres (sstate * list (bytes * mixin)) :=
          match pairs with
          | [] => SOk (s, m)
          | (kv, vv) :: r =>
            let e1 := env_set (s_env s) v vv in
            let e2 := match k with Some k' => env_set e1 k' kv | None => e1 end in
            sdo b <- sem_nodes f m blk (with_env s e2) body; let '(s2, m2) := b in
            go fuel2 s2 m2 r
          end in
        match c with
        | JA l =>
          match jget (s_heap s1) l with
          | Some (JArrO items) =>
            sdo r <- iter O s1 mixins (combine (map (fun i => JN (Z.of_nat i)) (seq 0 (length items))) items);
            let '(s2, m2) := r in SOk (restore s2, m2)
          | _ => SOff
          end
        | JO l =>
          match jget (s_heap s1) l with
          | Some (JObjO props) =>
            let s1' := if existsb (Nat.eqb l) (s_grown s1) then flag s1 fl_obj_grown else s1 in
            sdo r <- iter O s1' mixins (map (fun p => (JS (fst p), snd p)) props);
            let '(s2, m2) := r in SOk (restore s2, m2)
          | _ => SOff
          end
        | JUndef | JNul => SOk (s1, mixins)
        | _ => SOff
        end
      | PWhile test body =>
        (fix loop (budget : nat) (fuel2 : nat) (s : sstate) (m : list (bytes * mixin)) {struct fuel2}
           : sres (sstate * list (bytes * mixin)) :=
           match fuel2 with
           | O => SFuel
           | S f2 =>
             sdo a <- sem_expr efuel s test; let '(v, s1) := a in
             match v with
             | JB false => SOk (s1, m)
             | JB true =>
               match budget with
               | O =>
                 (* the bound is used up and the test is still true: the prescribed error.  The engine notices
                    after one more round (body, test); S runs that round too, so that a round which is itself
                    outside the domain makes the whole case outside the domain *)
                 sdo r <- sem_nodes f m blk s1 body; let '(s2, _) := r in
                 sdo t <- sem_expr efuel s2 test; SErr (s_flags (snd t))
               | S b =>
                 sdo r <- sem_nodes f m blk s1 body; let '(s2, m2) := r in loop b f2 s2 m2
               end
             | _ => SOff                           (* non-boolean tests: outside the domain *)
             end
           end) while_limit f s mixins
      | PMixinDef name params body =>
        match lookup name mixins with
        | Some _ => SOff                                 (* redefinition: outside the domain *)
        | None => SOk (s, mixins ++ [(name, {| m_params := params; m_body := body |})])
        end
      | PMixinBlock =>
        match blk with
        | None => SOk (s, mixins)
        | Some c =>
          (* the block runs with the caller's variables as they were at the call, and the caller's own block *)
          sdo r <- sem_nodes f mixins (c_block c)
                             (with_env s (c_env c)) (c_nodes c);
          let '(s2, _) := r in SOk (with_env s2 (s_env s), mixins)
        end
      | PMixinCall name args attrs body =>
        match lookup name mixins with
        | None => SOff
        | Some mx =>
          let eval_list := fix go (s : sstate) (es : list jexpr) : sres (list jv * sstate) :=
            match es with
            | [] => SOk ([], s)
            | x :: r =>
              sdo a <- sem_expr efuel s x; let '(v, s1) := a in
              sdo b <- go s1 r; let '(vs, s2) := b in SOk (v :: vs, s2)
            end in
          sdo a <- eval_list s args; let '(argv, s1) := a in
          let eval_props := fix go (s : sstate) (l : list pattr) (acc : list (bytes * jv)) : sres (list (bytes * jv) * sstate) :=
            match l with
            | [] => SOk (acc, s)
            | a :: r =>
              if mem (pa_name a) (keys acc) then SOff else
              sdo x <- sem_expr efuel s (pa_val a); let '(v, s1) := x in go s1 r (acc ++ [(pa_name a, v)])
            end in
          sdo b <- eval_props s1 attrs []; let '(props, s2) := b in
          (* `attributes`: the object's contents decide the order; canonical = sorted by name *)
          let sorted := fold_right (fun p acc => ins_sorted bytes_lt p acc) [] props in
          let '(aloc, h3) := jalloc (s_heap s2) (JObjO sorted) in
          let s3 := with_heap s2 h3 in
          let bind := fix go (ps : list bytes) (vs : list jv) (e : list (bytes * jv)) : list (bytes * jv) :=
            match ps with
            | [] => e
            | p :: r => match vs with
                        | v :: vr => go r vr (env_set e p v)
                        | [] => go r [] (env_set e p JUndef)
                        end
            end in
          let callee_env := env_set (bind (m_params mx) argv globals) (B "attributes") (JO aloc) in
          let newblk := match body with
                        | [] => None
                        | _ => Some (Closure (s_env s3) body blk)
                        end in
          sdo r <- sem_nodes f mixins newblk (with_env s3 callee_env) (m_body mx);
          let '(s4, _) := r in
          SOk (with_env s4 (s_env s3), mixins)
        end
      end
    end.
End Nodes.

(* ---- data ------------------------------------------------------------------------------------------ *)
Inductive sdata :=
| SDNil | SDBool (b : bool) | SDInt (z : Z) | SDStr (s : bytes)
| SDArr (l : list sdata) | SDMap (l : list (bytes * sdata)).

(* data objects: the keys' sorted order is their insertion order *)
Fixpoint sdata_val (h : jheap) (d : sdata) {struct d} : jv * jheap :=
  match d with
  | SDNil => (JNul, h)
  | SDBool b => (JB b, h)
  | SDInt z => (JN z, h)
  | SDStr s => (JS s, h)
  | SDArr l =>
    let '(items, h1) :=
      (fix go (l : list sdata) (h : jheap) : list jv * jheap :=
         match l with
         | [] => ([], h)
         | x :: r => let '(v, h1) := sdata_val h x in let '(vs, h2) := go r h1 in (v :: vs, h2)
         end) l h in
    let '(loc, h2) := jalloc h1 (JArrO items) in (JA loc, h2)
  | SDMap l =>
    let '(props, h1) :=
      (fix go (l : list (bytes * sdata)) (h : jheap) : list (bytes * jv) * jheap :=
         match l with
         | [] => ([], h)
         | (k, x) :: r => let '(v, h1) := sdata_val h x in let '(vs, h2) := go r h1 in ((k, v) :: vs, h2)
         end) l h in
    let sorted := fold_right (fun p acc => ins_sorted bytes_lt p acc) [] props in
    let '(loc, h2) := jalloc h1 (JObjO sorted) in (JO loc, h2)
  end.

Inductive sout := SOut (out : bytes) (flags : list nat) | SError (flags : list nat) | SOffDomain | SNoFuel.

Definition sem_fuel : nat := 150 * 150.

Definition sem_run (nodes : list pnode) (data : list (bytes * sdata)) : sout :=
  let '(env, h) :=
    (fix go (l : list (bytes * sdata)) (h : jheap) : list (bytes * jv) * jheap :=
       match l with
       | [] => ([], h)
       | (k, x) :: r => let '(v, h1) := sdata_val h x in let '(e, h2) := go r h1 in (insert k v e, h2)
       end) data [] in
  let s0 := {| s_env := env; s_heap := h; s_out := []; s_flags := []; s_grown := [] |} in
  match sem_nodes env sem_fuel [] None s0 nodes with
  | SOk (s, _) => SOut (soutput s) (s_flags s)
  | SErr fl => SError fl
  | SOff => SOffDomain
  | SFuel => SNoFuel
  end.
