(* Printers for C15's specification side: an expression tree is printed according to the
   independent precedence table Js/Prec.v, either with the minimal parentheses the table
   demands ([jshow_min]) or with every operand parenthesised ([jshow_full]).
   Nothing here runs the parser model; only its token vocabulary (Lex.tok) and the tree
   type (Parse.expr) are shared.  Tokens are separated by single spaces. *)
From PV Require Import Base.Bytes Js.Ast Js.Lex Js.Parse Js.Prec.

Definition prec_of (e : expr) : nat :=
  match e with
  | ESeq _ => p_seq
  | EAssign _ _ _ => p_assign
  | ECond _ _ _ => p_cond
  | EBin op _ _ => bin_prec op
  | EUn _ false _ => p_unary
  | EUn _ true _ => p_postfix
  | EDot _ _ | EIdx _ _ | ECall _ _ | ENew _ _ => p_call
  | _ => p_primary
  end.

Definition binop_tok (op : binop) : tok :=
  match op with
  | BAdd => TP PPlus | BSub => TP PMinus | BMul => TP PMul | BDiv => TP PSlash | BMod => TP PRem
  | BLt => TP PLt | BGt => TP PGt | BLe => TP PLe | BGe => TP PGe
  | BEq => TP PEq | BSEq => TP PSEq | BNe => TP PNe | BSNe => TP PSNe
  | BAnd => TP PLAnd | BOr => TP PLOr
  | BBitAnd => TP PAnd | BBitOr => TP POr | BBitXor => TP PXor
  | BShl => TP PShl | BShr => TP PShr | BUShr => TP PUShr
  | BInstanceof => TKw KInstanceof | BIn => TKw KIn
  end.

Definition unop_tok (op : unop) : tok :=
  match op with
  | UNot => TP PNot | UNeg => TP PMinus | UPlus => TP PPlus | UBitNot => TP PBitNot
  | UTypeof => TKw KTypeof | UDelete => TKw KDelete | UVoid => TKw KVoid
  | UInc => TP PInc | UDec => TP PDec
  end.

(* the compound assignment operators of 11.13 *)
Definition assign_tok (op : option binop) : option tok :=
  match op with
  | None => Some (TP PAssign)
  | Some BAdd => Some (TP PAddA) | Some BSub => Some (TP PSubA) | Some BMul => Some (TP PMulA)
  | Some BDiv => Some (TP PQuoA) | Some BMod => Some (TP PRemA) | Some BBitAnd => Some (TP PAndA)
  | Some BBitOr => Some (TP POrA) | Some BBitXor => Some (TP PXorA) | Some BShl => Some (TP PShlA)
  | Some BShr => Some (TP PShrA) | Some BUShr => Some (TP PUShrA)
  | Some _ => None
  end.

(* the word a dotted name is written as (it may be a reserved word: a.class, a.in) *)
Definition word_tok (x : bytes) : tok :=
  match x with
  | [_] => TId x
  | _ => fst (classify_ident x)
  end.

(* `new` takes a MemberExpression: no call may show on the unparenthesised left spine *)
Fixpoint no_call_spine (e : expr) : bool :=
  match e with
  | ECall _ _ => false
  | EDot a _ | EIdx a _ => no_call_spine a
  | _ => true
  end.

Definition wrap (ts : list tok) : list tok := TP PLParen :: ts ++ [TP PRParen].

Fixpoint commas (l : list (list tok)) : list tok :=
  match l with
  | [] => []
  | [x] => x
  | x :: r => x ++ TP PComma :: commas r
  end.

Definition key_tok (k : bytes) : tok := TStr (c_dq :: k ++ [c_dq]).

Section Printer.
  Variable full : bool.     (* true: parenthesise every operand *)

  (* an operand whose tokens are [r] and whose precedence is [p], in a position that
     demands at least [need] *)
  Definition par (r : list tok) (p need : nat) : list tok :=
    if full || (p <? need) then wrap r else r.

  Fixpoint raw (e : expr) : list tok :=
    match e with
    | EId x => [TId x]
    | ENum lit => [TNum lit]
    | EStr q v => [TStr (q :: v ++ [q])]
    | EBool b => [TBool b]
    | ENull => [TNull]
    | EThis => [TKw KThis]
    | EHole => []
    | EArr es =>
      TP PLBrack :: commas (map (fun x => par (raw x) (prec_of x) p_assign) es) ++ [TP PRBrack]
    | EObj kvs =>
      TP PLBrace ::
      commas (map (fun kv => match kv with
                             | (k, v) => key_tok k :: TP PColon :: par (raw v) (prec_of v) p_assign
                             end) kvs) ++ [TP PRBrace]
    | EDot a x => par (raw a) (prec_of a) p_call ++ [TP PPeriod; word_tok x]
    | EIdx a i => par (raw a) (prec_of a) p_call ++ TP PLBrack :: par (raw i) (prec_of i) p_seq ++ [TP PRBrack]
    | ECall f args =>
      par (raw f) (prec_of f) p_call ++
      TP PLParen :: commas (map (fun x => par (raw x) (prec_of x) p_assign) args) ++ [TP PRParen]
    | ENew f args =>
      TKw KNew :: (if no_call_spine f then par (raw f) (prec_of f) p_call else wrap (raw f)) ++
      TP PLParen :: commas (map (fun x => par (raw x) (prec_of x) p_assign) args) ++ [TP PRParen]
    | EUn op false a => unop_tok op :: par (raw a) (prec_of a) p_unary
    | EUn op true a => par (raw a) (prec_of a) p_call ++ [unop_tok op]
    | EBin op l r =>
      par (raw l) (prec_of l) (left_need (bin_prec op) (bin_assoc op)) ++
      binop_tok op :: par (raw r) (prec_of r) (right_need (bin_prec op) (bin_assoc op))
    | ECond c a b =>
      par (raw c) (prec_of c) (S p_cond) ++ TP PQuestion :: par (raw a) (prec_of a) p_assign ++
      TP PColon :: par (raw b) (prec_of b) p_assign
    | EAssign op l r =>
      par (raw l) (prec_of l) p_call ++
      match assign_tok op with Some t => t | None => TIllegal end :: par (raw r) (prec_of r) p_assign
    | ESeq es => commas (map (fun x => par (raw x) (prec_of x) p_assign) es)
    | EFun _ _ _ => []
    end.

  Definition toks (e : expr) : list tok := par (raw e) (prec_of e) p_seq.
End Printer.

Definition tok_text (t : tok) : bytes :=
  match t with
  | TP p => punct_text p
  | _ => tok_literal t
  end.

(* every token is preceded by one space *)
Definition spaced (ts : list tok) : bytes :=
  concat_bytes (map (fun t => " "%char :: tok_text t) ts).

Definition jshow_min (e : expr) : bytes := spaced (toks false e) ++ B " ".
Definition jshow_full (e : expr) : bytes := spaced (toks true e) ++ B " ".

(* ------------------------------------------------------------------ the supported subset *)

Definition ident_ok (x : bytes) : bool :=
  match x with
  | [] => false
  | [c] => is_id_start c
  | c :: r => is_id_start c && forallb is_id_part r &&
              match classify_ident x with (TId _, _) => true | _ => false end
  end.

Definition word_ok (x : bytes) : bool :=
  match x with
  | [] => false
  | c :: r => is_id_start c && forallb is_id_part r
  end.

(* decimal integer literal *)
Definition num_ok (lit : bytes) : bool :=
  match lit with
  | [] => false
  | [c] => is_digit c
  | c :: r => is_digit c && negb (ceq c "0"%char) && forallb is_digit r
  end.

Definition quote_ok (q : ascii) : bool := ceq q c_dq || ceq q c_sq || ceq q c_bt.

(* a character that stands for itself inside a literal quoted by q *)
Definition plain_char (q c : ascii) : bool :=
  negb (ceq c q) && negb (ceq c bsl) && negb (ceq c c_lf) && negb (ceq c c_cr) && negb (is_hi c).

Definition unary_plain (op : unop) : bool :=
  match op with UInc | UDec => false | _ => true end.

Fixpoint wf (e : expr) : bool :=
  match e with
  | EId x => ident_ok x
  | ENum lit => num_ok lit
  | EStr q v => quote_ok q && forallb (plain_char q) v
  | EBool _ | ENull | EThis => true
  | EHole => false
  | EArr es => forallb wf es
  | EObj kvs => forallb (fun kv => match kv with (k, v) => forallb (plain_char c_dq) k && wf v end) kvs
  | EDot a x => wf a && word_ok x
  | EIdx a i => wf a && wf i
  | ECall f args => wf f && forallb wf args
  | ENew f args => wf f && forallb wf args
  | EUn op false a => wf a && (unary_plain op || is_lhs a)
  | EUn op true a => wf a && negb (unary_plain op) && is_lhs a
  | EBin _ l r => wf l && wf r
  | ECond c a b => wf c && wf a && wf b
  | EAssign op l r => wf l && wf r && is_lhs l &&
                      match assign_tok op with Some _ => true | None => false end
  | ESeq es => forallb wf es && (2 <=? length es)
  | EFun _ _ _ => false
  end.

(* an expression statement must not begin with "{" (it would be a block) *)
Definition stmt_start_ok (ts : list tok) : bool :=
  match ts with
  | TP PLBrace :: _ => false
  | _ => true
  end.
