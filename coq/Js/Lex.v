(* Model M (part 1) of /repo/otto/parser/lexer.go: the byte-level scanner.

   Go keeps the current character in [self.chr] and the text after it in
   [self.str[self.offset:]]; here the scanner position is one byte string whose
   head is the current character ([] = EOF, chr = -1).

   Restrictions (every one of them makes the scanner answer [LOut], never a
   wrong token):
   * outside string literals and comments a byte >= 0x80 is not classified
     (Go asks unicode.IsLetter / IsSpace): [LOut];
   * U+2028 / U+2029 inside a comment: [LOut];
   * a backslash in identifier position (\uXXXX identifier escapes): [LOut].
   Invalid UTF-8: [read()] records an error for every malformed sequence and the
   parser reads the whole text strictly left to right, so "some error was
   recorded by read()" is the whole-text predicate [negb (utf8_valid src)],
   checked once by the entry points (Parse.v); the scanner itself then passes
   bytes >= 0x80 inside strings and comments through unchanged. *)
From PV Require Import Base.Bytes.
Local Open Scope char_scope.
Local Open Scope N_scope.

Definition cn (c : ascii) : N := N_of_ascii c.
Definition rng (lo hi : N) (c : ascii) : bool := (lo <=? cn c) && (cn c <=? hi).

Definition is_digit (c : ascii) : bool := rng 48 57 c.
Definition is_octal (c : ascii) : bool := rng 48 55 c.
Definition is_lower (c : ascii) : bool := rng 97 122 c.
Definition is_upper (c : ascii) : bool := rng 65 90 c.
Definition is_hex (c : ascii) : bool := is_digit c || rng 97 102 c || rng 65 70 c.
Definition is_hi (c : ascii) : bool := 128 <=? cn c.
Definition ceq (a b : ascii) : bool := Ascii.eqb a b.

(* isIdentifierStart / isIdentifierPart on ASCII, without the backslash *)
Definition is_id_start (c : ascii) : bool :=
  is_lower c || is_upper c || ceq c "$" || ceq c "_".
Definition is_id_part (c : ascii) : bool := is_id_start c || is_digit c.

Definition bsl : ascii := "\".
Definition c_lf : ascii := ascii_of_N 10.
Definition c_cr : ascii := ascii_of_N 13.
Definition c_tab : ascii := ascii_of_N 9.
Definition c_vt : ascii := ascii_of_N 11.
Definition c_ff : ascii := ascii_of_N 12.
Definition c_bs : ascii := ascii_of_N 8.
Definition c_dq : ascii := ascii_of_N 34.
Definition c_sq : ascii := "'".
Definition c_bt : ascii := "`".

(* ------------------------------------------------------------------ tokens *)

Inductive kw :=
| KIf | KIn | KDo | KVar | KFor | KNew | KTry | KThis | KElse | KCase | KVoid | KWith
| KWhile | KBreak | KCatch | KThrow | KReturn | KTypeof | KDelete | KSwitch | KDefault
| KFinally | KFunction | KContinue | KDebugger | KInstanceof.

Inductive punct :=
| PPlus | PMinus | PMul | PSlash | PRem | PAnd | POr | PXor | PShl | PShr | PUShr | PAndNot
| PAddA | PSubA | PMulA | PQuoA | PRemA | PAndA | POrA | PXorA | PShlA | PShrA | PUShrA | PAndNotA
| PLAnd | PLOr | PInc | PDec | PEq | PSEq | PLt | PGt | PAssign | PNot | PBitNot | PNe | PSNe
| PLe | PGe | PLParen | PLBrack | PLBrace | PComma | PPeriod | PRParen | PRBrack | PRBrace
| PSemi | PColon | PQuestion.

Inductive tok :=
| TEOF
| TIllegal                      (* token.ILLEGAL; its literal never matches matchIdentifier *)
| TId (s : bytes)               (* token.IDENTIFIER (includes the strict-mode future reserved words) *)
| TKw (k : kw)
| TFut (s : bytes)              (* token.KEYWORD: const class enum export extends import super *)
| TBool (b : bool)
| TNull
| TNum (lit : bytes)
| TStr (lit : bytes)            (* whole literal, both quotes included *)
| TP (p : punct).

Definition kw_table : list (bytes * kw) :=
  [ (B "if", KIf); (B "in", KIn); (B "do", KDo); (B "var", KVar); (B "for", KFor); (B "new", KNew);
    (B "try", KTry); (B "this", KThis); (B "else", KElse); (B "case", KCase); (B "void", KVoid);
    (B "with", KWith); (B "while", KWhile); (B "break", KBreak); (B "catch", KCatch);
    (B "throw", KThrow); (B "return", KReturn); (B "typeof", KTypeof); (B "delete", KDelete);
    (B "switch", KSwitch); (B "default", KDefault); (B "finally", KFinally);
    (B "function", KFunction); (B "continue", KContinue); (B "debugger", KDebugger);
    (B "instanceof", KInstanceof) ].

Scheme Equality for kw.
Scheme Equality for punct.
Definition kw_eqb := kw_beq.
Definition punct_eqb := punct_beq.

Fixpoint kw_text_in (t : list (bytes * kw)) (k : kw) : bytes :=
  match t with
  | [] => []
  | (s, k') :: r => if kw_eqb k k' then s else kw_text_in r k
  end.
Definition kw_text (k : kw) : bytes := kw_text_in kw_table k.

(* future reserved words that are KEYWORD tokens in non-strict code *)
Definition fut_table : list bytes :=
  [B "const"; B "class"; B "enum"; B "export"; B "extends"; B "import"; B "super"].

(* what scan() makes of a scanned identifier text; the boolean is the new value of
   self.insertSemicolon, None = left as it was (the default-return and KEYWORD arms) *)
Definition classify_ident (s : bytes) : tok * option bool :=
  match lookup s kw_table with
  | Some k =>
    match k with
    | KThis | KBreak | KThrow | KReturn | KContinue | KDebugger => (TKw k, Some true)
    | _ => (TKw k, None)
    end
  | None =>
    if mem s fut_table then (TFut s, None)
    else if beqb s (B "true") then (TBool true, Some true)
    else if beqb s (B "false") then (TBool false, Some true)
    else if beqb s (B "null") then (TNull, Some true)
    else (TId s, Some true)
  end.

Definition punct_text (p : punct) : bytes :=
  match p with
  | PPlus => B "+" | PMinus => B "-" | PMul => B "*" | PSlash => B "/" | PRem => B "%"
  | PAnd => B "&" | POr => B "|" | PXor => B "^" | PShl => B "<<" | PShr => B ">>"
  | PUShr => B ">>>" | PAndNot => B "&^"
  | PAddA => B "+=" | PSubA => B "-=" | PMulA => B "*=" | PQuoA => B "/=" | PRemA => B "%="
  | PAndA => B "&=" | POrA => B "|=" | PXorA => B "^=" | PShlA => B "<<=" | PShrA => B ">>="
  | PUShrA => B ">>>=" | PAndNotA => B "&^="
  | PLAnd => B "&&" | PLOr => B "||" | PInc => B "++" | PDec => B "--" | PEq => B "=="
  | PSEq => B "===" | PLt => B "<" | PGt => B ">" | PAssign => B "=" | PNot => B "!"
  | PBitNot => B "~" | PNe => B "!=" | PSNe => B "!==" | PLe => B "<=" | PGe => B ">="
  | PLParen => B "(" | PLBrack => B "[" | PLBrace => B "{" | PComma => B "," | PPeriod => B "."
  | PRParen => B ")" | PRBrack => B "]" | PRBrace => B "}" | PSemi => B ";" | PColon => B ":"
  | PQuestion => B "?"
  end.

(* self.literal of a token, as far as the parser looks at it (parseDotMember,
   parseObjectPropertyKey): punctuators, EOF and ILLEGAL never match matchIdentifier *)
Definition tok_literal (t : tok) : bytes :=
  match t with
  | TId s | TFut s | TNum s | TStr s => s
  | TKw k => kw_text k
  | TBool true => B "true"
  | TBool false => B "false"
  | TNull => B "null"
  | TEOF | TIllegal | TP _ => []
  end.

(* matchIdentifier = ^[$_\p{L}][$_\p{L}\d}]*$ on ASCII text (note the stray closing brace in the class) *)
Definition match_identifier (s : bytes) : bool :=
  match s with
  | [] => false
  | c :: r => is_id_start c && forallb (fun d => is_id_part d || ceq d "}") r
  end.

(* ------------------------------------------------------------------ UTF-8 *)

Definition is_cont (c : ascii) : bool := rng 128 191 c.

(* utf8.DecodeRuneInString never yields (RuneError, 1) at any rune boundary *)
Fixpoint utf8_valid (s : bytes) : bool :=
  match s with
  | [] => true
  | c :: r =>
    let n := cn c in
    if n <? 128 then utf8_valid r
    else if rng 194 223 c then
      match r with c1 :: r1 => is_cont c1 && utf8_valid r1 | _ => false end
    else if rng 224 239 c then
      match r with
      | c1 :: c2 :: r2 =>
        (if n =? 224 then rng 160 191 c1 else if n =? 237 then rng 128 159 c1 else is_cont c1)
        && is_cont c2 && utf8_valid r2
      | _ => false
      end
    else if rng 240 244 c then
      match r with
      | c1 :: c2 :: c3 :: r3 =>
        (if n =? 240 then rng 144 191 c1 else if n =? 244 then rng 128 143 c1 else is_cont c1)
        && is_cont c2 && is_cont c3 && utf8_valid r3
      | _ => false
      end
    else false
  end.

(* bytes.Buffer.WriteRune *)
Definition utf8_encode (v : N) : bytes :=
  if v <? 128 then [ascii_of_N v]
  else if v <? 2048 then [ascii_of_N (192 + v / 64); ascii_of_N (128 + v mod 64)]
  else if (55296 <=? v) && (v <=? 57343) then [ascii_of_N 239; ascii_of_N 191; ascii_of_N 189]
  else [ascii_of_N (224 + v / 4096); ascii_of_N (128 + (v / 64) mod 64); ascii_of_N (128 + v mod 64)].

(* U+2028 / U+2029 at the head of s *)
Definition ls_ps (s : bytes) : bool :=
  match s with
  | a :: b :: c :: _ => (cn a =? 226) && (cn b =? 128) && ((cn c =? 168) || (cn c =? 169))
  | _ => false
  end.

(* ------------------------------------------------------------------ white space *)

Definition is_blank (c : ascii) : bool :=
  ceq c " " || ceq c c_tab || ceq c c_ff || ceq c c_vt.

(* skipWhiteSpace.  [ins] is self.insertSemicolon.  In the CR arm _peek() is the byte
   after the CR (since the repair of F-C15-d; before it looked one byte further and an
   extra read() swallowed the character between a lone CR and a LF). *)
Fixpoint skip_ws (ins : bool) (s : bytes) : bytes :=
  match s with
  | [] => []
  | c :: r =>
    if is_blank c then skip_ws ins r
    else if ceq c c_cr then
      match r with
      | b :: r2 =>
        if ceq b c_lf
        then (if ins then r else skip_ws ins r2)        (* read(): current = LF *)
        else (if ins then s else skip_ws ins r)
      | [] => if ins then s else []
      end
    else if ceq c c_lf then (if ins then s else skip_ws ins r)
    else s
  end.

(* ------------------------------------------------------------------ literals *)

Fixpoint span (p : ascii -> bool) (s : bytes) : bytes * bytes :=
  match s with
  | c :: r => if p c then let '(a, b) := span p r in (c :: a, b) else ([], s)
  | [] => ([], [])
  end.

Definition hd_is (p : ascii -> bool) (s : bytes) : bool :=
  match s with c :: _ => p c | [] => false end.

Inductive nres := NNum (lit rest : bytes) | NIllegal (rest : bytes) | NOut.

(* the common tail of scanNumericLiteral (labels hexadecimal/octal) *)
Definition num_tail (lit rest : bytes) : nres :=
  match rest with
  | c :: _ =>
    if is_hi c then NOut
    else if is_id_start c || ceq c bsl || is_digit c then NIllegal rest
    else NNum lit rest
  | [] => NNum lit rest
  end.

(* label exponent *)
Definition num_exponent (lit rest : bytes) : nres :=
  match rest with
  | e :: r =>
    if ceq e "e" || ceq e "E" then
      let '(sg, r1) := match r with
                       | x :: r' => if ceq x "-" || ceq x "+" then ([x], r') else ([], r)
                       | [] => ([], r)
                       end in
      if hd_is is_digit r1
      then let '(d, r2) := span is_digit r1 in num_tail (lit ++ e :: sg ++ d) r2
      else NIllegal r1
    else num_tail lit rest
  | [] => num_tail lit rest
  end.

(* label float *)
Definition num_float (lit rest : bytes) : nres :=
  match rest with
  | c :: r =>
    if ceq c "." then let '(d, r1) := span is_digit r in num_exponent (lit ++ c :: d) r1
    else num_exponent lit rest
  | [] => num_exponent lit rest
  end.

(* scanNumericLiteral(false): s starts with a decimal digit *)
Definition scan_number (s : bytes) : nres :=
  match s with
  | c :: r =>
    if ceq c "0" then
      match r with
      | x :: r1 =>
        if ceq x "x" || ceq x "X" then
          (if hd_is is_hex r1
           then let '(h, r2) := span is_hex r1 in num_tail (c :: x :: h) r2
           else NIllegal r1)
        else if ceq x "." then num_float [c] r
        else if ceq x "e" || ceq x "E" then num_exponent [c] r
        else
          let '(o, r2) := span is_octal r in
          if hd_is (fun d => ceq d "8" || ceq d "9") r2 then NIllegal r2
          else num_tail (c :: o) r2
      | [] => num_tail [c] []
      end
    else let '(d, r1) := span is_digit s in num_float d r1
  | [] => NOut
  end.

(* scanNumericLiteral(true): s is the text after the point *)
Definition scan_number_dot (s : bytes) : nres :=
  let '(d, r1) := span is_digit s in num_exponent ("." :: d) r1.

(* scanString for the three quote characters.  s is the text after the opening quote; acc is
   the reversed body.  scanEscape's \x / \u digit loops are not reproduced: hex digits
   are neither quote, backslash nor line terminator, so the main loop skips them
   with the same effect. *)
Inductive sres := SDone (body rest : bytes) | SUnterminated (rest : bytes).

Fixpoint scan_str (q : ascii) (s : bytes) (acc : bytes) : sres :=
  match s with
  | [] => SUnterminated []
  | c :: r =>
    if ceq c q then SDone (rev acc) r
    else if ceq c c_lf then SUnterminated r
    else if ceq c c_cr then
      SUnterminated (match r with d :: r' => if ceq d c_lf then r' else r | [] => r end)
    else if ls_ps s then SUnterminated (skipn 3 s)
    else if ceq c bsl then
      match r with
      | [] => SUnterminated []
      | e :: r1 =>
        if ceq e c_cr then
          match r1 with
          | d :: r2 => if ceq d c_lf then scan_str q r2 (d :: e :: c :: acc)
                       else scan_str q r1 (e :: c :: acc)
          | [] => scan_str q r1 (e :: c :: acc)
          end
        else scan_str q r1 (e :: c :: acc)   (* one character (its first byte; see header) *)
      end
    else scan_str q r (c :: acc)
  end.

(* parseStringLiteral on the text between the quotes *)
Inductive vres := VVal (v : bytes) | VErr | VPanic.

Definition vcons (b : bytes) (r : vres) : vres :=
  match r with VVal v => VVal (b ++ v) | e => e end.

Definition hexval (c : ascii) : N :=
  if is_digit c then cn c - 48 else if rng 97 102 c then cn c - 87 else cn c - 55.

Fixpoint str_value (s : bytes) : vres :=
  match s with
  | [] => VVal []
  | c :: r =>
    if negb (ceq c bsl) then vcons [c] (str_value r)
    else
      match r with
      | [] => VPanic                                    (* the explicit panic: len(str) <= 1 *)
      | e :: r1 =>
        if is_hi e then vcons [e] (str_value r1)
        else if ceq e "b" then vcons [c_bs] (str_value r1)
        else if ceq e "f" then vcons [c_ff] (str_value r1)
        else if ceq e "n" then vcons [c_lf] (str_value r1)
        else if ceq e "r" then vcons [c_cr] (str_value r1)
        else if ceq e "t" then vcons [c_tab] (str_value r1)
        else if ceq e "v" then vcons [c_vt] (str_value r1)
        else if ceq e "x" then
          match r1 with
          | h1 :: h2 :: r2 =>
            if is_hex h1 && is_hex h2
            then vcons (utf8_encode (16 * hexval h1 + hexval h2)) (str_value r2)
            else VErr
          | _ => VErr
          end
        else if ceq e "u" then
          match r1 with
          | h1 :: h2 :: h3 :: h4 :: r2 =>
            if is_hex h1 && is_hex h2 && is_hex h3 && is_hex h4
            then vcons (utf8_encode (4096 * hexval h1 + 256 * hexval h2 + 16 * hexval h3 + hexval h4))
                       (str_value r2)
            else VErr
          | _ => VErr
          end
        else if is_octal e then
          (* \0 not followed by an octal digit is NUL; otherwise up to three octal digits *)
          match r1 with
          | d1 :: r2 =>
            if is_octal d1 then
              match r2 with
              | d2 :: r3 =>
                if is_octal d2
                then vcons (utf8_encode (64 * (cn e - 48) + 8 * (cn d1 - 48) + (cn d2 - 48))) (str_value r3)
                else vcons (utf8_encode (8 * (cn e - 48) + (cn d1 - 48))) (str_value r2)
              | [] => vcons (utf8_encode (8 * (cn e - 48) + (cn d1 - 48))) (str_value r2)
              end
            else vcons [ascii_of_N (cn e - 48)] (str_value r1)
          | [] => vcons [ascii_of_N (cn e - 48)] (str_value r1)
          end
        else if ceq e c_cr then
          match r1 with
          | d :: r2 => if ceq d c_lf then str_value r2 else str_value r1
          | [] => str_value r1
          end
        else if ceq e c_lf then str_value r1
        else vcons [e] (str_value r1)                   (* backslash, the quotes and every other character stand for themselves *)
      end
  end.

(* parseNumberLiteral: the int64 value when strconv.ParseInt(literal, 0, 64) succeeds
   (decimal without leading zero, 0[0-7]*, 0x…), None when the value is a float64 *)
Fixpoint digits_val (base : N) (s : bytes) (acc : N) : N :=
  match s with
  | [] => acc
  | c :: r => digits_val base r (acc * base + hexval c)
  end.

Definition num_value (lit : bytes) : option N :=
  let small v := if v <? 9223372036854775808 then Some v else None in
  match lit with
  | c :: x :: r =>
    if ceq c "0" && (ceq x "x" || ceq x "X") then
      (if forallb is_hex r && negb (Nat.eqb (length r) 0) then small (digits_val 16 r 0) else None)
    else if ceq c "0" then
      (if forallb is_octal (x :: r) then small (digits_val 8 (x :: r) 0) else None)
    else if forallb is_digit lit then small (digits_val 10 lit 0) else None
  | _ => if forallb is_digit lit && negb (Nat.eqb (length lit) 0) then small (digits_val 10 lit 0) else None
  end.

(* ------------------------------------------------------------------ scan *)

Inductive lres :=
| LTok (t : tok) (rest : bytes) (ins imp : bool)   (* token, position, insertSemicolon, implicitSemicolon *)
| LErr                                              (* an error was recorded (errorUnexpected) *)
| LOut                                              (* outside the modelled scanner *)
| LFuel.

(* skipSingleLineComment: stops at (not after) the line terminator *)
Fixpoint skip_line_comment (s : bytes) : option bytes :=
  match s with
  | [] => Some []
  | c :: r => if ceq c c_lf || ceq c c_cr then Some s
              else if ls_ps s then None
              else skip_line_comment r
  end.

(* skipMultiLineComment after the opening slash-star; None = not terminated (error recorded) *)
Fixpoint skip_block_comment (s : bytes) : option bytes :=
  match s with
  | [] => None
  | c :: r =>
    match r with
    | d :: r' => if ceq c "*" && ceq d "/" then Some r' else skip_block_comment r
    | [] => None
    end
  end.

Definition sw2 (r : bytes) (t0 t1 : punct) : punct * bytes :=
  match r with "="%char :: r' => (t1, r') | _ => (t0, r) end.

Definition sw3 (r : bytes) (t0 t1 : punct) (c2 : ascii) (t2 : punct) : punct * bytes :=
  match r with
  | x :: r' => if ceq x "=" then (t1, r') else if ceq x c2 then (t2, r') else (t0, r)
  | [] => (t0, r)
  end.

Definition punct_ins (p : punct) : bool :=
  match p with
  | PRParen | PRBrack | PRBrace | PInc | PDec | PSlash | PQuoA => true
  | _ => false
  end.

Definition ptok (p : punct) (rest : bytes) (imp : bool) : lres :=
  LTok (TP p) rest (punct_ins p) imp.

Fixpoint scan_f (fuel : nat) (ins imp : bool) (s : bytes) : lres :=
  match fuel with
  | O => LFuel
  | S f =>
    match skip_ws ins s with
    | [] => LTok TEOF [] false (imp || ins)
    | c :: r =>
      if is_id_start c then
        let '(name, r1) := span is_id_part (c :: r) in
        if hd_is (fun d => ceq d bsl || is_hi d) r1 then LOut
        else
          match name with
          | [_] => LTok (TId name) r1 true imp      (* len(literal) > 1 guards the keyword lookup *)
          | _ => let '(t, i) := classify_ident name in
                 LTok t r1 (match i with Some b => b | None => ins end) imp
          end
      else if ceq c bsl then LOut
      else if is_digit c then
        match scan_number (c :: r) with
        | NNum lit r1 => LTok (TNum lit) r1 true imp
        | NIllegal r1 => LTok TIllegal r1 true imp
        | NOut => LOut
        end
      else if is_hi c then LOut
      else if ceq c c_lf || ceq c c_cr then scan_f f false true r
      else if ceq c ":" then ptok PColon r imp
      else if ceq c "." then
        (if hd_is is_digit r then
           match scan_number_dot r with
           | NNum lit r1 => LTok (TNum lit) r1 true imp
           | NIllegal r1 => LTok TIllegal r1 true imp
           | NOut => LOut
           end
         else ptok PPeriod r imp)
      else if ceq c "," then ptok PComma r imp
      else if ceq c ";" then ptok PSemi r imp
      else if ceq c "(" then ptok PLParen r imp
      else if ceq c ")" then ptok PRParen r imp
      else if ceq c "[" then ptok PLBrack r imp
      else if ceq c "]" then ptok PRBrack r imp
      else if ceq c "{" then ptok PLBrace r imp
      else if ceq c "}" then ptok PRBrace r imp
      else if ceq c "+" then let '(p, r1) := sw3 r PPlus PAddA "+" PInc in ptok p r1 imp
      else if ceq c "-" then let '(p, r1) := sw3 r PMinus PSubA "-" PDec in ptok p r1 imp
      else if ceq c "*" then let '(p, r1) := sw2 r PMul PMulA in ptok p r1 imp
      else if ceq c "/" then
        match r with
        | d :: r' =>
          if ceq d "/" then
            match skip_line_comment r with
            | Some r1 => scan_f f ins imp r1
            | None => LOut
            end
          else if ceq d "*" then
            match skip_block_comment r' with
            | Some r1 => scan_f f ins imp r1
            | None => LErr
            end
          else let '(p, r1) := sw2 r PSlash PQuoA in ptok p r1 imp
        | [] => ptok PSlash r imp
        end
      else if ceq c "%" then let '(p, r1) := sw2 r PRem PRemA in ptok p r1 imp
      else if ceq c "^" then let '(p, r1) := sw2 r PXor PXorA in ptok p r1 imp
      else if ceq c "<" then
        (* switch4 *)
        match r with
        | x :: r1 =>
          if ceq x "=" then ptok PLe r1 imp
          else if ceq x "<" then
            match r1 with
            | y :: r2 => if ceq y "=" then ptok PShlA r2 imp else ptok PShl r1 imp
            | [] => ptok PShl r1 imp
            end
          else ptok PLt r imp
        | [] => ptok PLt r imp
        end
      else if ceq c ">" then
        (* switch6 *)
        match r with
        | x :: r1 =>
          if ceq x "=" then ptok PGe r1 imp
          else if ceq x ">" then
            match r1 with
            | y :: r2 =>
              if ceq y "=" then ptok PShrA r2 imp
              else if ceq y ">" then
                match r2 with
                | z :: r3 => if ceq z "=" then ptok PUShrA r3 imp else ptok PUShr r2 imp
                | [] => ptok PUShr r2 imp
                end
              else ptok PShr r1 imp
            | [] => ptok PShr r1 imp
            end
          else ptok PGt r imp
        | [] => ptok PGt r imp
        end
      else if ceq c "=" then
        match r with
        | x :: r1 =>
          if ceq x "=" then
            match r1 with
            | y :: r2 => if ceq y "=" then ptok PSEq r2 imp else ptok PEq r1 imp
            | [] => ptok PEq r1 imp
            end
          else ptok PAssign r imp
        | [] => ptok PAssign r imp
        end
      else if ceq c "!" then
        match r with
        | x :: r1 =>
          if ceq x "=" then
            match r1 with
            | y :: r2 => if ceq y "=" then ptok PSNe r2 imp else ptok PNe r1 imp
            | [] => ptok PNe r1 imp
            end
          else ptok PNot r imp
        | [] => ptok PNot r imp
        end
      else if ceq c "&" then
        match r with
        | x :: r1 =>
          if ceq x "^" then let '(p, r2) := sw2 r1 PAndNot PAndNotA in ptok p r2 imp
          else let '(p, r2) := sw3 r PAnd PAndA "&" PLAnd in ptok p r2 imp
        | [] => ptok PAnd r imp
        end
      else if ceq c "|" then let '(p, r1) := sw3 r POr POrA "|" PLOr in ptok p r1 imp
      else if ceq c "~" then ptok PBitNot r imp
      else if ceq c "?" then ptok PQuestion r imp
      else if ceq c c_dq || ceq c c_sq || ceq c c_bt then
        match scan_str c r [] with
        | SDone body r1 => LTok (TStr (c :: body ++ [c])) r1 true imp
        | SUnterminated r1 => LTok TIllegal r1 true imp
        end
      else LErr                                  (* errorUnexpected *)
    end
  end.

(* every iteration of scan()'s for-loop consumes at least one byte *)
Definition scan (ins : bool) (s : bytes) : lres := scan_f (S (length s)) ins false s.
