(* JavaScript snippet AST: the part of otto/ast that renderExpression / renderStatement accept. *)
From PV Require Import Base.Bytes.

Inductive binop :=
| BAdd | BSub | BMul | BDiv | BMod
| BLt | BGt | BLe | BGe | BEq | BSEq | BNe | BSNe
| BAnd | BOr
| BBitAnd | BBitOr | BBitXor | BShl | BShr | BUShr
| BInstanceof | BIn.

Inductive unop := UNot | UNeg | UPlus | UTypeof | UBitNot | UDelete | UVoid | UInc | UDec.

Inductive jexpr :=
| JId (x : bytes)
| JNum (z : Z)                       (* integer literal *)
| JNumF (txt : bytes)                (* non-integer literal, as fmt %v prints its float64 *)
| JStr (s : bytes)                   (* string literal value without "${" *)
| JTpl (parts : list (bytes + jexpr))(* string literal with ${...} interpolation *)
| JBool (b : bool)
| JNull
| JArr (es : list jexpr)
| JObj (kvs : list (bytes * jexpr))
| JDot (e : jexpr) (name : bytes)
| JIdx (e i : jexpr)
| JCall (f : jexpr) (args : list jexpr)
| JNew (f : jexpr) (args : list jexpr)
| JUn (op : unop) (postfix : bool) (e : jexpr)
| JBin (op : binop) (l r : jexpr)
| JCond (c a b : jexpr)
| JAssign (op : option binop) (l r : jexpr)   (* None: plain = *)
| JSeq (es : list jexpr)
| JVar (x : bytes) (init : option jexpr).     (* one declarator of a var statement *)

Inductive jstmt :=
| SExpr (e : jexpr)
| SVar (ds : list jexpr)
| SIf (c : jexpr) (t : jstmt) (e : option jstmt)
| SBlock (l : list jstmt)
| SOther.                                      (* anything else: not modelled *)
