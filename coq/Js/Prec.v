(* Spec S for C15: the ECMAScript precedence / associativity table, written down
   independently of the parser model (ECMA-262 5.1, sections 11.1-11.14).  A larger
   number binds tighter.  Nothing here mentions the parser. *)
From PV Require Import Base.Bytes Js.Ast.

Inductive assoc := LeftAssoc | RightAssoc.

(* 11.5-11.11: MultiplicativeExpression ... LogicalORExpression; all binary operators
   associate to the left *)
Definition bin_prec (op : binop) : nat :=
  match op with
  | BOr => 4                                   (* 11.11  ||  *)
  | BAnd => 5                                  (* 11.11  &&  *)
  | BBitOr => 6                                (* 11.10  |   *)
  | BBitXor => 7                               (* 11.10  ^   *)
  | BBitAnd => 8                               (* 11.10  &   *)
  | BEq | BNe | BSEq | BSNe => 9               (* 11.9   == != === !== *)
  | BLt | BGt | BLe | BGe | BInstanceof | BIn => 10   (* 11.8   < > <= >= instanceof in *)
  | BShl | BShr | BUShr => 11                  (* 11.7   << >> >>> *)
  | BAdd | BSub => 12                          (* 11.6   + - *)
  | BMul | BDiv | BMod => 13                   (* 11.5   * / % *)
  end.

Definition bin_assoc (op : binop) : assoc := LeftAssoc.

Definition p_seq : nat := 1.        (* 11.14 Expression: AssignmentExpression , ... (left) *)
Definition p_assign : nat := 2.     (* 11.13 LeftHandSideExpression = AssignmentExpression (right) *)
Definition p_cond : nat := 3.       (* 11.12 LogicalORExpression ? AssignmentExpression : AssignmentExpression (right) *)
Definition p_unary : nat := 14.     (* 11.4  delete void typeof ++ -- + - ~ ! UnaryExpression *)
Definition p_postfix : nat := 15.   (* 11.3  LeftHandSideExpression [no LineTerminator here] ++ / -- *)
Definition p_call : nat := 17.      (* 11.2  MemberExpression, CallExpression, new MemberExpression Arguments *)
Definition p_primary : nat := 18.   (* 11.1  this, identifier, literal, array/object initialiser, ( Expression ) *)

Definition assign_assoc : assoc := RightAssoc.
Definition cond_assoc : assoc := RightAssoc.

(* what an operand position demands: the weakest precedence that may stand there
   without parentheses *)
Definition left_need (p : nat) (a : assoc) : nat := match a with LeftAssoc => p | RightAssoc => S p end.
Definition right_need (p : nat) (a : assoc) : nat := match a with LeftAssoc => S p | RightAssoc => p end.
