(* Model M (part 2) of /repo/otto/parser: expression.go, statement.go, parser.go
   restricted to the supported subset.

   One Gallina definition per Go function, written in open recursion: every
   definition takes [rec : call -> pst -> res val], the table of the mutually
   recursive parser functions, and [run] closes the recursion on explicit fuel
   (one unit per call; Proofs/JsParseProofs.v shows 64 * (|src| + 2) is enough).
   Each Go `for` loop is a call of its own ([C…Loop]).

   Outcomes: the parser keeps an error list and goes on after an error; the value
   it finally returns is (program, err) with err <> nil iff the list is non-empty.
   The model stops at the first recorded error ([RErr]); this is the same answer
   class whenever the Go parser returns at all.  [ROut]: syntax outside the model
   (regular expressions, statements other than expression / var / return / empty,
   labels, getters/setters, the &^= operator, non-ASCII outside strings/comments).
   [RPanic]: an explicit panic(...) site of the modelled code was reached. *)
From PV Require Import Base.Bytes Js.Ast Js.Lex.
Local Open Scope char_scope.

(* ------------------------------------------------------------------ syntax trees *)

(* The otto/ast nodes the model can produce.  binop/unop are shared with Js/Ast.v. *)
Inductive expr :=
| EId (x : bytes)
| ENum (lit : bytes)                   (* NumberLiteral.Literal; Value = num_value lit *)
| EStr (q : ascii) (v : bytes)         (* quote character and StringLiteral.Value *)
| EBool (b : bool)
| ENull
| EThis
| EHole                                (* EmptyExpression: elision in an array literal *)
| EArr (es : list expr)
| EObj (kvs : list (bytes * expr))     (* Property{Key, Kind "value", Value} *)
| EDot (e : expr) (x : bytes)
| EIdx (e i : expr)
| ECall (f : expr) (args : list expr)
| ENew (f : expr) (args : list expr)
| EUn (op : unop) (postfix : bool) (e : expr)
| EBin (op : binop) (l r : expr)
| ECond (c a b : expr)
| EAssign (op : option binop) (l r : expr)   (* None: plain = *)
| ESeq (es : list expr)
| EFun (name : option bytes) (params : list bytes) (body : list stmt)
with stmt :=
| SExpr (e : expr)
| SVar (ds : list (bytes * option expr))
| SReturn (e : option expr)
| SEmpty.

Inductive val :=
| VE (e : expr) | VL (l : list expr) | VS (s : stmt) | VSL (l : list stmt) | VB (l : list bytes).

(* ------------------------------------------------------------------ parser state *)

Record pst := mk_pst {
  tk  : tok;      (* self.token (+ self.literal) *)
  rs  : bytes;    (* text from self.chrOffset on *)
  ins : bool;     (* self.insertSemicolon *)
  imp : bool      (* self.implicitSemicolon *)
}.
(* self.scope.allowIn is false only inside the head of a `for` statement, which is
   outside the model: it is constantly true here.  self.scope.inFunction is an
   argument of the statement calls. *)

Inductive res (A : Type) :=
| ROk (a : A) (st : pst)
| RErr | ROut | RFuel | RPanic.
Arguments ROk {A}. Arguments RErr {A}. Arguments ROut {A}. Arguments RFuel {A}. Arguments RPanic {A}.

Definition bind {A C} (r : res A) (k : A -> pst -> res C) : res C :=
  match r with
  | ROk a st => k a st
  | RErr => RErr | ROut => ROut | RFuel => RFuel | RPanic => RPanic
  end.

Notation "'LET' x , st <- r ; k" := (bind r (fun x st => k))
  (at level 200, x name, st name, r at level 100, k at level 200, right associativity).

(* self.next() *)
Definition next (st : pst) : res unit :=
  match scan (ins st) (rs st) with
  | LTok t r i m => ROk tt (mk_pst t r i m)
  | LErr => RErr
  | LOut => ROut
  | LFuel => RFuel
  end.

Definition is_p (p : punct) (st : pst) : bool :=
  match tk st with
  | TP q => punct_eqb p q
  | _ => false
  end.

Definition is_kw (k : kw) (st : pst) : bool :=
  match tk st with TKw k' => kw_eqb k k' | _ => false end.

Definition is_eof (st : pst) : bool := match tk st with TEOF => true | _ => false end.

(* self.expect(value): an unexpected token records an error *)
Definition expect (p : punct) (st : pst) : res unit :=
  if is_p p st then next st else RErr.

Definition expect_kw (k : kw) (st : pst) : res unit :=
  if is_kw k st then next st else RErr.

Definition asE (r : res val) : res expr :=
  bind r (fun v st => match v with VE e => ROk e st | _ => ROut end).
Definition asL (r : res val) : res (list expr) :=
  bind r (fun v st => match v with VL l => ROk l st | _ => ROut end).
Definition asS (r : res val) : res stmt :=
  bind r (fun v st => match v with VS s => ROk s st | _ => ROut end).
Definition asSL (r : res val) : res (list stmt) :=
  bind r (fun v st => match v with VSL l => ROk l st | _ => ROut end).
Definition asB (r : res val) : res (list bytes) :=
  bind r (fun v st => match v with VB l => ROk l st | _ => ROut end).

(* ------------------------------------------------------------------ the call table *)

(* the binary levels of the ladder: parseLogicalOrExpression ... parseMultiplicativeExpression *)
Inductive lvl := LOr | LAnd | LBitOr | LBitXor | LBitAnd | LEq | LRel | LShift | LAdd | LMul.

Inductive call :=
| CExpression | CSeqLoop (acc : list expr)
| CAssignment | CConditional
| CBin (l : lvl) | CBinLoop (l : lvl) (left : expr)
| CUnary | CPostfix
| CLhsCall | CLhs | CMember (allow_call : bool) (left : expr)
| CNew | CPrimary
| CArgs | CArgLoop (acc : list expr)
| CArray | CArrLoop (acc : list expr)
| CObject | CObjLoop (acc : list (bytes * expr))
| CFunction | CParamLoop (acc : list bytes)
| CStmtLoop (top inf : bool) (acc : list stmt)
| CStatement (inf : bool)
| CVarLoop (acc : list (bytes * option expr))
| CProgram.

Definition rec_t := call -> pst -> res val.

(* the operators each Go level function tests self.token for *)
Definition lvl_op (l : lvl) (t : tok) : option binop :=
  match l, t with
  | LOr, TP PLOr => Some BOr
  | LAnd, TP PLAnd => Some BAnd
  | LBitOr, TP POr => Some BBitOr
  | LBitXor, TP PXor => Some BBitXor
  | LBitAnd, TP PAnd => Some BBitAnd
  | LEq, TP PEq => Some BEq
  | LEq, TP PNe => Some BNe
  | LEq, TP PSEq => Some BSEq
  | LEq, TP PSNe => Some BSNe
  | LRel, TP PLt => Some BLt
  | LRel, TP PLe => Some BLe
  | LRel, TP PGt => Some BGt
  | LRel, TP PGe => Some BGe
  | LRel, TKw KInstanceof => Some BInstanceof
  | LRel, TKw KIn => Some BIn                 (* allowIn = true *)
  | LShift, TP PShl => Some BShl
  | LShift, TP PShr => Some BShr
  | LShift, TP PUShr => Some BUShr
  | LAdd, TP PPlus => Some BAdd
  | LAdd, TP PMinus => Some BSub
  | LMul, TP PMul => Some BMul
  | LMul, TP PSlash => Some BDiv
  | LMul, TP PRem => Some BMod
  | _, _ => None
  end.

(* `next := self.parse…Expression` at the top of each level function *)
Definition lvl_next (l : lvl) : call :=
  match l with
  | LOr => CBin LAnd | LAnd => CBin LBitOr | LBitOr => CBin LBitXor | LBitXor => CBin LBitAnd
  | LBitAnd => CBin LEq | LEq => CBin LRel | LRel => CBin LShift | LShift => CBin LAdd
  | LAdd => CBin LMul | LMul => CUnary
  end.

(* the switch of parseAssignmentExpression *)
Inductive aop := AONone | AOOut | AOp (op : option binop).
Definition assign_op (t : tok) : aop :=
  match t with
  | TP PAssign => AOp None
  | TP PAddA => AOp (Some BAdd) | TP PSubA => AOp (Some BSub) | TP PMulA => AOp (Some BMul)
  | TP PQuoA => AOp (Some BDiv) | TP PRemA => AOp (Some BMod) | TP PAndA => AOp (Some BBitAnd)
  | TP POrA => AOp (Some BBitOr) | TP PXorA => AOp (Some BBitXor) | TP PShlA => AOp (Some BShl)
  | TP PShrA => AOp (Some BShr) | TP PUShrA => AOp (Some BUShr)
  | TP PAndNotA => AOOut
  | _ => AONone
  end.

(* case *ast.Identifier, *ast.DotExpression, *ast.BracketExpression *)
Definition is_lhs (e : expr) : bool :=
  match e with EId _ | EDot _ _ | EIdx _ _ => true | _ => false end.

Definition unary_op (t : tok) : option unop :=
  match t with
  | TP PPlus => Some UPlus | TP PMinus => Some UNeg | TP PNot => Some UNot
  | TP PBitNot => Some UBitNot
  | TKw KDelete => Some UDelete | TKw KVoid => Some UVoid | TKw KTypeof => Some UTypeof
  | _ => None
  end.

Definition incdec (t : tok) : option unop :=
  match t with TP PInc => Some UInc | TP PDec => Some UDec | _ => None end.

(* ------------------------------------------------------------------ expression.go *)

Definition parseExpression (rec : rec_t) (st : pst) : res val :=
  LET left, st <- asE (rec CAssignment st);
  if is_p PComma st then rec (CSeqLoop [left]) st else ROk (VE left) st.

Definition seqLoop (rec : rec_t) (acc : list expr) (st : pst) : res val :=
  if is_p PComma st then
    LET _, st <- next st;
    LET e, st <- asE (rec CAssignment st);
    rec (CSeqLoop (e :: acc)) st
  else ROk (VE (ESeq (rev acc))) st.

Definition parseAssignmentExpression (rec : rec_t) (st : pst) : res val :=
  LET left, st <- asE (rec CConditional st);
  match assign_op (tk st) with
  | AONone => ROk (VE left) st
  | AOOut => ROut
  | AOp op =>
    LET _, st <- next st;
    if is_lhs left then
      LET r, st <- asE (rec CAssignment st);
      ROk (VE (EAssign op left r)) st
    else RErr                                (* Invalid left-hand side in assignment *)
  end.

Definition parseConditionalExpression (rec : rec_t) (st : pst) : res val :=
  LET left, st <- asE (rec (CBin LOr) st);
  if is_p PQuestion st then
    LET _, st <- next st;
    LET a, st <- asE (rec CAssignment st);
    LET _, st <- expect PColon st;
    LET b, st <- asE (rec CAssignment st);
    ROk (VE (ECond left a b)) st
  else ROk (VE left) st.

(* parseLogicalOr … parseMultiplicative: `left := next(); for self.token == … { … }`.
   parseRelationalExpression has this shape since the repair of F-C15-b (before it
   called itself for the right operand: a<b<c gave a<(b<c)). *)
Definition parseBinary (rec : rec_t) (l : lvl) (st : pst) : res val :=
  LET left, st <- asE (rec (lvl_next l) st);
  rec (CBinLoop l left) st.

Definition binLoop (rec : rec_t) (l : lvl) (left : expr) (st : pst) : res val :=
  match lvl_op l (tk st) with
  | Some op =>
    LET _, st <- next st;
    LET r, st <- asE (rec (lvl_next l) st);
    rec (CBinLoop l (EBin op left r)) st
  | None => ROk (VE left) st
  end.

Definition parseUnaryExpression (rec : rec_t) (st : pst) : res val :=
  match unary_op (tk st) with
  | Some op =>
    LET _, st <- next st;
    LET e, st <- asE (rec CUnary st);
    ROk (VE (EUn op false e)) st
  | None =>
    match incdec (tk st) with
    | Some op =>
      LET _, st <- next st;
      LET e, st <- asE (rec CUnary st);
      if is_lhs e then ROk (VE (EUn op false e)) st else RErr
    | None => rec CPostfix st
    end
  end.

Definition parsePostfixExpression (rec : rec_t) (st : pst) : res val :=
  LET e, st <- asE (rec CLhsCall st);
  match incdec (tk st) with
  | Some op =>
    if imp st then ROk (VE e) st                (* a line terminator before ++ / -- *)
    else
      LET _, st <- next st;
      if is_lhs e then ROk (VE (EUn op true e)) st else RErr
  | None => ROk (VE e) st
  end.

Definition parseLeftHandSideExpressionAllowCall (rec : rec_t) (st : pst) : res val :=
  LET left, st <- asE (if is_kw KNew st then rec CNew st else rec CPrimary st);
  rec (CMember true left) st.

Definition parseLeftHandSideExpression (rec : rec_t) (st : pst) : res val :=
  LET left, st <- asE (if is_kw KNew st then rec CNew st else rec CPrimary st);
  rec (CMember false left) st.

(* the `for` loop of both LeftHandSide functions, with parseDotMember,
   parseBracketMember and parseCallExpression inlined *)
Definition memberLoop (rec : rec_t) (allow_call : bool) (left : expr) (st : pst) : res val :=
  if is_p PPeriod st then
    LET _, st <- next st;
    let literal := tok_literal (tk st) in
    if match_identifier literal then
      LET _, st <- next st;
      rec (CMember allow_call (EDot left literal)) st
    else RErr
  else if is_p PLBrack st then
    LET _, st <- next st;
    LET i, st <- asE (rec CExpression st);
    LET _, st <- expect PRBrack st;
    rec (CMember allow_call (EIdx left i)) st
  else if allow_call && is_p PLParen st then
    LET args, st <- asL (rec CArgs st);
    rec (CMember allow_call (ECall left args)) st
  else ROk (VE left) st.

Definition parseNewExpression (rec : rec_t) (st : pst) : res val :=
  LET _, st <- expect_kw KNew st;
  LET callee, st <- asE (rec CLhs st);
  if is_p PLParen st then
    LET args, st <- asL (rec CArgs st);
    ROk (VE (ENew callee args)) st
  else ROk (VE (ENew callee [])) st.

Definition parseArgumentList (rec : rec_t) (st : pst) : res val :=
  LET _, st <- expect PLParen st;
  if is_p PRParen st then (LET _, st <- next st; ROk (VL []) st)
  else rec (CArgLoop []) st.

Definition argLoop (rec : rec_t) (acc : list expr) (st : pst) : res val :=
  LET e, st <- asE (rec CAssignment st);
  if is_p PComma st then (LET _, st <- next st; rec (CArgLoop (e :: acc)) st)
  else (LET _, st <- expect PRParen st; ROk (VL (rev (e :: acc))) st).

Definition parsePrimaryExpression (rec : rec_t) (st : pst) : res val :=
  match tk st with
  | TId x => LET _, st <- next st; ROk (VE (EId x)) st
  | TNull => LET _, st <- next st; ROk (VE ENull) st
  | TBool b => LET _, st <- next st; ROk (VE (EBool b)) st
  | TStr lit =>
    LET _, st <- next st;
    match lit with
    | q :: body =>
      match str_value (removelast body) with
      | VVal v => ROk (VE (EStr q v)) st
      | VErr => RErr
      | VPanic => RPanic
      end
    | [] => ROut
    end
  | TNum lit => LET _, st <- next st; ROk (VE (ENum lit)) st       (* parseNumberLiteral cannot fail on a NUMBER token *)
  | TP PSlash | TP PQuoA => ROut                                   (* regular expression literal *)
  | TP PLBrace => rec CObject st
  | TP PLBrack => rec CArray st
  | TP PLParen =>
    LET _, st <- next st;
    LET e, st <- asE (rec CExpression st);
    LET _, st <- expect PRParen st;
    ROk (VE e) st
  | TKw KThis => LET _, st <- next st; ROk (VE EThis) st
  | TKw KFunction => rec CFunction st
  | _ => RErr                                                       (* errorUnexpectedToken *)
  end.

Definition parseArrayLiteral (rec : rec_t) (st : pst) : res val :=
  LET _, st <- expect PLBrack st;
  rec (CArrLoop []) st.

Definition arrLoop (rec : rec_t) (acc : list expr) (st : pst) : res val :=
  if is_p PRBrack st then (LET _, st <- next st; ROk (VE (EArr (rev acc))) st)
  else if is_eof st then RErr
  else if is_p PComma st then (LET _, st <- next st; rec (CArrLoop (EHole :: acc)) st)
  else
    LET e, st <- asE (rec CAssignment st);
    if is_p PRBrack st then rec (CArrLoop (e :: acc)) st
    else (LET _, st <- expect PComma st; rec (CArrLoop (e :: acc)) st).

(* parseObjectPropertyKey: the value of a key token *)
Inductive keyres := KeyVal (v : bytes) | KeyErr | KeyPanic.
Definition key_value (t : tok) : keyres :=
  match t with
  | TId s => KeyVal s
  | TNum lit => KeyVal lit
  | TStr lit =>
    match lit with
    | _ :: body => match str_value (removelast body) with
                   | VVal v => KeyVal v | VErr => KeyErr | VPanic => KeyPanic end
    | [] => KeyVal []
    end
  | _ => let l := tok_literal t in if match_identifier l then KeyVal l else KeyVal []
  end.

Definition parseObjectLiteral (rec : rec_t) (st : pst) : res val :=
  LET _, st <- expect PLBrace st;
  rec (CObjLoop []) st.

(* the loop with parseObjectProperty inlined.  A comma between properties is optional. *)
Definition objLoop (rec : rec_t) (acc : list (bytes * expr)) (st : pst) : res val :=
  if is_p PRBrace st then (LET _, st <- next st; ROk (VE (EObj (rev acc))) st)
  else if is_eof st then RErr
  else
    let t := tk st in
    LET _, st <- next st;
    match key_value t with
    | KeyErr => RErr
    | KeyPanic => RPanic
    | KeyVal k =>
      let accessor := match t with
                      | TId s => (beqb s (B "get") || beqb s (B "set")) && negb (is_p PColon st)
                      | _ => false
                      end in
      if accessor then ROut
      else
        LET _, st <- expect PColon st;
        LET v, st <- asE (rec CAssignment st);
        if is_p PComma st then (LET _, st <- next st; rec (CObjLoop ((k, v) :: acc)) st)
        else rec (CObjLoop ((k, v) :: acc)) st
    end.

(* ------------------------------------------------------------------ statement.go *)

(* parseFunction(false): name, parseFunctionParameterList, parseFunctionBlock *)
Definition parseFunction (rec : rec_t) (st : pst) : res val :=
  LET _, st <- expect_kw KFunction st;
  LET name, st <- match tk st with
                 | TId x => LET _, st' <- next st; ROk (Some x) st'
                 | _ => ROk None st
                 end;
  LET _, st <- expect PLParen st;
  LET params, st <- asB (rec (CParamLoop []) st);
  LET _, st <- expect PLBrace st;
  LET body, st <- asSL (rec (CStmtLoop false true []) st);
  LET _, st <- expect PRBrace st;
  ROk (VE (EFun name params body)) st.

Definition paramLoop (rec : rec_t) (acc : list bytes) (st : pst) : res val :=
  if is_p PRParen st then (LET _, st <- next st; ROk (VB (rev acc)) st)
  else if is_eof st then RErr
  else
    match tk st with
    | TId x =>
      LET _, st <- next st;
      if is_p PRParen st then rec (CParamLoop (x :: acc)) st
      else (LET _, st <- expect PComma st; rec (CParamLoop (x :: acc)) st)
    | _ => RErr
    end.

(* parseStatementList (top = false: stops at "}" or EOF) and the loops of
   parseSourceElements (top = true: stops at EOF only) *)
Definition stmtLoop (rec : rec_t) (top inf : bool) (acc : list stmt) (st : pst) : res val :=
  if is_eof st || (negb top && is_p PRBrace st) then ROk (VSL (rev acc)) st
  else
    LET s, st <- asS (rec (CStatement inf) st);
    rec (CStmtLoop top inf (s :: acc)) st.

(* self.optionalSemicolon() *)
Definition optionalSemicolon (st : pst) : res unit :=
  if is_p PSemi st then next st
  else if imp st then ROk tt (mk_pst (tk st) (rs st) (ins st) false)
  else if is_eof st || is_p PRBrace st then ROk tt st
  else RErr.

(* self.semicolon() *)
Definition semicolon (st : pst) : res unit :=
  if is_p PRParen st || is_p PRBrace st then ROk tt st
  else if imp st then ROk tt (mk_pst (tk st) (rs st) (ins st) false)
  else expect PSemi st.

Definition parseStatement (rec : rec_t) (inf : bool) (st : pst) : res val :=
  match tk st with
  | TEOF => RErr
  | TP PSemi => LET _, st <- next st; ROk (VS SEmpty) st
  | TP PLBrace => ROut
  | TKw KIf | TKw KDo | TKw KWhile | TKw KFor | TKw KBreak | TKw KContinue | TKw KDebugger
  | TKw KWith | TKw KFunction | TKw KSwitch | TKw KThrow | TKw KTry => ROut
  | TKw KVar =>
    LET _, st <- next st;
    rec (CVarLoop []) st
  | TKw KReturn =>
    LET _, st <- next st;
    if negb inf then RErr                                           (* Illegal return statement *)
    else if negb (imp st) && negb (is_p PSemi st) && negb (is_p PRBrace st) && negb (is_eof st) then
      LET e, st <- asE (rec CExpression st);
      LET _, st <- semicolon st;
      ROk (VS (SReturn (Some e))) st
    else
      LET _, st <- semicolon st;
      ROk (VS (SReturn None)) st
  | _ =>
    LET e, st <- asE (rec CExpression st);
    match e with
    | EId _ => if is_p PColon st then ROut                          (* LabelledStatement *)
               else (LET _, st <- optionalSemicolon st; ROk (VS (SExpr e)) st)
    | _ => LET _, st <- optionalSemicolon st; ROk (VS (SExpr e)) st
    end
  end.

(* parseVariableStatement / parseVariableDeclarationList / parseVariableDeclaration *)
Definition varLoop (rec : rec_t) (acc : list (bytes * option expr)) (st : pst) : res val :=
  match tk st with
  | TId x =>
    LET _, st <- next st;
    LET init, st <- (if is_p PAssign st
                    then (LET _, st' <- next st; LET e, st'' <- asE (rec CAssignment st'); ROk (Some e) st'')
                    else ROk None st);
    if is_p PComma st then (LET _, st <- next st; rec (CVarLoop ((x, init) :: acc)) st)
    else (LET _, st <- semicolon st; ROk (VS (SVar (rev ((x, init) :: acc)))) st)
  | _ => RErr
  end.

(* parser.parse(): self.next(); parseProgram *)
Definition parseProgram (rec : rec_t) (st : pst) : res val :=
  LET _, st <- next st;
  rec (CStmtLoop true false []) st.

(* ------------------------------------------------------------------ closing the recursion *)

Definition step (rec : rec_t) (c : call) (st : pst) : res val :=
  match c with
  | CExpression => parseExpression rec st
  | CSeqLoop acc => seqLoop rec acc st
  | CAssignment => parseAssignmentExpression rec st
  | CConditional => parseConditionalExpression rec st
  | CBin l => parseBinary rec l st
  | CBinLoop l e0 => binLoop rec l e0 st
  | CUnary => parseUnaryExpression rec st
  | CPostfix => parsePostfixExpression rec st
  | CLhsCall => parseLeftHandSideExpressionAllowCall rec st
  | CLhs => parseLeftHandSideExpression rec st
  | CMember a e0 => memberLoop rec a e0 st
  | CNew => parseNewExpression rec st
  | CPrimary => parsePrimaryExpression rec st
  | CArgs => parseArgumentList rec st
  | CArgLoop acc => argLoop rec acc st
  | CArray => parseArrayLiteral rec st
  | CArrLoop acc => arrLoop rec acc st
  | CObject => parseObjectLiteral rec st
  | CObjLoop acc => objLoop rec acc st
  | CFunction => parseFunction rec st
  | CParamLoop acc => paramLoop rec acc st
  | CStmtLoop top inf acc => stmtLoop rec top inf acc st
  | CStatement inf => parseStatement rec inf st
  | CVarLoop acc => varLoop rec acc st
  | CProgram => parseProgram rec st
  end.

Fixpoint run (fuel : nat) (c : call) (st : pst) : res val :=
  match fuel with
  | O => RFuel
  | S f => step (run f) c st
  end.

(* ------------------------------------------------------------------ entry points *)

Inductive pres :=
| POk (body : list stmt)     (* (program, nil): Program.Body *)
| PErr                       (* err <> nil *)
| POutside
| PFuel
| PPanic.

Definition fuel_of (src : bytes) : nat := 64 * (length src + 2).

Definition init_st (src : bytes) : pst := mk_pst TEOF src false false.

Definition parse_with (fuel : nat) (src : bytes) : pres :=
  if negb (utf8_valid src) then PErr                 (* read(): "Invalid UTF-8 character" *)
  else
    match run fuel CProgram (init_st src) with
    | ROk (VSL body) _ => POk body
    | ROk _ _ => POutside
    | RErr => PErr
    | ROut => POutside
    | RFuel => PFuel
    | RPanic => PPanic
    end.

(* parser.ParseFile(nil, "", src, 0) *)
Definition parse_file (src : bytes) : pres := parse_with (fuel_of src) src.

Definition wrap_function (params body : bytes) : bytes :=
  B "(function(" ++ params ++ B ") {" ++ [c_lf] ++ body ++ [c_lf] ++ B "})".

(* parser.ParseFunction(params, body) after the repair of F-C15-a: the shape of the
   program is checked and an error is returned.  POk carries the one statement. *)
Definition parse_function_with (fuel : nat) (params body : bytes) : pres :=
  match parse_with fuel (wrap_function params body) with
  | POk [SExpr (EFun n ps b)] => POk [SExpr (EFun n ps b)]
  | POk _ => PErr
  | r => r
  end.

Definition parse_function (params body : bytes) : pres :=
  parse_function_with (fuel_of (wrap_function params body)) params body.

(* the same entry point before the repair:
   program.Body[0].( *ast.ExpressionStatement).Expression.( *ast.FunctionLiteral) *)
Definition unrepaired_parse_function (params body : bytes) : pres :=
  match parse_file (wrap_function params body) with
  | POk (SExpr (EFun n ps b) :: _) => POk [SExpr (EFun n ps b)]
  | POk _ => PPanic
  | r => r
  end.

(* ------------------------------------------------------------------ canonical dump *)
(* The same S-expression text is produced by harness/c15.go from the otto/ast tree
   and by gen/c15.py from the generator's tree. *)

Definition hexdig (n : N) : ascii :=
  if (n <? 10)%N then ascii_of_N (48 + n) else ascii_of_N (87 + n).
Fixpoint hex_of (s : bytes) : bytes :=
  match s with
  | [] => []
  | c :: r => hexdig (cn c / 16) :: hexdig (N.modulo (cn c) 16) :: hex_of r
  end.

Definition binop_text (op : binop) : bytes :=
  match op with
  | BAdd => B "+" | BSub => B "-" | BMul => B "*" | BDiv => B "/" | BMod => B "%"
  | BLt => B "<" | BGt => B ">" | BLe => B "<=" | BGe => B ">=" | BEq => B "==" | BSEq => B "==="
  | BNe => B "!=" | BSNe => B "!==" | BAnd => B "&&" | BOr => B "||" | BBitAnd => B "&"
  | BBitOr => B "|" | BBitXor => B "^" | BShl => B "<<" | BShr => B ">>" | BUShr => B ">>>"
  | BInstanceof => B "instanceof" | BIn => B "in"
  end.

Definition unop_text (op : unop) : bytes :=
  match op with
  | UNot => B "!" | UNeg => B "-" | UPlus => B "+" | UTypeof => B "typeof" | UBitNot => B "~"
  | UDelete => B "delete" | UVoid => B "void" | UInc => B "++" | UDec => B "--"
  end.

Definition quote_name (q : ascii) : bytes :=
  if ceq q c_dq then B "d" else if ceq q c_sq then B "s" else B "b".

Definition sp : bytes := B " ".

Fixpoint dump_e (e : expr) : bytes :=
  let fix dl (l : list expr) : bytes :=
    match l with [] => [] | x :: r => sp ++ dump_e x ++ dl r end in
  match e with
  | EId x => B "(id " ++ x ++ B ")"
  | ENum lit => B "(num " ++ lit ++ sp ++
                match num_value lit with Some v => B "i" ++ show_N v | None => B "f" end ++ B ")"
  | EStr q v => B "(str " ++ quote_name q ++ sp ++ hex_of v ++ B ")"
  | EBool true => B "(bool true)"
  | EBool false => B "(bool false)"
  | ENull => B "(null)"
  | EThis => B "(this)"
  | EHole => B "(hole)"
  | EArr es => B "(arr" ++ dl es ++ B ")"
  | EObj kvs =>
    B "(obj" ++
    (fix dk (l : list (bytes * expr)) : bytes :=
       match l with
       | [] => []
       | (k, v) :: r => B " (" ++ hex_of k ++ sp ++ dump_e v ++ B ")" ++ dk r
       end) kvs ++ B ")"
  | EDot a x => B "(dot " ++ dump_e a ++ sp ++ x ++ B ")"
  | EIdx a i => B "(idx " ++ dump_e a ++ sp ++ dump_e i ++ B ")"
  | ECall f args => B "(call " ++ dump_e f ++ dl args ++ B ")"
  | ENew f args => B "(new " ++ dump_e f ++ dl args ++ B ")"
  | EUn op false a => B "(pre " ++ unop_text op ++ sp ++ dump_e a ++ B ")"
  | EUn op true a => B "(post " ++ unop_text op ++ sp ++ dump_e a ++ B ")"
  | EBin op l r => B "(bin " ++ binop_text op ++ sp ++ dump_e l ++ sp ++ dump_e r ++ B ")"
  | ECond c a b => B "(cond " ++ dump_e c ++ sp ++ dump_e a ++ sp ++ dump_e b ++ B ")"
  | EAssign op l r =>
    B "(assign " ++ match op with None => B "=" | Some o => binop_text o end ++ sp ++
    dump_e l ++ sp ++ dump_e r ++ B ")"
  | ESeq es => B "(seq" ++ dl es ++ B ")"
  | EFun name params body =>
    B "(fun " ++ match name with Some n => n | None => B "-" end ++ B " (" ++ join sp params ++ B ") (" ++
    (fix ds (l : list stmt) : bytes :=
       match l with [] => [] | s :: r => dump_s s ++ ds r end) body ++ B "))"
  end
with dump_s (s : stmt) : bytes :=
  match s with
  | SExpr e => B "(expr " ++ dump_e e ++ B ")"
  | SVar ds =>
    B "(var" ++
    (fix dv (l : list (bytes * option expr)) : bytes :=
       match l with
       | [] => []
       | (x, None) :: r => B " (" ++ x ++ B ")" ++ dv r
       | (x, Some e) :: r => B " (" ++ x ++ sp ++ dump_e e ++ B ")" ++ dv r
       end) ds ++ B ")"
  | SReturn None => B "(return)"
  | SReturn (Some e) => B "(return " ++ dump_e e ++ B ")"
  | SEmpty => B "(empty)"
  end.

Definition dump_prog (body : list stmt) : bytes :=
  B "(prog" ++ concat_bytes (map (fun s => sp ++ dump_s s) body) ++ B ")".

(* ------------------------------------------------------------------ conversion to the shared AST *)
(* Js/Ast.v's jexpr (used by the template core) has values where this tree has literal text:
   None for what jexpr cannot express (floats as text, elisions, function literals). *)
Fixpoint to_jexpr (e : expr) : option jexpr :=
  let fix all (l : list expr) : option (list jexpr) :=
    match l with
    | [] => Some []
    | x :: r => match to_jexpr x, all r with Some a, Some b => Some (a :: b) | _, _ => None end
    end in
  match e with
  | EId x => Some (JId x)
  | ENum lit => match num_value lit with Some v => Some (JNum (Z.of_N v)) | None => None end
  | EStr _ v => Some (JStr v)
  | EBool b => Some (JBool b)
  | ENull => Some JNull
  | EThis => Some (JId (B "this"))
  | EHole => None
  | EArr es => match all es with Some l => Some (JArr l) | None => None end
  | EObj kvs =>
    match (fix go (l : list (bytes * expr)) : option (list (bytes * jexpr)) :=
             match l with
             | [] => Some []
             | (k, v) :: r => match to_jexpr v, go r with Some a, Some b => Some ((k, a) :: b) | _, _ => None end
             end) kvs with
    | Some l => Some (JObj l)
    | None => None
    end
  | EDot a x => match to_jexpr a with Some a' => Some (JDot a' x) | None => None end
  | EIdx a i => match to_jexpr a, to_jexpr i with Some a', Some i' => Some (JIdx a' i') | _, _ => None end
  | ECall f args => match to_jexpr f, all args with Some f', Some l => Some (JCall f' l) | _, _ => None end
  | ENew f args => match to_jexpr f, all args with Some f', Some l => Some (JNew f' l) | _, _ => None end
  | EUn op p a => match to_jexpr a with Some a' => Some (JUn op p a') | None => None end
  | EBin op l r => match to_jexpr l, to_jexpr r with Some l', Some r' => Some (JBin op l' r') | _, _ => None end
  | ECond c a b =>
    match to_jexpr c, to_jexpr a, to_jexpr b with
    | Some c', Some a', Some b' => Some (JCond c' a' b')
    | _, _, _ => None
    end
  | EAssign op l r =>
    match to_jexpr l, to_jexpr r with Some l', Some r' => Some (JAssign op l' r') | _, _ => None end
  | ESeq es => match all es with Some l => Some (JSeq l) | None => None end
  | EFun _ _ _ => None
  end.
