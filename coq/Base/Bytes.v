(* Byte strings as lists of 8-bit characters: exactly a Go string. *)
From Coq Require Export String Ascii List Bool Arith ZArith NArith Lia.
Export ListNotations.
Open Scope list_scope.

Definition bytes := list ascii.
Definition B (s : string) : bytes := list_ascii_of_string s.

Definition beqb (a b : bytes) : bool :=
  if list_eq_dec ascii_dec a b then true else false.

Lemma beqb_eq a b : beqb a b = true <-> a = b.
Proof. unfold beqb; destruct (list_eq_dec ascii_dec a b); split; congruence. Qed.

Lemma beqb_refl a : beqb a a = true.
Proof. apply beqb_eq; reflexivity. Qed.

Lemma beqb_neq a b : beqb a b = false <-> a <> b.
Proof. unfold beqb; destruct (list_eq_dec ascii_dec a b); split; congruence. Qed.

Definition mem (x : bytes) (l : list bytes) : bool := existsb (beqb x) l.

Lemma mem_In x l : mem x l = true <-> In x l.
Proof.
  unfold mem; rewrite existsb_exists; split.
  - intros [y [Hy He]]; apply beqb_eq in He; subst; exact Hy.
  - intros H; exists x; split; [exact H|apply beqb_refl].
Qed.

Lemma mem_false_In x l : mem x l = false <-> ~ In x l.
Proof.
  rewrite <- mem_In; destruct (mem x l); split; intros; congruence.
Qed.

(* association lists keyed by bytes, used as finite maps *)
Fixpoint lookup {A} (k : bytes) (m : list (bytes * A)) : option A :=
  match m with
  | [] => None
  | (k', v) :: r => if beqb k k' then Some v else lookup k r
  end.

(* insert: replace the value of an existing key in place, else append at the end
   (a Go map assignment; position is irrelevant for maps and only fixed here) *)
Fixpoint insert {A} (k : bytes) (v : A) (m : list (bytes * A)) : list (bytes * A) :=
  match m with
  | [] => [(k, v)]
  | (k', v') :: r => if beqb k k' then (k', v) :: r else (k', v') :: insert k v r
  end.

Definition keys {A} (m : list (bytes * A)) : list bytes := map fst m.

Lemma lookup_insert_same {A} k (v : A) m : lookup k (insert k v m) = Some v.
Proof.
  induction m as [|[k' v'] r IH]; simpl.
  - rewrite beqb_refl; reflexivity.
  - destruct (beqb k k') eqn:E; simpl; rewrite E; [reflexivity|exact IH].
Qed.

Lemma lookup_insert_other {A} k k' (v : A) m :
  k <> k' -> lookup k' (insert k v m) = lookup k' m.
Proof.
  intros Hn; induction m as [|[k2 v2] r IH]; simpl.
  - destruct (beqb k' k) eqn:E; [apply beqb_eq in E; congruence|reflexivity].
  - destruct (beqb k k2) eqn:E; simpl.
    + apply beqb_eq in E; subst k2.
      destruct (beqb k' k) eqn:E2; [apply beqb_eq in E2; congruence|reflexivity].
    + destruct (beqb k' k2); [reflexivity|exact IH].
Qed.

Lemma keys_insert_In {A} k (v : A) m x :
  In x (keys (insert k v m)) <-> x = k \/ In x (keys m).
Proof.
  unfold keys; induction m as [|[k' v'] r IH]; simpl.
  - intuition.
  - destruct (beqb k k') eqn:E; simpl.
    + apply beqb_eq in E; subst; intuition.
    + rewrite IH; intuition.
Qed.

Lemma NoDup_keys_insert {A} k (v : A) m :
  NoDup (keys m) -> NoDup (keys (insert k v m)).
Proof.
  unfold keys; induction m as [|[k' v'] r IH]; simpl; intros H.
  - constructor; [intros []|constructor].
  - inversion H as [|? ? Hni Hnd]; subst.
    destruct (beqb k k') eqn:E; simpl.
    + constructor; assumption.
    + constructor; [|apply IH; exact Hnd].
      intros Hin. apply (keys_insert_In k v r k') in Hin.
      destruct Hin as [->|Hin]; [rewrite beqb_refl in E; discriminate|contradiction].
Qed.

Lemma lookup_In_keys {A} k (m : list (bytes * A)) :
  (exists v, lookup k m = Some v) <-> In k (keys m).
Proof.
  unfold keys; induction m as [|[k' v'] r IH]; simpl.
  - split; [intros [v H]; discriminate|intros []].
  - destruct (beqb k k') eqn:E.
    + apply beqb_eq in E; subst; split; eauto.
    + rewrite IH; split; [intros; right; assumption|].
      intros [->|H]; [rewrite beqb_refl in E; discriminate|exact H].
Qed.

(* decimal printing of naturals and integers *)
Definition digit (n : N) : ascii := ascii_of_N (48 + n).

Fixpoint show_N_fuel (fuel : nat) (n : N) (acc : bytes) : bytes :=
  match fuel with
  | O => acc
  | S f =>
    let acc' := digit (N.modulo n 10) :: acc in
    if N.ltb n 10 then acc' else show_N_fuel f (N.div n 10) acc'
  end.

Definition show_N (n : N) : bytes := show_N_fuel (S (N.to_nat (N.log2 n))) n [].

Definition show_Z (z : Z) : bytes :=
  match z with
  | Z0 => B "0"
  | Zpos p => show_N (Npos p)
  | Zneg p => "-"%char :: show_N (Npos p)
  end.

(* prefix / suffix / substring tests *)
Fixpoint prefixb (p s : bytes) : bool :=
  match p, s with
  | [], _ => true
  | a :: p', b :: s' => if Ascii.eqb a b then prefixb p' s' else false
  | _ :: _, [] => false
  end.

Lemma prefixb_spec p s : prefixb p s = true <-> exists r, s = p ++ r.
Proof.
  revert s; induction p as [|a p IH]; intros s; simpl.
  - split; [intros _; exists s; reflexivity|reflexivity].
  - destruct s as [|b s].
    + split; [discriminate|intros [r H]; discriminate].
    + destruct (Ascii.eqb a b) eqn:E.
      * apply Ascii.eqb_eq in E; subst b. rewrite IH.
        split; intros [r H]; exists r; [rewrite H; reflexivity|inversion H; reflexivity].
      * apply Ascii.eqb_neq in E.
        split; [discriminate|intros [r H]; inversion H; congruence].
Qed.

Fixpoint containsb (p s : bytes) : bool :=
  prefixb p s ||
  match s with
  | [] => false
  | _ :: s' => containsb p s'
  end.

Definition suffixb (p s : bytes) : bool := prefixb (rev p) (rev s).

Fixpoint concat_bytes (l : list bytes) : bytes :=
  match l with [] => [] | x :: r => x ++ concat_bytes r end.

Fixpoint join (sep : bytes) (l : list bytes) : bytes :=
  match l with
  | [] => []
  | [x] => x
  | x :: r => x ++ sep ++ join sep r
  end.
