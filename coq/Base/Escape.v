(* HTML escaping as pugjs/tpl_funcs.go HTMLEscape does it (five characters),
   and the reader-side inverse on exactly those five references. *)
From PV Require Import Base.Bytes.

Definition esc_char (c : ascii) : bytes :=
  if Ascii.eqb c """" then B "&#34;"
  else if Ascii.eqb c "'" then B "&#39;"
  else if Ascii.eqb c "&" then B "&amp;"
  else if Ascii.eqb c "<" then B "&lt;"
  else if Ascii.eqb c ">" then B "&gt;"
  else [c].

Definition escape (s : bytes) : bytes := flat_map esc_char s.

Definition is_special (c : ascii) : bool :=
  Ascii.eqb c """" || Ascii.eqb c "'" || Ascii.eqb c "&" || Ascii.eqb c "<" || Ascii.eqb c ">".

(* what a conforming HTML parser does with the five references the escaper emits *)
Fixpoint unesc (skip : nat) (s : bytes) : bytes :=
  match s with
  | [] => []
  | c :: r =>
    match skip with
    | S k => unesc k r
    | O =>
      if Ascii.eqb c "&" then
        if prefixb (B "#34;") r then """"%char :: unesc 4 r
        else if prefixb (B "#39;") r then "'"%char :: unesc 4 r
        else if prefixb (B "amp;") r then "&"%char :: unesc 4 r
        else if prefixb (B "lt;") r then "<"%char :: unesc 3 r
        else if prefixb (B "gt;") r then ">"%char :: unesc 3 r
        else c :: unesc 0 r
      else c :: unesc 0 r
    end
  end.

Definition unescape5 (s : bytes) : bytes := unesc 0 s.
