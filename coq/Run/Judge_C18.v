(* Executable judge for C18 correspondence cases: one call of one helper. *)
From Coq Require Export QArith.
From Coq Require Import Qabs.
From PV Require Export Models.MathFns.
From PV Require Import Base.Bytes Run.Verdict.

Inductive fn := FMin | FMax | FCeil | FTrunc | FRound | FParseInt.

(* how the call was made (recorded with the case; the model does not depend on it) *)
Inductive via :=
| Direct        (* exported Go method / ParseInt{}.Func(ctx) called from Go *)
| TplLiteral    (* Engine.Render of "= Math.f(…)" with the arguments as literals in the JS source *)
| TplVar        (* … with the arguments bound by "- var v = …" first *)
| TplData.      (* … with the arguments as fields of the render data *)

Record case18 := {
  f    : fn;
  args : list arg;      (* kind + exact rational value | string | other kind *)
  how  : via;
  lits : list (bytes * Q);
                        (* every decimal literal token of the arguments' JavaScript source (and every decimal
                           text handed to parseFloat), unsigned, with the double the generator read it as *)
  go   : outcome;       (* observed: Val q | Panic | Declined = output that is not a number *)
}.

(* emitter helpers *)
Definition q (n : Z) (d : positive) : Q := Qmake n d.

(* ------------------------------------------------------------------ *)
(* the generator's reading of decimal literals, re-checked here:
   text = digits* [. digits*] [(e|E) [+|-] digits+] denotes the decimal d;
   the claimed value v must be a binary64 number (a multiple of 2^(e-52) where
   2^e <= |v| < 2^(e+1)) with |d - v| <= half an ulp of v, i.e. a nearest double
   (normal range; either neighbour is accepted on an exact tie). *)

Fixpoint take_digits (s : bytes) (acc : Z) (n : nat) : Z * nat * bytes :=
  match s with
  | c :: r => if is_digit c then take_digits r (acc * 10 + (Z.of_N (N_of_ascii c) - 48))%Z (S n)
              else (acc, n, s)
  | [] => (acc, n, s)
  end.

Definition pow10 (k : Z) : Q :=
  if (0 <=? k)%Z then inject_Z (10 ^ k) else Qmake 1 (Z.to_pos (10 ^ (- k))).
Definition pow2 (k : Z) : Q :=
  if (0 <=? k)%Z then inject_Z (2 ^ k) else Qmake 1 (Z.to_pos (2 ^ (- k))).

Definition dec_value (s : bytes) : option Q :=
  let '(ip, ni, r1) := take_digits s 0 0 in
  let '(fp, nf, r2) := match r1 with
                       | c :: r => if Ascii.eqb c "." then take_digits r ip 0 else (ip, 0%nat, r1)
                       | [] => (ip, 0%nat, r1)
                       end in
  if (ni + nf =? 0)%nat then None else
  let m := (inject_Z fp * pow10 (- Z.of_nat nf))%Q in
  match r2 with
  | [] => Some m
  | c :: r =>
    if Ascii.eqb c "e" || Ascii.eqb c "E" then
      let '(sg, r3) := match r with
                       | x :: r' => if Ascii.eqb x "-" then ((-1)%Z, r')
                                    else if Ascii.eqb x "+" then (1%Z, r') else (1%Z, r)
                       | [] => (1%Z, r)
                       end in
      let '(ev, ne, r4) := take_digits r3 0 0 in
      match ne, r4 with
      | S _, [] => Some (m * pow10 (sg * ev))%Q
      | _, _ => None
      end
    else None
  end.

Definition nearest_double (d v : Q) : bool :=
  let v := Qred v in
  if Qeq_bool v 0 then Qeq_bool d 0
  else
    let e := (Z.log2 (Z.abs (Qnum v)) - Z.log2 (Z.pos (Qden v)))%Z in
    (* for a double, 2^e <= |v| < 2^(e+1), and v is a multiple of its ulp 2^(e-52) (53 significant bits);
       for any other rational the second test fails *)
    (Qden (Qred (v * pow2 (52 - e))) =? 1)%positive &&
    Qle_bool (pow2 e) (Qabs v) && negb (Qle_bool (pow2 (e + 1)) (Qabs v)) &&
    Qle_bool (Qabs (d - v)) (pow2 (e - 53)).

Definition lit_ok (tv : bytes * Q) : bool :=
  match dec_value (fst tv) with
  | Some d => nearest_double d (snd tv)
  | None => false
  end.

Definition lits_ok (c : case18) : bool := forallb lit_ok (lits c).

(* M *)
Definition model (c : case18) : outcome :=
  match f c, args c with
  | FMin, l => go_min l
  | FMax, l => go_max l
  | FCeil, [a] => go_ceil a
  | FTrunc, [a] => go_trunc a
  | FRound, [a] => go_round a
  | FParseInt, [a] => go_parse_int a
  | _, _ => Declined
  end.

(* the property's quantifier, computed from the case alone *)
Fixpoint nums (l : list arg) : option (list Q) :=
  match l with
  | [] => Some []
  | ANum _ v :: r => match nums r with Some vs => Some (v :: vs) | None => None end
  | _ :: _ => None
  end.

Definition in_dom (c : case18) : bool :=
  match f c, args c with
  | FMin, l | FMax, l => match nums l with Some vs => dom_args vs | None => false end
  | FCeil, [ANum _ v] | FTrunc, [ANum _ v] | FRound, [ANum _ v] => dom_num v
  | FParseInt, [ANum _ v] => dom_pnum v
  | FParseInt, [AStr s] => dom_digits s
  | _, _ => false
  end.

(* S, independently of M *)
Definition spec (c : case18) : option Q :=
  match f c, args c with
  | FMin, l => match nums l with Some vs => Some (es_min vs) | None => None end
  | FMax, l => match nums l with Some vs => Some (es_max vs) | None => None end
  | FCeil, [ANum _ v] => Some (inject_Z (es_ceil v))
  | FTrunc, [ANum _ v] => Some (inject_Z (es_trunc v))
  | FRound, [ANum _ v] => Some (inject_Z (es_round v))
  | FParseInt, [ANum _ v] => Some (inject_Z (es_parse_int_num v))
  | FParseInt, [AStr s] => Some (inject_Z (es_parse_int_digits s))
  | _, _ => None
  end.

Definition oracle18 (c : case18) : bool :=
  match spec c, go c with
  | Some s, Val g => Qeq_bool s g
  | _, _ => false
  end.

Definition outcome_eqb (a b : outcome) : bool :=
  match a, b with
  | Val x, Val y => Qeq_bool x y
  | Panic, Panic => true
  | _, _ => false
  end.

Definition declined (o : outcome) : bool :=
  match o with Declined => true | _ => false end.

(* a case whose literals the generator misread is a defect of the check itself: reported as drift *)
Definition judge (c : case18) : nat :=
  if negb (lits_ok c) then v_drift
  else if negb (in_dom c) && declined (model c) then v_unmodelled
  else verdict (in_dom c) (oracle18 c) (outcome_eqb (model c) (go c)).
