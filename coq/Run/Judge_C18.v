(* Executable judge for C18 correspondence cases: one call of one helper. *)
From Coq Require Export QArith.
From PV Require Export Models.MathFns.
From PV Require Import Base.Bytes Run.Verdict.

Inductive fn := FMin | FMax | FCeil | FTrunc | FRound | FParseInt.

(* how the call was made (recorded with the case; the model does not depend on it) *)
Inductive via :=
| Direct        (* exported Go method / ParseInt{}.Func(ctx) called from Go *)
| TplLiteral    (* Engine.Render of "= Math.f(…)" with the arguments as literals in the JS source *)
| TplVar        (* … with the arguments bound by "- var v = …" first *)
| TplData.      (* … with the arguments as fields of the render data *)

Record case18 := {
  f    : fn;
  args : list arg;      (* kind + exact rational value | string | other kind *)
  how  : via;
  go   : outcome;       (* observed: Val q | Panic | Declined = output that is not a number *)
}.

(* emitter helpers *)
Definition q (n : Z) (d : positive) : Q := Qmake n d.

(* M *)
Definition model (c : case18) : outcome :=
  match f c, args c with
  | FMin, l => go_min l
  | FMax, l => go_max l
  | FCeil, [a] => go_ceil a
  | FTrunc, [a] => go_trunc a
  | FRound, [a] => go_round a
  | FParseInt, [a] => go_parse_int a
  | _, _ => Declined
  end.

(* the property's quantifier, computed from the case alone *)
Fixpoint nums (l : list arg) : option (list Q) :=
  match l with
  | [] => Some []
  | ANum _ v :: r => match nums r with Some vs => Some (v :: vs) | None => None end
  | _ :: _ => None
  end.

Definition in_dom (c : case18) : bool :=
  match f c, args c with
  | FMin, l | FMax, l => match nums l with Some vs => dom_args vs | None => false end
  | FCeil, [ANum _ v] | FTrunc, [ANum _ v] | FRound, [ANum _ v] => dom_num v
  | FParseInt, [ANum _ v] => dom_pnum v
  | FParseInt, [AStr s] => dom_digits s
  | _, _ => false
  end.

(* S, independently of M *)
Definition spec (c : case18) : option Q :=
  match f c, args c with
  | FMin, l => match nums l with Some vs => Some (es_min vs) | None => None end
  | FMax, l => match nums l with Some vs => Some (es_max vs) | None => None end
  | FCeil, [ANum _ v] => Some (inject_Z (es_ceil v))
  | FTrunc, [ANum _ v] => Some (inject_Z (es_trunc v))
  | FRound, [ANum _ v] => Some (inject_Z (es_round v))
  | FParseInt, [ANum _ v] => Some (inject_Z (es_parse_int_num v))
  | FParseInt, [AStr s] => Some (inject_Z (es_parse_int_digits s))
  | _, _ => None
  end.

Definition oracle18 (c : case18) : bool :=
  match spec c, go c with
  | Some s, Val g => Qeq_bool s g
  | _, _ => false
  end.

Definition outcome_eqb (a b : outcome) : bool :=
  match a, b with
  | Val x, Val y => Qeq_bool x y
  | Panic, Panic => true
  | _, _ => false
  end.

Definition declined (o : outcome) : bool :=
  match o with Declined => true | _ => false end.

Definition judge (c : case18) : nat :=
  if negb (in_dom c) && declined (model c) then v_unmodelled
  else verdict (in_dom c) (oracle18 c) (outcome_eqb (model c) (go c)).
