(* Executable judge for C08 correspondence cases.

   One case = one engine: the sequential result of every job before and after the storm, and
   for every round the concurrent results of all calls (job index, what Render returned) plus
   a schedule over the call indices under which the model is run.

   [seq] is the result of every job rendered ALONE: in the storm's own process before the storm
   (warm cases) or, for COLD cases, in a separate fresh process (so that in the storm's process
   nothing - no Go type, no template, no helper - has been used before several renders use it
   at once).  A goroutine may render its job several times per round; [calls] has one entry per
   goroutine and DISTINCT result it got (a correct engine: exactly one per goroutine). *)
From Coq Require Export Uint63.   (* case files write %uint63 literals *)
From PV Require Import Base.Bytes Models.Sched Run.Verdict.

(* ---- long outputs in case files (as in Run/Judge_C14.v) ----
   A string literal costs 100-300 us per byte to elaborate; outputs of kilobytes (the storms of
   many goroutines over deep data) are written as a list of primitive 63-bit integers instead,
   7 bytes per integer, lowest byte first, below a sentinel bit (so that a word may carry fewer
   than 7 bytes and zero bytes survive).  Decoding only; nothing is proved about primitive
   integers and no theorem mentions them. *)
Definition bit63 (v k : Uint63.int) : bool :=
  negb (Uint63.is_zero (PrimInt63.land (PrimInt63.lsr v k) 1%uint63)).

Definition byte_of_word (v : Uint63.int) : ascii :=
  Ascii (bit63 v 0%uint63) (bit63 v 1%uint63) (bit63 v 2%uint63) (bit63 v 3%uint63)
        (bit63 v 4%uint63) (bit63 v 5%uint63) (bit63 v 6%uint63) (bit63 v 7%uint63).

Fixpoint word_go (fuel : nat) (v : Uint63.int) (acc : bytes) : bytes :=
  match fuel with
  | O => acc
  | S f => if PrimInt63.leb v 1%uint63 then acc
           else byte_of_word v :: word_go f (PrimInt63.lsr v 8%uint63) acc
  end.

Fixpoint unpack (ws : list Uint63.int) : bytes :=
  match ws with
  | [] => []
  | w :: r => word_go 7 w (unpack r)
  end.

Example unpack_example :
  unpack [99453508561040499%uint63; 81628010175558503%uint63; 295%uint63] =
  B "stripTags<&>" ++ ["000"%char; """"%char; "'"%char].
Proof. vm_compute. reflexivity. Qed.

Record round08 := {
  calls : list (nat * result);         (* per goroutine: job index, what Render returned: inl out | inr class *)
  sched : list nat;                    (* an interleaving of the calls' model steps *)
}.

(* schedules are written run-length encoded: [(g, k)] = k steps of call g in a row *)
Definition rle (l : list (nat * nat)) : list nat :=
  flat_map (fun gk => repeat (fst gk) (snd gk)) l.

Record case08 := {
  seq : list result;                   (* Render(job) alone, before the storm *)
  seq_after : list result;             (* Render(job) alone, after the storm *)
  rounds : list round08;
  races : nat;                         (* race detector reports attributed to this case *)
  crashed : bool;                      (* the process died (fatal error: concurrent map ...) *)
}.

(* equality of outputs by plain recursion (Base.Bytes.beqb goes through list_eq_dec, whose proof
   terms cost microseconds per byte: too slow for 256 results of kilobytes per case) *)
Fixpoint bytes_eqb (a b : bytes) : bool :=
  match a, b with
  | [], [] => true
  | x :: a', y :: b' => Ascii.eqb x y && bytes_eqb a' b'
  | _, _ => false
  end.

Definition res_eqb (a b : result) : bool :=
  match a, b with
  | inl x, inl y => bytes_eqb x y
  | inr j, inr k => Nat.eqb j k
  | _, _ => false
  end.

Definition results_eqb (a b : list result) : bool :=
  Nat.eqb (length a) (length b) && forallb (fun xy => res_eqb (fst xy) (snd xy)) (combine a b).

Definition in_dom08 (c : case08) : bool :=
  forallb (fun r => forallb (fun jr => Nat.ltb (fst jr) (length (seq c))) (calls r)) (rounds c).

(* the property itself on Go's own output, independent of the model:
   every concurrent result is the sequential result of the same (template, data), the engine
   answers afterwards as before, and the race detector stayed silent *)
Definition oracle08 (c : case08) : bool :=
  negb (crashed c) && Nat.eqb (races c) 0 && results_eqb (seq c) (seq_after c) &&
  forallb (fun r => forallb (fun jr => res_eqb (snd jr) (nth (fst jr) (seq c) (inr 0))) (calls r))
          (rounds c).

(* the model: the calls as replay renders over the table of sequential results, run under the
   given schedule; None = some render has not returned under that schedule *)
Definition model_round (c : case08) (r : round08) : option (list result) :=
  let s := run pstep (sched r) (mkSys (mk_jobtab (seq c)) (map (fun jr => new_replay (fst jr)) (calls r))) in
  if complete pstep s
  then Some (map (fun p => match presult p with Some x => x | None => inr 0 end) (rs s))
  else None.

Definition round_agrees (c : case08) (r : round08) : bool :=
  match model_round c r with
  | Some outs => results_eqb outs (map snd (calls r))
  | None => false
  end.

Definition agree08 (c : case08) : bool :=
  negb (crashed c) && Nat.eqb (races c) 0 && results_eqb (seq c) (seq_after c) &&
  forallb (round_agrees c) (rounds c).

Definition judge (c : case08) : nat :=
  verdict (in_dom08 c) (oracle08 c) (agree08 c).
