(* Executable judge for C08 correspondence cases.

   One case = one engine: the sequential result of every job before and after the storm, and
   for every round the concurrent results of all calls (job index, what Render returned) plus
   a schedule over the call indices under which the model is run.

   [seq] is the result of every job rendered ALONE: in the storm's own process before the storm
   (warm cases) or, for COLD cases, in a separate fresh process (so that in the storm's process
   nothing - no Go type, no template, no helper - has been used before several renders use it
   at once).  A goroutine may render its job several times per round; [calls] has one entry per
   goroutine and DISTINCT result it got (a correct engine: exactly one per goroutine). *)
From PV Require Import Base.Bytes Models.Sched Run.Verdict.

Record round08 := {
  calls : list (nat * result);         (* per goroutine: job index, what Render returned: inl out | inr class *)
  sched : list nat;                    (* an interleaving of the calls' model steps *)
}.

Record case08 := {
  seq : list result;                   (* Render(job) alone, before the storm *)
  seq_after : list result;             (* Render(job) alone, after the storm *)
  rounds : list round08;
  races : nat;                         (* race detector reports attributed to this case *)
  crashed : bool;                      (* the process died (fatal error: concurrent map ...) *)
}.

Definition res_eqb (a b : result) : bool :=
  match a, b with
  | inl x, inl y => beqb x y
  | inr j, inr k => Nat.eqb j k
  | _, _ => false
  end.

Definition results_eqb (a b : list result) : bool :=
  Nat.eqb (length a) (length b) && forallb (fun xy => res_eqb (fst xy) (snd xy)) (combine a b).

Definition in_dom08 (c : case08) : bool :=
  forallb (fun r => forallb (fun jr => Nat.ltb (fst jr) (length (seq c))) (calls r)) (rounds c).

(* the property itself on Go's own output, independent of the model:
   every concurrent result is the sequential result of the same (template, data), the engine
   answers afterwards as before, and the race detector stayed silent *)
Definition oracle08 (c : case08) : bool :=
  negb (crashed c) && Nat.eqb (races c) 0 && results_eqb (seq c) (seq_after c) &&
  forallb (fun r => forallb (fun jr => res_eqb (snd jr) (nth (fst jr) (seq c) (inr 0))) (calls r))
          (rounds c).

(* the model: the calls as replay renders over the table of sequential results, run under the
   given schedule; None = some render has not returned under that schedule *)
Definition model_round (c : case08) (r : round08) : option (list result) :=
  let s := run pstep (sched r) (mkSys (mk_jobtab (seq c)) (map (fun jr => new_replay (fst jr)) (calls r))) in
  if complete pstep s
  then Some (map (fun p => match presult p with Some x => x | None => inr 0 end) (rs s))
  else None.

Definition round_agrees (c : case08) (r : round08) : bool :=
  match model_round c r with
  | Some outs => results_eqb outs (map snd (calls r))
  | None => false
  end.

Definition agree08 (c : case08) : bool :=
  negb (crashed c) && Nat.eqb (races c) 0 && results_eqb (seq c) (seq_after c) &&
  forallb (round_agrees c) (rounds c).

Definition judge (c : case08) : nat :=
  verdict (in_dom08 c) (oracle08 c) (agree08 c).
