(* Executable judge for C12 correspondence cases.

   One case: a JSON-shaped Go value d and the texts the real code produced for it
     direct   JSON{}.Stringify(pugjs.Convert(d))                       (exported API)
     raw      template  != JSON.stringify(x)
     helper   template  != json(x)
     esc      template  = JSON.stringify(x)   (HTML-escaped; un-escaped here with Base.Escape.unescape5)
     rt       template  - var y = JSON.parse(JSON.stringify(x)) ; != JSON.stringify(y)
     reparse  JSON{}.Stringify(JSON{}.Parse(direct))                   (exported API)
   (None = the call panicked / the render failed) plus the Go-side oracle bit
     decoded_equal   encoding/json decodes direct to a value deep-equal to d (integers compared exactly).

   Oracle (independent of the model M; uses only S = json_of, the reader and the recogniser, both of which
   accept insignificant white space, so a harmless re-formatting is drift and not a violation):
     each of the four stringified texts is a valid JSON text that the reader decodes to json_of d, Go's own
     decoder agrees (decoded_equal), and parsing + stringifying again gives the same text as before
     (in the template: rt = raw; through the exported functions: reparse = direct).
   Agreement: every text equals what M computes (stringify_data d, and parse-then-stringify of it).

   A case may carry a HISTORY run in the same process after the six observations above (Models/JsonHist.v):
     steps   the abstract history: HConv / HParse / HMut / HOut over numbered variables (what the generated
             templates and exported-API calls do, in execution order; several renders, engines, templates)
     outs    one text per HOut, in order (None = that render / API segment failed)
   Oracle for the history (S only: spec_run = value semantics on JSON trees, pristine_run):
     an output of a value nothing was done to (the data, or a parse of its text - however many other copies were
     parsed and mutated before) is byte for byte the text t of the data; an output of a mutated copy is a valid
     JSON text that reads as the mutated tree.
   Agreement for the history: outs = run_data d steps (M: the heap machine without a table). *)
From PV Require Import Base.Bytes Base.Escape Run.Verdict.
From PV Require Export Models.Json Models.JsonHist.   (* generated case files name their constructors *)

Record case12 := {
  src : gv;
  direct : option bytes;
  raw : option bytes;
  helper : option bytes;
  esc : option bytes;
  rt : option bytes;
  reparse : option bytes;
  decoded_equal : bool;
  steps : list hstep;
  outs : list (option bytes);
}.

Definition is_text (o : option bytes) (t : bytes) : bool :=
  match o with
  | Some x => bytes_eqb x t
  | None => false
  end.

Definition opt_text_eqb (a b : option bytes) : bool :=
  match a, b with
  | Some x, Some y => bytes_eqb x y
  | None, None => true
  | _, _ => false
  end.

(* the property's domain, except that numbers the model does not cover (GOther: a float64 with a fraction,
   minus zero, or beyond 2^54) are let through: they are judged by the Go-side oracle alone *)
Fixpoint dom_other (d : gv) : bool :=
  match d with
  | GNil | GBool _ | GOther => true
  | GInt z => (Z.abs z <=? two53)%Z
  | GStr s => utf8_valid s
  | GArr l => forallb dom_other l
  | GMap m => nodupb (map fst m)
              && forallb (fun kv => match kv with (k, v) => key_lower_initial k && utf8_valid k && dom_other v end) m
  end.

Definition model_reparse (m : bytes) : option bytes :=
  match parse m with
  | Some y => Some (stringify y)
  | None => None
  end.

(* is x a JSON text for the value j?  (t, ok_t): a text already examined, so that byte-identical texts
   - the usual case - are read once *)
Definition reads_as (j : jv) (x : bytes) : bool :=
  valid_json x && match decode x with
                  | Some j' => jv_eqb j' j
                  | None => false
                  end.

Definition text_ok (j : jv) (t : bytes) (ok_t : bool) (o : option bytes) : bool :=
  match o with
  | Some x => if bytes_eqb x t then ok_t else reads_as j x
  | None => false
  end.

(* S against Go's own outputs: sp = spec_run, fl = pristine_run *)
Fixpoint hist_oracle (t : bytes) (sp : list (option jv)) (fl : list bool) (os : list (option bytes)) : bool :=
  match sp, fl, os with
  | [], [], [] => true
  | Some j' :: sp', b :: fl', Some x :: os' =>
    (if b then bytes_eqb x t else reads_as j' x) && hist_oracle t sp' fl' os'
  | _, _, _ => false
  end.

(* data the Gallina value space does not cover: the untouched values still must give the text t, the others a JSON text *)
Fixpoint hist_plain (t : bytes) (fl : list bool) (os : list (option bytes)) : bool :=
  match fl, os with
  | [], [] => true
  | b :: fl', Some x :: os' => (if b then bytes_eqb x t else valid_json x) && hist_plain t fl' os'
  | _, _ => false
  end.

Fixpoint outs_eqb (a b : list (option bytes)) : bool :=
  match a, b with
  | [], [] => true
  | x :: a', y :: b' => opt_text_eqb x y && outs_eqb a' b'
  | _, _ => false
  end.

Definition judge (c : case12) : nat :=
  let d := src c in
  match direct c with
  | None =>
    (* no text at all: inside the domain that is a failure of the property *)
    if dom_C12 d then v_violation else if modelled d then v_drift else v_unmodelled
  | Some t =>
    let esc' := option_map unescape5 (esc c) in
    let fixpoint := opt_text_eqb (reparse c) (Some t) && opt_text_eqb (rt c) (raw c) in
    let fl := pristine_run (steps c) [] in
    if modelled d && steps_modelled (steps c) then
      let j := json_of d in
      if steps_fit (steps c) [] j then
        let ok_t := reads_as j t in
        let oracle := ok_t && text_ok j t ok_t (raw c) && text_ok j t ok_t (helper c) && text_ok j t ok_t esc'
                      && fixpoint && decoded_equal c
                      && hist_oracle t (spec_run j (steps c) []) fl (outs c) in
        let m := stringify_data d in
        let mre := model_reparse m in
        let agree := bytes_eqb t m && is_text (raw c) m && is_text (helper c) m && is_text esc' m
                     && opt_text_eqb (reparse c) mre && opt_text_eqb (rt c) mre
                     && outs_eqb (outs c) (run_data d (steps c)) in
        verdict (dom_C12 d && steps_dom (steps c)) oracle agree
      else v_unmodelled     (* a history that does not type-check: not something the generator writes *)
    else if dom_other d && steps_dom (steps c) then
      (* only the Go-side oracle and the recogniser can speak: all texts valid, identical, fixpoint, decoded_equal *)
      if valid_json t && is_text (raw c) t && is_text (helper c) t && is_text esc' t && fixpoint && decoded_equal c
         && hist_plain t fl (outs c)
      then v_unmodelled else v_violation
    else v_unmodelled
  end.
