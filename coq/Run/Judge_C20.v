(* Executable judge for C20 correspondence cases: a generated history of method calls,
   executed by the real engine through a template, against M (the code as modelled) and
   S (JavaScript). *)
From Coq Require Import ZArith List Ascii String Bool.
From PV Require Import Base.Bytes Run.Verdict.
From PV Require Export Models.ArrayOps.   (* case files name the constructors of stmt/arg/lit *)
Import ListNotations.

Inductive elit := ELit (l : lit) | ENull.
Inductive init :=
| IArr (xs : list elit)     (* - var v = [ ... ]   or a []interface{} of the page data *)
| INat (l : lit)            (* - var v = <literal> : a native Go value (negative numbers arrive boxed) *)
| IBox (e : elit).          (* a scalar of the page data: converted, i.e. boxed *)

Record case20 := {
  inits    : list (nat * init);
  body     : prog;
  go_class : nat;            (* 0 = rendered, 1 = execution panic, 2 = anything else (load error, ...) *)
  go_out   : bytes;          (* the rendered text when go_class = 0 *)
}.

Definition g_elem (e : elit) : gval :=
  match e with ELit (LNum z) => Num z | ELit (LStr s) => Str s | ELit (LBool b) => Bool b | ENull => Nil end.
Definition j_elem (e : elit) : jval :=
  match e with ELit l => jlit l | ENull => JNull end.

Definition init_m (st : mstate) (vi : nat * init) : mstate :=
  match snd vi with
  | IArr xs => {| m_env := env_set (fst vi) (Arr (length (m_heap st))) (m_env st);
                  m_heap := m_heap st ++ [map g_elem xs] |}
  | INat (LNum z) => {| m_env := env_set (fst vi) (if Z.ltb z 0 then Num z else GInt z) (m_env st); m_heap := m_heap st |}
  | INat (LStr s) => {| m_env := env_set (fst vi) (GStr s) (m_env st); m_heap := m_heap st |}
  | INat (LBool b) => {| m_env := env_set (fst vi) (GBool b) (m_env st); m_heap := m_heap st |}
  | IBox e => {| m_env := env_set (fst vi) (g_elem e) (m_env st); m_heap := m_heap st |}
  end.
Definition init_j (st : jstate) (vi : nat * init) : jstate :=
  match snd vi with
  | IArr xs => {| j_env := env_set (fst vi) (JArr (length (j_heap st))) (j_env st);
                  j_heap := j_heap st ++ [map j_elem xs] |}
  | INat l => {| j_env := env_set (fst vi) (jlit l) (j_env st); j_heap := j_heap st |}
  | IBox e => {| j_env := env_set (fst vi) (j_elem e) (j_env st); j_heap := j_heap st |}
  end.
Definition m0 (c : case20) : mstate := fold_left init_m (inits c) {| m_env := []; m_heap := [] |}.
Definition j0 (c : case20) : jstate := fold_left init_j (inits c) {| j_env := []; j_heap := [] |}.

(* every printing statement is followed by the text "|" in the template *)
Definition render (outs : list bytes) : bytes := concat_bytes (map (fun t => t ++ B "|") outs).

Definition flag_class (f : flag) : nat :=
  match f with FUnit => 1 | FNullish => 2 | FLongTie => 3 end.

Definition same (cls : nat) (out : bytes) (c : case20) : bool :=
  Nat.eqb cls (go_class c) && (negb (Nat.eqb cls 0) || beqb out (go_out c)).

Definition model_says (c : case20) : option (nat * bytes) :=
  match m_run (body c) (m0 c) with
  | MOk (_, outs) => Some (0, render outs)
  | MPanic => Some (1, [])
  | MUnmod => None
  end.
Definition spec_says (c : case20) : option (bytes * list flag) :=
  match js_run (body c) (j0 c) with
  | Some (_, outs, fl) => Some (render outs, fl)
  | None => None
  end.

Definition judge (c : case20) : nat :=
  match model_says c with
  | None => v_unmodelled
  | Some (mc, mo) =>
    let agree := same mc mo c in
    match spec_says c with
    | None => verdict false true agree                       (* outside the property's range *)
    | Some (so, []) => verdict true (same 0 so c) agree
    | Some (so, f :: _) =>
      (* a listed deviation occurs in this history *)
      if same 0 so c then (if agree then v_agree else v_drift)
      else if agree then v_known (flag_class f) else v_violation
    end
  end.
