(* Shared judge of the template-pipeline properties (C01-C04, C06, C13): one pug tree, rendered by the
   real engine with several data values in production (and optionally debug) mode, compared with
   M (Pug.Compile + Tmpl.Exec) and with S (Spec.Sem), the independent semantics. *)
From PV Require Export Base.Bytes Base.Escape Js.Ast Pug.Ast Tmpl.Value Tmpl.IR Tmpl.Exec.
From PV Require Import Pug.Compile Pug.Lower Run.Verdict Spec.Sem.

Record obsm := { o_loaded : bool; o_code : bytes; o_res : list (nat * bytes) }.   (* class: 0 ok, 1 panic, 2 other *)
Record caseC := {
  c_nodes : list pnode;
  c_datas : list dval;
  c_funcs : list bytes;
  c_prod : obsm;
  c_debug : option obsm;
}.

Fixpoint sd_of (d : dval) : sdata :=
  match d with
  | DNil => SDNil | DBool b => SDBool b | DInt z => SDInt z | DStr s => SDStr s
  | DArr l => SDArr (map sd_of l)
  | DMap l => SDMap (map (fun kv => (fst kv, sd_of (snd kv))) l)
  end.
Definition sd_top (d : dval) : list (bytes * sdata) :=
  match sd_of d with SDMap l => l | _ => [] end.

Definition model_toks (dbg : bool) (c : caseC) : option (list tok) := compile (c_funcs c) dbg (c_nodes c).
Definition model_program (dbg : bool) (c : caseC) : option program :=
  match model_toks dbg c with Some ts => parse_program ts | None => None end.
Definition model_out (dbg : bool) (c : caseC) (d : dval) : outcome :=
  match model_program dbg c with Some p => run_program p d | None => OUnmod end.
Definition spec_out (c : caseC) (d : dval) : sout := sem_run (c_nodes c) (sd_top d).

(* does Go's observation equal the model's outcome? 0 yes, 1 no, 3 model declines *)
Definition agree_code (loaded : bool) (go : nat * bytes) (m : outcome) : nat :=
  match m with
  | OUnmod | OFuel => 3
  | OOk o => if loaded && Nat.eqb (fst go) 0 && beqb o (snd go) then 0 else 1
  | OPanic => if loaded && Nat.eqb (fst go) 1 then 0 else 1
  end.

(* a is obtained from b by deleting white space (space, tab, CR, LF) only *)
Fixpoint ws_subseq (a b : bytes) : bool :=
  match b with
  | [] => match a with [] => true | _ => false end
  | y :: b' =>
    match a with
    | x :: a' => if Ascii.eqb x y then ws_subseq a' b' else if is_space y then ws_subseq a b' else false
    | [] => if is_space y then ws_subseq [] b' else false
    end
  end.
Definition erase_ws (s : bytes) : bytes := filter (fun c => negb (is_space c)) s.

(* constructs whose lowering carries trim markers *)
Fixpoint has_ctl (n : pnode) : bool :=
  match n with
  | PTag _ _ _ _ b | PBlock b => existsb has_ctl b
  | PCode stmts _ _ =>
    match stmts with
    | [SExpr (JAssign _ _ _)] | [SExpr (JUn UInc _ _)] | [SVar _] => true
    | [SExpr _] => false
    | _ => true
    end
  | PText _ | PDoctype _ | PComment => false
  | _ => true
  end.
Definition edge_ws_free (t : bytes) : bool :=
  match t, rev t with
  | x :: _, y :: _ => negb (is_space x) && negb (is_space y)
  | _, _ => true
  end.
Fixpoint texts_ok (n : pnode) : bool :=
  let all := fix go (l : list pnode) : bool := match l with [] => true | x :: r => texts_ok x && go r end in
  match n with
  | PText t => edge_ws_free t
  | PCode [SExpr (JStr t)] _ _ => edge_ws_free t     (* a literal is emitted as static text *)
  | PTag _ _ _ _ b | PBlock b | PEach _ _ _ b | PWhile _ b | PMixinDef _ _ b | PMixinCall _ _ _ b => all b
  | PCond _ c a => all c && match a with Some a' => texts_ok a' | None => true end
  | PCase _ ws => (fix go (l : list (option jexpr * list pnode)) : bool :=
                     match l with [] => true | w :: r => all (snd w) && go r end) ws
  | _ => true
  end.

(* the property's oracle on Go's own output, given what S prescribes *)
Definition out_ok (c : caseC) (go spec : bytes) : bool :=
  if existsb has_ctl (c_nodes c) && negb (forallb texts_ok (c_nodes c)) then ws_subseq go spec
  else beqb go spec.

(* the tree-level lowering the C02 simulation theorem is about (Pug/Lower.v) must behave as the parsed compiled
   tokens do: evaluated on every case of the fragment whose texts have no edge white space (trim markers
   remove that from the token form only); 0 same outcome, 1 different, 3 not applicable *)
Definition outcome_eqb (a b : outcome) : bool :=
  match a, b with
  | OOk x, OOk y => beqb x y
  | OPanic, OPanic | OUnmod, OUnmod | OFuel, OFuel => true
  | _, _ => false
  end.
Definition lower_seam (c : caseC) (d : dval) : nat :=
  if negb (forallb texts_ok (c_nodes c)) then 3 else
  match lower_nodes (c_funcs c) (fun _ => true) (c_nodes c) with
  | None => 3
  | Some t => if outcome_eqb (run_program {| p_main := t; p_defs := [] |} d) (model_out false c d) then 0 else 1
  end.

(* verdict for one data value in production mode *)
Definition judge_one (c : caseC) (d : dval) (go : nat * bytes) : nat :=
  let loaded := o_loaded (c_prod c) in
  let a0 := agree_code loaded go (model_out false c d) in
  let a := match a0, lower_seam c d with 0, 1 => 1 | x, _ => x end in   (* a lowering that disagrees with the compiled form is drift *)
  let plain := match a with 0 => v_agree | 3 => v_unmodelled | _ => v_drift end in
  match spec_out c d with
  | SOut o [] =>
    if loaded && Nat.eqb (fst go) 0 && out_ok c (snd go) o then (match a with 1 => v_drift | _ => v_agree end)
    else v_violation
  | SOut o (f :: _) =>
    if loaded && Nat.eqb (fst go) 0 && out_ok c (snd go) o then (match a with 1 => v_drift | _ => v_agree end)
    else match a with
         | 0 => v_known f
         | 3 => v_unmodelled
         | _ =>
           (* the listed deviation does not show in this case (the model of the code as it is prints what S
              prescribes), so the case is inside the property's domain: the implementation contradicts S *)
           match model_out false c d with
           | OOk mo => if out_ok c mo o then v_violation else v_drift
           | _ => v_drift
           end
         end
  | SError [] =>
    if loaded && Nat.eqb (fst go) 1 then (match a with 1 => v_drift | _ => v_agree end) else v_violation
  | SError (f :: _) =>
    if loaded && Nat.eqb (fst go) 1 then (match a with 1 => v_drift | _ => v_agree end)
    else match a with 0 => v_known f | 3 => v_unmodelled | _ => v_drift end
  | SOffDomain | SNoFuel => plain
  end.

(* worst verdict of a list: violation > drift > known > unmodelled > agree *)
Definition rank (v : nat) : nat :=
  if Nat.eqb v v_violation then 4 else if Nat.eqb v v_drift then 3
  else if Nat.leb 10 v then 2 else if Nat.eqb v v_unmodelled then 1 else 0.
Definition worst (l : list nat) : nat :=
  fold_left (fun acc v => if Nat.ltb (rank acc) (rank v) then v else acc) l v_agree.

Fixpoint zip_judge (c : caseC) (ds : list dval) (rs : list (nat * bytes)) : list nat :=
  match ds, rs with
  | d :: ds', r :: rs' => judge_one c d r :: zip_judge c ds' rs'
  | [], [] => []
  | _, _ => [v_drift]                          (* a load failure leaves no results *)
  end.

Definition load_verdict (c : caseC) : option nat :=
  (* the engine refused to load: a violation when S gives the template a meaning, else judged against M *)
  if o_loaded (c_prod c) then None else
  match c_datas c with
  | d :: _ =>
    match spec_out c d with
    | SOut _ [] | SError [] => Some v_violation
    | _ => match model_program false c with Some _ => Some v_drift | None => Some v_unmodelled end
    end
  | [] => Some v_unmodelled
  end.

Definition judge (c : caseC) : nat :=
  match load_verdict c with
  | Some v => v
  | None => worst (zip_judge c (c_datas c) (o_res (c_prod c)))
  end.

(* advisory seam: emitted template text *)
Definition text_seam (c : caseC) : nat :=
  match model_toks false c with
  | None => 3
  | Some ts => if o_loaded (c_prod c) && beqb (show_toks ts) (o_code (c_prod c)) then 0 else 1
  end.
