(* Executable judge for C10 correspondence cases.

   One case = one real Engine (mode [c_debug]) over a generated directory
   [c_fs0], the calls [c_ops] (thread i = call i: Render or LoadTemplates) and
   the schedule [c_evs]: [EStep i] = the harness released thread i from the
   yield point it was parked at (or started it) and waited until it parked
   again or returned; [ECompile i] = the harness released thread i, parked at
   "load:locked" or inside a FuncProvider call of its load, and let it run to
   the next FuncProvider call (the next file of the compile) or to the end of
   the load; [EFs t] = the harness edited the files, [t] is the whole tree
   below template/page afterwards.  Observed: per event the yield point the
   thread reached ([g_steps]), per thread the class of what the call returned
   ([g_res]).

   A released thread may also be observed BLOCKED (it neither parks nor
   returns within the probe bound: it waits for the lock a parked thread
   holds).  It is then in flight: it goes on by itself as soon as the lock is
   released, and the schedule must give its next [EStep] right after the
   releasing step.  The machine refuses the step of a blocked thread (no-op),
   which is what the observation is compared with.  Schedules whose outcome
   would depend on who wins the lock (two or more threads in flight one of
   which starts a load), that do anything else while released threads are
   running, that edit files while a load is between two of its files, or that
   continue a compile whose length depends on the unknown Readdir order, are
   declined (unmodelled); the generator emits none - except file edits inside
   a load (stream 6), which are judged by the oracle alone: violation or
   unmodelled.

   agree  : the machine of Models/Loader.v, run on the same schedule, parks
            every thread at the same points and gives every call the same
            result.  (Readdir order is not known to the case: when some tree of
            the case holds files of both failure kinds the two failure classes
            are not told apart.)
   oracle : the property on Go's own results, computed from the specification
            side only ([tnames], [compile_file]) with WINDOWS of file-tree
            versions: what a call may answer depends on the versions that were
            current between its first and its last step.  The machine, its
            program counters and the lock are not consulted. *)
From PV Require Import Base.Bytes Run.Verdict.
From PV Require Export Models.Loader.

Inductive gpoint := GCheck | GLocked | GAfterLoad | GDone | GStuck | GNoop | GEdit | GOther | GCompile | GBlocked.
Inductive gres := GR (r : result) | GStuckR | GUnfinished | GOtherR.

Record case10 := {
  c_debug : bool;
  c_fs0   : fstree;
  c_ops   : list op;
  c_evs   : list ev;
  g_steps : list gpoint;
  g_res   : list gres;
  g_late  : bool;          (* some call returned only after the schedule had ended *)
}.

Definition ops_fn (l : list op) : nat -> op := fun i => nth i l (OLoad []).

(* ------------------------------------------------------------ small equalities *)

Definition result_eqb (a b : result) : bool :=
  match a, b with
  | ROk x, ROk y => beqb x y
  | RLoaded, RLoaded | RNotFound, RNotFound | RLoadErr, RLoadErr
  | RLoadPanic, RLoadPanic | RAgain, RAgain => true
  | _, _ => false
  end.

(* the two failure classes identified *)
Definition result_eqb_coarse (a b : result) : bool :=
  match a, b with
  | (RLoadErr | RLoadPanic), (RLoadErr | RLoadPanic) => true
  | _, _ => result_eqb a b
  end.

Definition gres_eqb (coarse : bool) (a b : gres) : bool :=
  match a, b with
  | GR x, GR y => if coarse then result_eqb_coarse x y else result_eqb x y
  | GStuckR, GStuckR | GUnfinished, GUnfinished | GOtherR, GOtherR => true
  | _, _ => false
  end.

Definition gpoint_eqb (a b : gpoint) : bool :=
  match a, b with
  | GCheck, GCheck | GLocked, GLocked | GAfterLoad, GAfterLoad | GDone, GDone
  | GStuck, GStuck | GNoop, GNoop | GEdit, GEdit | GOther, GOther | GCompile, GCompile | GBlocked, GBlocked => true
  | _, _ => false
  end.

Fixpoint list_eqb {A} (eq : A -> A -> bool) (a b : list A) : bool :=
  match a, b with
  | [], [] => true
  | x :: a', y :: b' => eq x y && list_eqb eq a' b'
  | _, _ => false
  end.

(* ------------------------------------------------------------ the model on the schedule *)

Definition point_of (p : pc) : gpoint :=
  match p with
  | PStart => GOther
  | PAfterCheck => GCheck
  | PLocked => GLocked
  | PAfterLoad => GAfterLoad
  | PDone _ => GDone
  end.

Fixpoint memn (i : nat) (l : list nat) : bool :=
  match l with [] => false | x :: t => Nat.eqb x i || memn i t end.

Fixpoint remn (i : nat) (l : list nat) : list nat :=
  match l with [] => [] | x :: t => if Nat.eqb x i then remn i t else x :: remn i t end.

Definition is_nil {A} (l : list A) : bool := match l with [] => true | _ => false end.

(* [fl]: the threads in flight (released, blocked on the lock); [multi]: two or more were in flight at
   once since the set was last empty; [ab]: 0 = the model answers for the schedule so far, 1 = it has
   left what the model answers for, 2 = it has, and the first reason was a file edit inside a load.
   After that the trace is of no interest (the verdict is "unmodelled" unless the oracle objects). *)
Definition dec (ab : nat) (x : bool) (code : nat) : nat :=
  match ab with 0 => if x then code else 0 | _ => ab end.

Definition is0 (n : nat) : bool := match n with 0 => true | _ => false end.

Fixpoint mtrace (debug : bool) (ops : nat -> op) (s : st) (ab : nat) (fl : list nat) (multi : bool)
         (evs : list ev) : list gpoint * st * nat :=
  match evs with
  | [] => ([], s, dec ab (negb (is_nil fl)) 1)
  | EFs t :: r =>
    let racy := negb (is_nil fl) && lock_free s in
    let mid := negb (lock_free s) && (0 <? prog s) in
    let '(tr, s', ab') := mtrace debug ops (set_fs s t) (dec (dec ab racy 1) mid 2) fl multi r in
    (GEdit :: tr, s', ab')
  | EStep i :: r =>
    if negb (is0 ab) || (negb (is_nil fl) && lock_free s && negb (memn i fl))
    then let '(tr, s', ab') := mtrace debug ops s (dec ab true 1) fl multi r in (GNoop :: tr, s', ab')
    else match step debug ops s i with
         | Some s1 =>
           let fl1 := remn i fl in
           let nondet := memn i fl && multi && negb (lock_free s1) in
           let '(tr, s', ab') := mtrace debug ops s1 (dec 0 nondet 1) fl1 (multi && negb (is_nil fl1)) r in
           (point_of (pcs s1 i) :: tr, s', ab')
         | None =>
           match pcs s i with
           | PDone _ => let '(tr, s', ab') := mtrace debug ops s 0 fl multi r in (GNoop :: tr, s', ab')
           | _ =>
             let fl1 := if memn i fl then fl else i :: fl in
             let '(tr, s', ab') := mtrace debug ops s 0 fl1 (multi || negb (is_nil (remn i fl))) r in
             (GBlocked :: tr, s', ab')
           end
         end
  | ECompile i :: r =>
    if negb (is0 ab) || (negb (is_nil fl) && lock_free s && negb (memn i fl))
    then let '(tr, s', ab') := mtrace debug ops s (dec ab true 1) fl multi r in (GNoop :: tr, s', ab')
    else match pcs s i with
         | PLocked =>
           let s1 := compile_ev debug ops s i in
           let orderdep := (0 <? prog s) && negb (good_under debug (filter_of debug (ops i)) (fs s)) in
           let '(tr, s', ab') := mtrace debug ops s1 (dec 0 orderdep 1) fl multi r in
           ((match pcs s1 i with PLocked => GCompile | p => point_of p end) :: tr, s', ab')
         | _ => let '(tr, s', ab') := mtrace debug ops s 0 fl multi r in (GNoop :: tr, s', ab')
         end
  end.

Definition model_run (c : case10) : list gpoint * st * nat :=
  mtrace (c_debug c) (ops_fn (c_ops c)) (init (c_fs0 c)) 0 [] false (c_evs c).

(* Some results when every thread the schedule started has finished and the model answers for the schedule *)
Definition model_results (c : case10) : option (list gres) :=
  let '(_, s, ab) := model_run c in
  if negb (is0 ab) then None
  else
    let rs := map (fun i => pcs s i) (seq 0 (length (c_ops c))) in
    if forallb (fun p => match p with PDone _ | PStart => true | _ => false end) rs
    then Some (map (fun p => match p with PDone r => GR r | _ => GUnfinished end) rs)
    else None.

(* a file edit arrived while a load was between two of its files, and nothing else is amiss before it *)
Definition mid_load_edit (c : case10) : bool :=
  let '(_, _, ab) := model_run c in match ab with 2 => true | _ => false end.

(* ------------------------------------------------------------ windows of tree versions *)

Definition is_step (i : nat) (e : ev) : bool :=
  match e with EStep j | ECompile j => Nat.eqb j i | EFs _ => false end.

Definition has_step (i : nat) (evs : list ev) : bool := existsb (is_step i) evs.

Definition versions (c : case10) : list fstree :=
  c_fs0 c :: flat_map (fun e => match e with EFs t => [t] | _ => [] end) (c_evs c).

(* versions current between the first and the last step of thread i *)
Fixpoint window (i : nat) (evs : list ev) (cur : fstree) (started : bool) : list fstree :=
  match evs with
  | [] => []
  | EFs t :: r =>
    if started && has_step i r then t :: window i r t true else window i r t started
  | (EStep j | ECompile j) :: r =>
    if Nat.eqb j i && negb started then cur :: window i r cur true else window i r cur started
  end.

(* versions current between the start of the case and the last step of thread i *)
Fixpoint hist (i : nat) (evs : list ev) : list fstree :=
  match evs with
  | [] => []
  | EFs t :: r => if has_step i r then t :: hist i r else []
  | _ :: r => hist i r
  end.

Fixpoint first_step (i : nat) (evs : list ev) (k : nat) : option nat :=
  match evs with
  | [] => None
  | e :: r => if is_step i e then Some k else first_step i r (S k)
  end.

Fixpoint last_step (i : nat) (evs : list ev) (k : nat) (acc : option nat) : option nat :=
  match evs with
  | [] => acc
  | e :: r => last_step i r (S k) (if is_step i e then Some k else acc)
  end.

(* ------------------------------------------------------------ S on one version *)

(* None: no template file of that name; Some None: the file does not compile *)
Definition content (debug : bool) (v : fstree) (n : bytes) : option (option bytes) :=
  match lookup n (tnames v) with
  | None => None
  | Some k => Some (ok_of (compile_file debug k))
  end.

Definition bad_class (debug : bool) (flt : bytes) (v : fstree) (want_panic : bool) : bool :=
  match v with
  | None => negb want_panic
  | Some _ =>
    existsb (fun nk => prefixb flt (fst nk)
                       && match compile_file debug (snd nk) with
                          | COk _ => false
                          | CErr => negb want_panic
                          | CPanic => want_panic
                          end) (tnames v)
  end.

Definition bad_under (debug : bool) (flt : bytes) (v : fstree) : bool :=
  bad_class debug flt v false || bad_class debug flt v true.

Definition is_none {A} (o : option A) : bool := match o with None => true | Some _ => false end.

(* ------------------------------------------------------------ oracle *)

Definition shows_loaded (g : gres) : bool :=
  match g with GR RLoaded | GR (ROk _) | GR RNotFound => true | _ => false end.

(* "again" is only a legitimate answer when some other call, begun before this one ended,
   went through a load that completed *)
Definition evidence (c : case10) (i : nat) : bool :=
  match last_step i (c_evs c) 0 None with
  | None => false
  | Some li =>
    existsb (fun jg : nat * gres =>
               let (j, g) := jg in
               negb (Nat.eqb j i) && shows_loaded g
               && match first_step j (c_evs c) 0 with Some fj => fj <? li | None => false end)
            (combine (seq 0 (length (g_res c))) (g_res c))
  end.

(* [relax]: some load of the case read its files from more than one version of the tree (a file edit arrived
   inside it; only contents change then, the names are those of the last version of the window): it
   succeeds if every file it selects compiles in SOME version of its window *)
Definition thread_ok (relax : bool) (c : case10) (i : nat) (o : op) (g : gres) : bool :=
  let debug := c_debug c in
  let evs := c_evs c in
  if negb (has_step i evs) then (match g with GUnfinished => true | _ => false end)
  else
    let W := window i evs (c_fs0 c) false in
    let H := c_fs0 c :: hist i evs in
    let flt := filter_of debug o in
    match g with
    | GStuckR | GUnfinished | GOtherR => false
    | GR r =>
      match o, r with
      | ORender n, ROk out =>
        existsb (fun v => match content debug v n with Some (Some x) => beqb x out | _ => false end)
                (if debug then W else H)
      | ORender n, RNotFound =>
        if debug then existsb (fun v => is_none (content debug v n)) W
        else existsb (fun v => is_none (content debug v n) || bad_under debug [] v) H
      | _, RLoadErr => existsb (fun v => bad_class debug flt v false) W
      | _, RLoadPanic => existsb (fun v => bad_class debug flt v true) W
      | OLoad f, RLoaded =>
        if relax
        then forallb (fun nk => negb (prefixb f (fst nk))
                                || existsb (fun v => match content debug v (fst nk) with
                                                     | Some (Some _) => true | _ => false end) W)
                     (tnames (last W None))
        else existsb (fun v => negb (bad_under debug f v)) W
      | OLoad f, RAgain => is_empty f && evidence c i
      | ORender _, RAgain | ORender _, RLoaded | OLoad _, ROk _ | OLoad _, RNotFound => false
      end
    end.

Fixpoint threads_ok (relax : bool) (c : case10) (i : nat) (os : list op) (gs : list gres) : bool :=
  match os, gs with
  | [], [] => true
  | o :: os', g :: gs' => thread_ok relax c i o g && threads_ok relax c (S i) os' gs'
  | _, _ => false
  end.

(* diagnostic only *)
Definition full_ops (c : case10) : bool :=
  forallb (fun o => match o with OLoad f => is_empty f | ORender _ => true end) (c_ops c).

(* production mode with explicit FILTERED loads: such a load re-reads the files under its filter (that is
   what it is for), and one that fails resets the loaded flag, so that the next render loads everything
   again.  "Loaded once" therefore speaks about the names no filtered load of the case covers, in cases
   where no filtered load failed (both read off the calls and Go's own results) *)
Definition covered (c : case10) (n : bytes) : bool :=
  existsb (fun o => match o with OLoad f => negb (is_empty f) && prefixb f n | ORender _ => false end) (c_ops c).

Definition filtered_failed (c : case10) : bool :=
  existsb (fun og : op * gres =>
             match og with
             | (OLoad f, GR (RLoadErr | RLoadPanic)) => negb (is_empty f)
             | _ => false
             end) (combine (c_ops c) (g_res c)).

(* production mode: all renders (of names no filtered load covers) answered from ONE version of the tree *)
Definition prod_consistent (c : case10) : bool :=
  let vs := versions c in
  let all_good := forallb (fun v => negb (bad_under false [] v)) vs in
  filtered_failed c ||
  existsb (fun v =>
             forallb (fun og : op * gres =>
                        match og with
                        | (ORender n, GR (ROk out)) =>
                          covered c n ||
                          match content false v n with Some (Some x) => beqb x out | _ => false end
                        | (ORender n, GR RNotFound) =>
                          covered c n || (if all_good then is_none (content false v n) else true)
                        | _ => true
                        end) (combine (c_ops c) (g_res c))) vs.

Definition oracle10 (c : case10) : bool :=
  threads_ok false c 0 (c_ops c) (g_res c)
  && (c_debug c || prod_consistent c)
  && forallb (fun p => negb (gpoint_eqb p GStuck)) (g_steps c).

(* production mode, loaded once: all renders of one name that produced output produced the same *)
Definition prod_same_name (c : case10) : bool :=
  let rs := combine (c_ops c) (g_res c) in
  filtered_failed c ||
  forallb (fun a : op * gres =>
             match a with
             | (ORender n, GR (ROk out)) =>
               covered c n ||
               forallb (fun b : op * gres =>
                          match b with
                          | (ORender n', GR (ROk out')) => negb (beqb n n') || beqb out out'
                          | _ => true
                          end) rs
             | _ => true
             end) rs.

(* the oracle for a case with a file edit inside a load: the template set may mix versions of the tree
   file by file, so "one version answers all renders" is weakened to "one answer per name" *)
Definition oracle10_mid (c : case10) : bool :=
  threads_ok true c 0 (c_ops c) (g_res c)
  && (c_debug c || prod_same_name c)
  && forallb (fun p => negb (gpoint_eqb p GStuck)) (g_steps c).

(* domain of the property theorems: production mode - every call, filtered explicit loads included (since
   repair dd313c0); debug mode - renders of non-empty names *)
Definition in_dom10 (c : case10) : bool :=
  forallb dom_fs (versions c)
  && (if c_debug c
      then forallb (fun o => match o with ORender n => negb (is_empty n) | OLoad _ => true end) (c_ops c)
      else true).

(* ------------------------------------------------------------ agreement with M *)

Definition mixed (c : case10) : bool :=
  existsb (fun v => bad_class (c_debug c) [] v false && bad_class (c_debug c) [] v true) (versions c).

Definition agree10 (c : case10) : bool :=
  let '(tr, _, _) := model_run c in
  list_eqb gpoint_eqb tr (g_steps c)
  && negb (g_late c)
  && match model_results c with
     | Some rs => list_eqb (gres_eqb (mixed c)) rs (g_res c)
     | None => false
     end.

(* A schedule the machine cannot follow (a step the lock forbids, or calls left unfinished at the end)
   is not a test of anything: the generator never emits one, a shrinking candidate may be one. *)
Definition judge (c : case10) : nat :=
  if mid_load_edit c
  then (if in_dom10 c && negb (oracle10_mid c) then v_violation else v_unmodelled)
  else match model_results c with
       | None => v_unmodelled
       | Some _ => verdict (in_dom10 c) (oracle10 c) (agree10 c)
       end.

(* diagnostic *)
Definition model_says (c : case10) : list gpoint * option (list gres) :=
  let '(tr, _, _) := model_run c in (tr, model_results c).
