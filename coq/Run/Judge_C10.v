(* Executable judge for C10 correspondence cases.

   One case = one real Engine (mode [c_debug]) over a generated directory
   [c_fs0], the calls [c_ops] (thread i = call i: Render or LoadTemplates) and
   the schedule [c_evs]: [EStep i] = the harness released thread i from the
   yield point it was parked at (or started it) and waited until it parked
   again or returned; [EFs t] = the harness edited the files, [t] is the whole
   tree below template/page afterwards.  Observed: per event the yield point
   the thread reached ([g_steps]), per thread the class of what the call
   returned ([g_res]).

   agree  : the machine of Models/Loader.v, run on the same schedule, parks
            every thread at the same points and gives every call the same
            result.  (Readdir order is not known to the case: when some tree of
            the case holds files of both failure kinds the two failure classes
            are not told apart.)
   oracle : the property on Go's own results, computed from the specification
            side only ([tnames], [compile_file]) with WINDOWS of file-tree
            versions: what a call may answer depends on the versions that were
            current between its first and its last step.  The machine, its
            program counters and the lock are not consulted. *)
From PV Require Import Base.Bytes Run.Verdict.
From PV Require Export Models.Loader.

Inductive gpoint := GCheck | GLocked | GAfterLoad | GDone | GStuck | GNoop | GEdit | GOther.
Inductive gres := GR (r : result) | GStuckR | GUnfinished | GOtherR.

Record case10 := {
  c_debug : bool;
  c_fs0   : fstree;
  c_ops   : list op;
  c_evs   : list ev;
  g_steps : list gpoint;
  g_res   : list gres;
  g_late  : bool;          (* some call returned only after the schedule had ended *)
}.

Definition ops_fn (l : list op) : nat -> op := fun i => nth i l (OLoad []).

(* ------------------------------------------------------------ small equalities *)

Definition result_eqb (a b : result) : bool :=
  match a, b with
  | ROk x, ROk y => beqb x y
  | RLoaded, RLoaded | RNotFound, RNotFound | RLoadErr, RLoadErr
  | RLoadPanic, RLoadPanic | RAgain, RAgain => true
  | _, _ => false
  end.

(* the two failure classes identified *)
Definition result_eqb_coarse (a b : result) : bool :=
  match a, b with
  | (RLoadErr | RLoadPanic), (RLoadErr | RLoadPanic) => true
  | _, _ => result_eqb a b
  end.

Definition gres_eqb (coarse : bool) (a b : gres) : bool :=
  match a, b with
  | GR x, GR y => if coarse then result_eqb_coarse x y else result_eqb x y
  | GStuckR, GStuckR | GUnfinished, GUnfinished | GOtherR, GOtherR => true
  | _, _ => false
  end.

Definition gpoint_eqb (a b : gpoint) : bool :=
  match a, b with
  | GCheck, GCheck | GLocked, GLocked | GAfterLoad, GAfterLoad | GDone, GDone
  | GStuck, GStuck | GNoop, GNoop | GEdit, GEdit | GOther, GOther => true
  | _, _ => false
  end.

Fixpoint list_eqb {A} (eq : A -> A -> bool) (a b : list A) : bool :=
  match a, b with
  | [], [] => true
  | x :: a', y :: b' => eq x y && list_eqb eq a' b'
  | _, _ => false
  end.

(* ------------------------------------------------------------ the model on the schedule *)

Definition point_of (p : pc) : gpoint :=
  match p with
  | PStart => GOther
  | PAfterCheck => GCheck
  | PLocked => GLocked
  | PAfterLoad => GAfterLoad
  | PDone _ => GDone
  end.

(* the harness abandons a case at the first blocked step: later steps are no-ops *)
Fixpoint mtrace (debug : bool) (ops : nat -> op) (s : st) (abandoned : bool) (evs : list ev)
  : list gpoint * st * bool :=
  match evs with
  | [] => ([], s, abandoned)
  | EFs t :: r =>
    let '(tr, s', ab) := mtrace debug ops (set_fs s t) abandoned r in (GEdit :: tr, s', ab)
  | EStep i :: r =>
    if abandoned
    then let '(tr, s', ab) := mtrace debug ops s true r in (GNoop :: tr, s', ab)
    else match step debug ops s i with
         | Some s1 =>
           let '(tr, s', ab) := mtrace debug ops s1 false r in (point_of (pcs s1 i) :: tr, s', ab)
         | None =>
           match pcs s i with
           | PDone _ => let '(tr, s', ab) := mtrace debug ops s false r in (GNoop :: tr, s', ab)
           | _ => let '(tr, s', ab) := mtrace debug ops s true r in (GStuck :: tr, s', ab)
           end
         end
  end.

Definition model_run (c : case10) : list gpoint * st * bool :=
  mtrace (c_debug c) (ops_fn (c_ops c)) (init (c_fs0 c)) false (c_evs c).

(* Some results when every thread the schedule started has finished and nothing blocked *)
Definition model_results (c : case10) : option (list gres) :=
  let '(_, s, ab) := model_run c in
  if ab then None
  else
    let rs := map (fun i => pcs s i) (seq 0 (length (c_ops c))) in
    if forallb (fun p => match p with PDone _ | PStart => true | _ => false end) rs
    then Some (map (fun p => match p with PDone r => GR r | _ => GUnfinished end) rs)
    else None.

(* ------------------------------------------------------------ windows of tree versions *)

Definition is_step (i : nat) (e : ev) : bool :=
  match e with EStep j => Nat.eqb j i | EFs _ => false end.

Definition has_step (i : nat) (evs : list ev) : bool := existsb (is_step i) evs.

Definition versions (c : case10) : list fstree :=
  c_fs0 c :: flat_map (fun e => match e with EFs t => [t] | EStep _ => [] end) (c_evs c).

(* versions current between the first and the last step of thread i *)
Fixpoint window (i : nat) (evs : list ev) (cur : fstree) (started : bool) : list fstree :=
  match evs with
  | [] => []
  | EFs t :: r =>
    if started && has_step i r then t :: window i r t true else window i r t started
  | EStep j :: r =>
    if Nat.eqb j i && negb started then cur :: window i r cur true else window i r cur started
  end.

(* versions current between the start of the case and the last step of thread i *)
Fixpoint hist (i : nat) (evs : list ev) : list fstree :=
  match evs with
  | [] => []
  | EFs t :: r => if has_step i r then t :: hist i r else []
  | EStep _ :: r => hist i r
  end.

Fixpoint first_step (i : nat) (evs : list ev) (k : nat) : option nat :=
  match evs with
  | [] => None
  | e :: r => if is_step i e then Some k else first_step i r (S k)
  end.

Fixpoint last_step (i : nat) (evs : list ev) (k : nat) (acc : option nat) : option nat :=
  match evs with
  | [] => acc
  | e :: r => last_step i r (S k) (if is_step i e then Some k else acc)
  end.

(* ------------------------------------------------------------ S on one version *)

(* None: no template file of that name; Some None: the file does not compile *)
Definition content (debug : bool) (v : fstree) (n : bytes) : option (option bytes) :=
  match lookup n (tnames v) with
  | None => None
  | Some k => Some (ok_of (compile_file debug k))
  end.

Definition bad_class (debug : bool) (flt : bytes) (v : fstree) (want_panic : bool) : bool :=
  match v with
  | None => negb want_panic
  | Some _ =>
    existsb (fun nk => prefixb flt (fst nk)
                       && match compile_file debug (snd nk) with
                          | COk _ => false
                          | CErr => negb want_panic
                          | CPanic => want_panic
                          end) (tnames v)
  end.

Definition bad_under (debug : bool) (flt : bytes) (v : fstree) : bool :=
  bad_class debug flt v false || bad_class debug flt v true.

Definition is_none {A} (o : option A) : bool := match o with None => true | Some _ => false end.

(* ------------------------------------------------------------ oracle *)

Definition shows_loaded (g : gres) : bool :=
  match g with GR RLoaded | GR (ROk _) | GR RNotFound => true | _ => false end.

(* "again" is only a legitimate answer when some other call, begun before this one ended,
   went through a load that completed *)
Definition evidence (c : case10) (i : nat) : bool :=
  match last_step i (c_evs c) 0 None with
  | None => false
  | Some li =>
    existsb (fun jg : nat * gres =>
               let (j, g) := jg in
               negb (Nat.eqb j i) && shows_loaded g
               && match first_step j (c_evs c) 0 with Some fj => fj <? li | None => false end)
            (combine (seq 0 (length (g_res c))) (g_res c))
  end.

Definition thread_ok (c : case10) (i : nat) (o : op) (g : gres) : bool :=
  let debug := c_debug c in
  let evs := c_evs c in
  if negb (has_step i evs) then (match g with GUnfinished => true | _ => false end)
  else
    let W := window i evs (c_fs0 c) false in
    let H := c_fs0 c :: hist i evs in
    let flt := filter_of debug o in
    match g with
    | GStuckR | GUnfinished | GOtherR => false
    | GR r =>
      match o, r with
      | ORender n, ROk out =>
        existsb (fun v => match content debug v n with Some (Some x) => beqb x out | _ => false end)
                (if debug then W else H)
      | ORender n, RNotFound =>
        if debug then existsb (fun v => is_none (content debug v n)) W
        else existsb (fun v => is_none (content debug v n) || bad_under debug [] v) H
      | _, RLoadErr => existsb (fun v => bad_class debug flt v false) W
      | _, RLoadPanic => existsb (fun v => bad_class debug flt v true) W
      | OLoad f, RLoaded => existsb (fun v => negb (bad_under debug f v)) W
      | OLoad f, RAgain => is_empty f && evidence c i
      | ORender _, RAgain | ORender _, RLoaded | OLoad _, ROk _ | OLoad _, RNotFound => false
      end
    end.

Fixpoint threads_ok (c : case10) (i : nat) (os : list op) (gs : list gres) : bool :=
  match os, gs with
  | [], [] => true
  | o :: os', g :: gs' => thread_ok c i o g && threads_ok c (S i) os' gs'
  | _, _ => false
  end.

Definition full_ops (c : case10) : bool :=
  forallb (fun o => match o with OLoad f => is_empty f | ORender _ => true end) (c_ops c).

(* production mode: all renders answered from ONE version of the tree *)
Definition prod_consistent (c : case10) : bool :=
  let vs := versions c in
  let all_good := forallb (fun v => negb (bad_under false [] v)) vs in
  existsb (fun v =>
             forallb (fun og : op * gres =>
                        match og with
                        | (ORender n, GR (ROk out)) =>
                          match content false v n with Some (Some x) => beqb x out | _ => false end
                        | (ORender n, GR RNotFound) =>
                          if all_good then is_none (content false v n) else true
                        | _ => true
                        end) (combine (c_ops c) (g_res c))) vs.

Definition oracle10 (c : case10) : bool :=
  threads_ok c 0 (c_ops c) (g_res c)
  && (c_debug c || prod_consistent c)
  && forallb (fun p => negb (gpoint_eqb p GStuck)) (g_steps c).

(* domain of the property theorems *)
Definition in_dom10 (c : case10) : bool :=
  forallb dom_fs (versions c)
  && (if c_debug c
      then forallb (fun o => match o with ORender n => negb (is_empty n) | OLoad _ => true end) (c_ops c)
      else full_ops c).

(* ------------------------------------------------------------ agreement with M *)

Definition mixed (c : case10) : bool :=
  existsb (fun v => bad_class (c_debug c) [] v false && bad_class (c_debug c) [] v true) (versions c).

Definition agree10 (c : case10) : bool :=
  let '(tr, _, _) := model_run c in
  list_eqb gpoint_eqb tr (g_steps c)
  && negb (g_late c)
  && match model_results c with
     | Some rs => list_eqb (gres_eqb (mixed c)) rs (g_res c)
     | None => false
     end.

(* A schedule the machine cannot follow (a step the lock forbids, or calls left unfinished at the end)
   is not a test of anything: the generator never emits one, a shrinking candidate may be one. *)
Definition judge (c : case10) : nat :=
  match model_results c with
  | None => v_unmodelled
  | Some _ => verdict (in_dom10 c) (oracle10 c) (agree10 c)
  end.

(* diagnostic *)
Definition model_says (c : case10) : list gpoint * option (list gres) :=
  let '(tr, _, _) := model_run c in (tr, model_results c).
