(* Executable judge for C14 correspondence cases. *)
From PV Require Import Base.Bytes Gen.Tables Run.Verdict.
From PV Require Export Models.Strip.   (* case files name hnode's constructors *)

Record case14 := {
  slices   : list (list (option bytes)); (* the config.Slice arguments given to stripTags;
                                            None = an item that is not a string *)
  forest   : list hnode;                 (* what html.ParseFragment returned for the input *)
  go_out   : bytes;                      (* what stripTags returned *)
  tok_ok   : bool;                       (* verdict of the Go-side tokenizer oracle on go_out *)
  modelled : bool;                       (* false: forest shape or definition outside the model *)
}.

Definition allow14 (c : case14) : allowlist := allow_of_slices (slices c).

Definition has_lt (s : bytes) : bool := existsb (Ascii.eqb "<"%char) s.

(* the property itself, executable, independent of the model: the SafeDoc
   checker on Go's own output, the tokenizer's verdict, and no "<" at all
   when nothing is allowed *)
Definition oracle14 (c : case14) : bool :=
  safe_doc_b (allow14 c) (go_out c) && tok_ok c &&
  match allow14 c with
  | [] => negb (has_lt (go_out c))
  | _ :: _ => true
  end.

Definition judge (c : case14) : nat :=
  if modelled c then
    verdict (dom_C14 (allow14 c)) (oracle14 c)
            (beqb (go_out c) (striptags (slices c) (forest c)))
  else v_unmodelled.
