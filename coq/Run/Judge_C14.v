(* Executable judge for C14 correspondence cases. *)
From Coq Require Export Uint63.   (* case files write %uint63 literals *)
From PV Require Import Base.Bytes Gen.Tables Run.Verdict.
From PV Require Export Models.Strip.   (* case files name hnode's and ftok's constructors *)

(* ---- long byte strings in case files ----
   A string literal costs about 100 us per byte to elaborate; results of tens
   of kilobytes are written as a list of primitive 63-bit integers instead,
   7 bytes per integer, lowest byte first, below a sentinel bit (so that a
   word may carry fewer than 7 bytes and zero bytes survive).  Decoding only;
   nothing is proved about primitive integers and no theorem mentions them. *)
Definition bit63 (v k : Uint63.int) : bool :=
  negb (Uint63.is_zero (PrimInt63.land (PrimInt63.lsr v k) 1%uint63)).

Definition byte_of_word (v : Uint63.int) : ascii :=
  Ascii (bit63 v 0%uint63) (bit63 v 1%uint63) (bit63 v 2%uint63) (bit63 v 3%uint63)
        (bit63 v 4%uint63) (bit63 v 5%uint63) (bit63 v 6%uint63) (bit63 v 7%uint63).

Fixpoint word_go (fuel : nat) (v : Uint63.int) (acc : bytes) : bytes :=
  match fuel with
  | O => acc
  | S f => if PrimInt63.leb v 1%uint63 then acc
           else byte_of_word v :: word_go f (PrimInt63.lsr v 8%uint63) acc
  end.

Fixpoint unpack (ws : list Uint63.int) : bytes :=
  match ws with
  | [] => []
  | w :: r => word_go 7 w (unpack r)
  end.

(* stripTags<&> NUL double-quote apostrophe: 15 bytes, three words, the last one short *)
Example unpack_example :
  unpack [99453508561040499%uint63; 81628010175558503%uint63; 295%uint63] =
  B "stripTags<&>" ++ ["000"%char; """"%char; "'"%char].
Proof. vm_compute. reflexivity. Qed.

Record case14 := {
  slices    : list (list (option bytes)); (* the config.Slice arguments given to stripTags;
                                             None = an item that is not a string *)
  toks      : list ftok;                  (* what html.ParseFragment returned for the input, in
                                             document order (Models.Strip.flatten_forest);
                                             [] when cmp_model = false *)
  text      : bytes;                      (* the character data of that forest in document order *)
  go_out    : bytes;                      (* what stripTags returned *)
  tok_ok    : bool;                       (* verdict of the Go-side tokenizer oracle on go_out *)
  modelled  : bool;                       (* false: forest shape or definition outside the model *)
  cmp_model : bool;                       (* false: the forest is too large to be handed over as
                                             a term; only its text is *)
}.

Definition allow14 (c : case14) : allowlist := allow_of_slices (slices c).

Definition forest (c : case14) : list hnode := build_forest (toks c).

Definition has_lt (s : bytes) : bool := existsb (Ascii.eqb "<"%char) s.

(* the property itself, executable, independent of the model: the SafeDoc
   checker on Go's own output, the tokenizer's verdict, and no "<" at all
   when nothing is allowed *)
Definition oracle14 (c : case14) : bool :=
  safe_doc_b (allow14 c) (go_out c) && tok_ok c &&
  match allow14 c with
  | [] => negb (has_lt (go_out c))
  | _ :: _ => true
  end.

(* what is left of the model when the forest is not handed over: the text
   between the tags of the result is the escaped character data of the forest
   (C14_text_escaped; needs allow_ok) *)
Definition text_agrees (c : case14) : bool :=
  beqb (drop_tags false (go_out c)) (esc6 (text c)).

Definition judge (c : case14) : nat :=
  if modelled c then
    if cmp_model c then
      verdict (dom_C14 (allow14 c)) (oracle14 c)
              (beqb (go_out c) (striptags_fast (slices c) (forest c)))
    else if dom_C14 (allow14 c) then verdict true (oracle14 c) (text_agrees c)
    else v_unmodelled
  else v_unmodelled.
