(* Executable judge for C16 correspondence cases.

   A case is what the driver did and saw: the history of Add/End/Finish it
   performed on a real pugjs.Startup, the status code of every probe of
   controllers.Ready.ServeHTTP (with [awaited] = the driver polled, bounded, for
   a 200 because everything it had started had ended and Finish was called),
   and what the listener on Finish's channel had received at the end.
   HOW each probe asked (through a recorder, a kept-alive connection to a real
   http.Server or a net/http client; method, query, headers, body, HTTP version)
   is part of the driver's case but deliberately not of [OProbe]: the status
   the client read is judged as a function of the startup history only
   (Props.C16_answer_of_state_only is the model's side of that).

   agree  = the model, used as an acceptor that inserts WaiterSteps where
            needed ([Models.Startup.run_trace]), allows every observed status
            and ends with exactly the observed deliveries;
   oracle = the property re-stated on the trace itself, without the model. *)
From PV Require Import Base.Bytes Run.Verdict.
From PV Require Export Models.Startup.   (* the case files name its constructors *)

Record case16 := {
  trace : list obs;            (* ends with the driver's final probe *)
  final_delivered : list N;    (* error ids the listener received, in order *)
  settled : bool               (* every End was seen to have fully returned before the next event *)
}.

Fixpoint listN_eqb (a b : list N) : bool :=
  match a, b with
  | [], [] => true
  | x :: a', y :: b' => N.eqb x y && listN_eqb a' b'
  | _, _ => false
  end.

(* ---- agreement with the model *)
Definition model_accepts (c : case16) : option bool :=   (* None = model declines *)
  match run_trace su_init (trace c) with
  | Declined => None
  | Rejected => Some false
  | Accepted s =>
    Some (existsb (fun s' => listN_eqb (delivered s') (final_delivered c)) (ws_closure s))
  end.

(* ---- the property on the trace, independent of the model *)
Fixpoint remove_pid (p : N) (l : list N) : list N :=
  match l with
  | [] => []
  | q :: r => if N.eqb p q then r else q :: remove_pid p r
  end.

Definition is_nil {A} (l : list A) : bool := match l with [] => true | _ => false end.

(* running: started and not yet ended; fin: Finish seen; seen200: an earlier probe said 200 *)
Fixpoint oracle_probes (tr : list obs) (running : list N) (fin seen200 : bool) : bool :=
  match tr with
  | [] => true
  | OAdd p :: r => oracle_probes r (p :: running) fin seen200
  | OEnd p _ :: r => oracle_probes r (remove_pid p running) fin seen200
  | OFinish :: r => oracle_probes r running true seen200
  | OProbe st aw :: r =>
    let ready := fin && is_nil running in
    if N.eqb st 200 then
      (* 200 only after Finish and with nothing running *)
      ready && oracle_probes r running fin true
    else if N.eqb st 425 then
      (* never back to 425; and once everything has ended and startup was
         finished, the awaited probe and the last probe must say 200 *)
      negb seen200 && negb (ready && (aw || is_nil r)) && oracle_probes r running fin seen200
    else false
  end.

Fixpoint trace_first_error (tr : list obs) : option N :=
  match tr with
  | [] => None
  | OEnd _ (failed e) :: _ => Some e
  | _ :: r => trace_first_error r
  end.

Fixpoint last_status (tr : list obs) (cur : option N) : option N :=
  match tr with
  | [] => cur
  | OProbe st _ :: r => last_status r (Some st)
  | _ :: r => last_status r cur
  end.

Definition oracle_delivered (c : case16) : bool :=
  let d := final_delivered c in
  let at200 := match last_status (trace c) None with Some st => N.eqb st 200 | None => false end in
  match trace_first_error (trace c) with
  | None => is_nil d
  | Some e => if at200 then listN_eqb d [e] else is_nil d || listN_eqb d [e]
  end.

Definition oracle16 (c : case16) : bool :=
  oracle_probes (trace c) [] false false && oracle_delivered c.

Definition judge (c : case16) : nat :=
  if negb (settled c) then v_unmodelled   (* completion order not known to the driver *)
  else match model_accepts c with
       | None => v_unmodelled             (* history outside the event grammar *)
       | Some agree => verdict true (oracle16 c) agree
       end.

(* ---- self-tests of the judge (three processes, the second to end fails with 7) *)
Definition jt_good : list obs :=
  [OAdd 1%N; OAdd 2%N; OProbe 425%N false; OEnd 2%N ok; OAdd 3%N; OFinish; OProbe 425%N false;
   OEnd 3%N (failed 7%N); OProbe 425%N false; OEnd 1%N (failed 9%N); OProbe 200%N true;
   OProbe 200%N true].

Example jt_agree : judge {| trace := jt_good; final_delivered := [7%N]; settled := true |} = 0.
Proof. vm_compute. reflexivity. Qed.

(* 200 while process 1 is still running *)
Example jt_early : judge {| trace :=
  [OAdd 1%N; OAdd 2%N; OAdd 3%N; OFinish; OEnd 2%N ok; OEnd 3%N (failed 7%N); OProbe 200%N false;
   OEnd 1%N ok; OProbe 200%N true]; final_delivered := [7%N]; settled := true |} = 1.
Proof. vm_compute. reflexivity. Qed.

(* 200 before Finish *)
Example jt_before_finish : judge {| trace :=
  [OAdd 1%N; OEnd 1%N ok; OProbe 200%N false; OFinish; OProbe 200%N true];
  final_delivered := []; settled := true |} = 1.
Proof. vm_compute. reflexivity. Qed.

(* back from 200 to 425 *)
Example jt_back : judge {| trace :=
  [OAdd 1%N; OFinish; OEnd 1%N ok; OProbe 200%N true; OProbe 425%N false; OProbe 200%N true];
  final_delivered := []; settled := true |} = 1.
Proof. vm_compute. reflexivity. Qed.

(* never ready although everything ended (awaited probe timed out) *)
Example jt_stuck : judge {| trace :=
  [OAdd 1%N; OFinish; OEnd 1%N (failed 4%N); OProbe 425%N true];
  final_delivered := [4%N]; settled := true |} = 1.
Proof. vm_compute. reflexivity. Qed.

(* the wrong error, the error twice, or no error at 200 *)
Example jt_wrong_error : judge {| trace := jt_good; final_delivered := [9%N]; settled := true |} = 1.
Proof. vm_compute. reflexivity. Qed.
Example jt_twice : judge {| trace := jt_good; final_delivered := [7%N; 7%N]; settled := true |} = 1.
Proof. vm_compute. reflexivity. Qed.
Example jt_lost : judge {| trace := jt_good; final_delivered := []; settled := true |} = 1.
Proof. vm_compute. reflexivity. Qed.

(* an error delivered although nothing failed *)
Example jt_spurious : judge {| trace :=
  [OAdd 1%N; OFinish; OEnd 1%N ok; OProbe 200%N true]; final_delivered := [1%N]; settled := true |} = 1.
Proof. vm_compute. reflexivity. Qed.

(* the error delivered before everything ended: the property allows it, the model does not *)
Example jt_drift : judge {| trace :=
  [OAdd 1%N; OAdd 2%N; OFinish; OEnd 1%N (failed 4%N); OProbe 425%N false];
  final_delivered := [4%N]; settled := true |} = 2.
Proof. vm_compute. reflexivity. Qed.

Example jt_declined : judge {| trace := [OFinish; OAdd 1%N; OProbe 425%N false];
                               final_delivered := []; settled := true |} = 3.
Proof. vm_compute. reflexivity. Qed.
