(* Executable judge for C07 correspondence cases.

   One case = one (template, data) pair and EVERY output the real engine produced for it:
   twice on one engine, on a second engine, on a third engine after a prefix of other renders,
   with freshly built equal data, and in several fresh processes.  The property's oracle looks
   only at Go's own observations: all outputs byte-identical and the caller's data deep-equal
   (reflect.DeepEqual in the harness) to a pristine copy.  Where the template is one of the
   shapes of Models/Purity.v the outputs are also compared with the model's prediction. *)
From PV Require Import Base.Bytes Base.Escape Tmpl.Value Run.Verdict.
From PV Require Export Models.Purity.

Record case07 := {
  c_shape     : option shape;          (* None: template outside the modelled shapes *)
  c_data      : gdata;                 (* the caller's data as built by the harness *)
  c_outs      : list (option bytes);   (* Some out | None = execution error, one per observed render *)
  c_untouched : bool;                  (* harness: data deep-equals the pristine copy after all renders *)
}.

Definition all_same (l : list (option bytes)) : bool :=
  match l with [] => true | x :: r => forallb (opt_beqb x) r end.

(* the property itself on Go's observations, independent of the model *)
Definition oracle07 (c : case07) : bool :=
  all_same (c_outs c) && c_untouched c && Nat.leb 2 (length (c_outs c)).

(* numbers the text model covers: Number.String() is plain decimal below 10^10 *)
Fixpoint data_small (d : gdata) : bool :=
  match d with
  | GInt z => Z.ltb (Z.abs z) ten10
  | GArr l => forallb data_small l
  | GMap kvs => forallb (fun kv => data_small (snd kv)) kvs
  | GStruct fs => forallb (fun kv => data_small (snd kv)) fs
  | GPtr (Some d') => data_small d'
  | _ => true
  end.

Definition model07 (c : case07) : option bytes :=
  match c_shape c with
  | Some sh => if data_small (c_data c) then render_shape id_oracle sh (c_data c) else None
  | None => None
  end.

Definition judge (c : case07) : nat :=
  let dom := dom_data (c_data c) in
  match model07 c with
  | Some m => verdict dom (oracle07 c) (forallb (opt_beqb (Some m)) (c_outs c))
  | None => if dom && negb (oracle07 c) then v_violation
            else if dom then v_unmodelled else v_drift
  end.
