(* Executable judge for C07 correspondence cases.

   One case = one (template, data) pair and EVERY output the real engine produced for it, in
   processes that ran nothing but this case: as the first render of a process, again on the same
   engine, on a second engine, then - after a history of renders of other templates and of the
   same template with other data, on any engine of the process - on a third engine, with freshly
   built equal data, on an engine created only then, on an engine whose template directory holds
   the template alone, on an engine whose directory lists the template and its sibling templates
   in the other order; as the only render of several more processes (over each of these
   directory layouts); and the renders whose result reader the harness kept unread while the
   process went on rendering, read when all renders were over.  [c_pairs] holds the other renders
   that were kept unread: what was read in the end, and the output of the same render repeated
   and read at once; and the renders by the process' OTHER engines (engines with another function
   table or another template set under the same names): what such an engine rendered in this
   process, and what it renders in a process that holds only that engine.  The property's oracle looks only at Go's own observations: all outputs of
   the pair byte-identical, the two outputs of every other kept render byte-identical, and the
   caller's data deep-equal (reflect.DeepEqual in the harness) to a pristine copy.  Where a model covers the template the outputs are also compared with its
   prediction: Models/Purity.v for the order-sensitive shapes, the executor model
   Pug.Compile + Tmpl.Exec (a function of the template and the data alone: the heap starts with
   the converted data and an empty $global, every literal allocates a new cell) for templates
   given as pug trees. *)
From PV Require Export Base.Bytes Js.Ast Pug.Ast.
From PV Require Import Base.Escape Pug.Compile Tmpl.Value Tmpl.IR Tmpl.Exec Run.Verdict.
From PV Require Export Models.Purity.

Record case07 := {
  c_shape     : option shape;          (* None: template outside the shapes of Models/Purity.v *)
  c_tmpl      : option (list pnode);   (* the template as a pug tree, where the generator has one *)
  c_data      : gdata;                 (* the caller's data as built by the harness; a value the caller holds as
                                          an object of the engine's own model (pugjs.Convert, []pugjs.Object) is
                                          described by the Go value it was converted from *)
  c_funcs     : list bytes;            (* names of the template functions the pair's engines have beyond the standard ones *)
  c_outs      : list (option bytes);   (* Some out | None = execution error, one per observed render *)
  c_pairs     : list (option bytes * option bytes);   (* other renders: read late / read at once; renders by an
                                          engine with another function table or template set: in this process / in a
                                          process that holds only that engine *)
  c_untouched : bool;                  (* harness: data deep-equals the pristine copy after all renders *)
}.

Definition all_same (l : list (option bytes)) : bool :=
  match l with [] => true | x :: r => forallb (opt_beqb x) r end.

(* the property itself on Go's observations, independent of the model *)
Definition oracle07 (c : case07) : bool :=
  all_same (c_outs c) && forallb (fun p => opt_beqb (fst p) (snd p)) (c_pairs c)
  && c_untouched c && Nat.leb 2 (length (c_outs c)).

(* numbers the text model covers: Number.String() is plain decimal below 10^10 *)
Fixpoint data_small (d : gdata) : bool :=
  match d with
  | GInt z => Z.ltb (Z.abs z) ten10
  | GArr l => forallb data_small l
  | GMap kvs => forallb (fun kv => data_small (snd kv)) kvs
  | GStruct fs => forallb (fun kv => data_small (snd kv)) fs
  | GPtr (Some d') => data_small d'
  | _ => true
  end.

(* ---- the executor model on the harness's data ---------------------------------------------- *)
(* what convert (types.go) makes of the caller's data, as the executor model's input: map keys by
   their names, struct fields by lowerFirst(name), pointers followed, nil pointers as nil *)
Fixpoint dval_of (d : gdata) : Tmpl.Exec.dval :=
  match d with
  | GNil => DNil
  | GBool b => DBool b
  | GInt z => DInt z
  | GStr s => DStr s
  | GArr l => DArr (map dval_of l)
  | GMap kvs => DMap (map (fun kv => (key_text (fst kv), dval_of (snd kv))) kvs)
  | GStruct fs => DMap (map (fun kv => (lower_first (fst kv), dval_of (snd kv))) fs)
  | GPtr None => DNil
  | GPtr (Some d') => dval_of d'
  end.

(* Map.True() of a struct-backed object is false when the struct is its type's zero value; the executor
   model only knows objects by their entries.  Data holding a struct whose fields are all zero-like
   (a superset: nil and empty slices are not told apart here) is declined. *)
Definition zero_like (d : gdata) : bool :=
  match d with
  | GNil | GBool false | GStr [] | GArr [] | GMap [] | GPtr None => true
  | GInt z => Z.eqb z 0
  | _ => false
  end.
Fixpoint has_zero_struct (d : gdata) : bool :=
  match d with
  | GArr l => existsb has_zero_struct l
  | GMap kvs => existsb (fun kv => has_zero_struct (snd kv)) kvs
  | GStruct fs => forallb (fun kv => zero_like (snd kv)) fs || existsb (fun kv => has_zero_struct (snd kv)) fs
  | GPtr (Some d') => has_zero_struct d'
  | _ => false
  end.

Definition std_funcs : list bytes := [B "Math"; B "JSON"; B "Object"; B "stripTags"; B "parseInt"].

(* ---- `x[i] = e` ------------------------------------------------------------------------------
   renderExpression (transform_js_.go, AssignExpression with a BracketExpression on the left) emits
   `{{ ($x.__assign I E) -}}` - the action the method call `x.__assign(i, e)` is compiled to, except
   for the wrapper (statement form with a trim marker instead of ` | __pug__html` on the Nil that
   __assign returns).  Pug.Compile has no case for the bracket form; the executor model is therefore
   run on the template with these statements written as that call.  The two differ only where a
   text that begins with white space follows (the trim marker eats it): such templates are declined. *)
Definition rw_stmt (s : jstmt) : jstmt :=
  match s with
  | SExpr (JAssign None (JIdx (JId x) i) e) => SExpr (JCall (JDot (JId x) (B "__assign")) [i; e])
  | _ => s
  end.
Definition idx_stmt (s : jstmt) : bool :=
  match s with SExpr (JAssign None (JIdx _ _) _) => true | _ => false end.

Fixpoint rw_node (n : pnode) : pnode :=
  match n with
  | PTag nm il ats abs body => PTag nm il ats abs (map rw_node body)
  | PCode stmts e i => PCode (map rw_stmt stmts) e i
  | PCond t c a => PCond t (map rw_node c) (option_map rw_node a)
  | PCase e ws => PCase e (map (fun w => (fst w, map rw_node (snd w))) ws)
  | PEach v k o body => PEach v k o (map rw_node body)
  | PWhile t body => PWhile t (map rw_node body)
  | PMixinDef nm ps body => PMixinDef nm ps (map rw_node body)
  | PMixinCall nm args ats body => PMixinCall nm args ats (map rw_node body)
  | PBlock ns => PBlock (map rw_node ns)
  | PText _ | PMixinBlock | PDoctype _ | PComment => n
  end.

(* some node satisfies [p] *)
Fixpoint any_node (p : pnode -> bool) (n : pnode) : bool :=
  p n ||
  match n with
  | PTag _ _ _ _ body | PEach _ _ _ body | PWhile _ body | PMixinDef _ _ body | PMixinCall _ _ _ body
  | PBlock body => existsb (any_node p) body
  | PCond _ c a => existsb (any_node p) c || match a with Some a' => any_node p a' | None => false end
  | PCase _ ws => existsb (fun w => existsb (any_node p) (snd w)) ws
  | _ => false
  end.
Definition has_idx_assign (n : pnode) : bool :=
  match n with PCode stmts _ _ => existsb idx_stmt stmts | _ => false end.
Definition text_leads_ws (n : pnode) : bool :=
  match n with PText (c :: _) => is_space c | _ => false end.

(* the rewritten call is the bracket form only on a receiver that holds an object: every `x[i] = e` must
   come after a top-level `var x = ...` (an unset variable makes Go print the failed action as text) *)
Definition decl_names (n : pnode) : list bytes :=
  match n with
  | PCode stmts _ _ =>
    flat_map (fun s => match s with
                       | SVar ds => flat_map (fun d => match d with JVar x (Some _) => [x] | _ => [] end) ds
                       | _ => []
                       end) stmts
  | _ => []
  end.
Definition bad_idx_target (declared : list bytes) (n : pnode) : bool :=
  match n with
  | PCode stmts _ _ =>
    existsb (fun s => match s with
                      | SExpr (JAssign None (JIdx (JId x) _) _) => negb (mem x declared)
                      | SExpr (JAssign None (JIdx _ _) _) => true
                      | _ => false
                      end) stmts
  | _ => false
  end.
Fixpoint idx_ok (declared : list bytes) (ns : list pnode) : bool :=
  match ns with
  | [] => true
  | n :: r => negb (any_node (bad_idx_target declared) n) && idx_ok (decl_names n ++ declared) r
  end.

(* ---- first-letter case ------------------------------------------------------------------------
   Map.MarshalJSON stores the entries under lowerFirst(key); when two keys of one object differ only
   in the case of the first letter, the survivor is decided by the (sorted) visiting order - Models/
   Purity.v follows that (marshal_tmp), the executor model's json_of does not.  The executor model is
   used only where no object can hold such a pair: among all names that can become keys of an object a
   template prints (map keys and struct fields below the top level, every string in the data - a
   template may use it as a key -, and the names the generated templates assign to) no two distinct
   ones agree after lowerFirst.  Top-level keys only name variables. *)
Fixpoint data_names (d : gdata) : list bytes :=
  match d with
  | GStr s => [s]
  | GArr l => flat_map data_names l
  | GMap kvs => flat_map (fun kv => key_text (fst kv) :: data_names (snd kv)) kvs
  | GStruct fs => flat_map (fun kv => lower_first (fst kv) :: data_names (snd kv)) fs
  | GPtr (Some d') => data_names d'
  | _ => []
  end.
Definition value_names (d : gdata) : list bytes :=
  match d with
  | GMap kvs | GPtr (Some (GMap kvs)) => flat_map (fun kv => data_names (snd kv)) kvs
  | _ => data_names d
  end.
Fixpoint jexpr_names (fuel : nat) (e : jexpr) : list bytes :=
  match fuel with
  | O => []
  | S f =>
    match e with
    | JStr s => [s]
    | JDot x n => n :: jexpr_names f x
    | JObj kvs => flat_map (fun kv => fst kv :: jexpr_names f (snd kv)) kvs
    | JArr es | JSeq es => flat_map (jexpr_names f) es
    | JIdx x i => jexpr_names f x ++ jexpr_names f i
    | JCall g args | JNew g args => jexpr_names f g ++ flat_map (jexpr_names f) args
    | JUn _ _ x => jexpr_names f x
    | JBin _ l r | JAssign _ l r => jexpr_names f l ++ jexpr_names f r
    | JCond c a b => jexpr_names f c ++ jexpr_names f a ++ jexpr_names f b
    | JVar _ (Some i) => jexpr_names f i
    | _ => []
    end
  end.
Definition stmt_names (s : jstmt) : list bytes :=
  match s with
  | SExpr e => jexpr_names 40 e
  | SVar ds => flat_map (jexpr_names 40) ds
  | _ => []
  end.
Fixpoint node_names (n : pnode) : list bytes :=
  match n with
  | PTag _ _ ats _ body => flat_map (fun a => pa_name a :: jexpr_names 40 (pa_val a)) ats ++ flat_map node_names body
  | PCode stmts _ _ => flat_map stmt_names stmts
  | PCond t c a => jexpr_names 40 t ++ flat_map node_names c ++ match a with Some a' => node_names a' | None => [] end
  | PCase e ws => jexpr_names 40 e ++ flat_map (fun w => flat_map node_names (snd w)) ws
  | PEach _ _ o body => jexpr_names 40 o ++ flat_map node_names body
  | PWhile t body => jexpr_names 40 t ++ flat_map node_names body
  | PMixinDef _ _ body => flat_map node_names body
  | PMixinCall _ args ats body =>
    flat_map (jexpr_names 40) args ++ flat_map (fun a => pa_name a :: jexpr_names 40 (pa_val a)) ats
    ++ flat_map node_names body
  | PBlock ns => flat_map node_names ns
  | _ => []
  end.
(* true when two distinct names agree after lowerFirst *)
Fixpoint fold_clash (seen l : list bytes) : bool :=
  match l with
  | [] => false
  | x :: r =>
    if existsb (fun y => beqb (lower_first x) (lower_first y) && negb (beqb x y)) seen then true
    else fold_clash (if mem x seen then seen else x :: seen) r
  end.

(* Some (Some out) | None = the model declines (Some None = execution error: only Models/Purity.v shapes) *)
Definition exec_model (nodes : list pnode) (d : gdata) : option (option bytes) :=
  if fold_clash [] (flat_map node_names nodes ++ value_names d) then None
  else if has_zero_struct d then None
  else if existsb (any_node has_idx_assign) nodes && existsb (any_node text_leads_ws) nodes then None
  else if negb (idx_ok [B "global"] nodes) then None      (* $global is set before the template starts *)
  else
  match Pug.Compile.compile std_funcs false (map rw_node nodes) with
  | None => None
  | Some ts =>
    match parse_program ts with
    | None => None
    | Some p =>
      match Tmpl.Exec.run_program p (dval_of d) with
      | OOk o => Some (Some o)
      (* the model's panics are not used as predictions: e.g. Object.assign on an unset target panics in
         Go only when the source has keys, in the model always *)
      | OPanic | OUnmod | OFuel => None
      end
    end
  end.

(* the models know the standard function table: with further functions (a name the template reads may then be a
   function call instead of a variable) they decline, and the case is judged by the oracle alone *)
Definition model07 (c : case07) : option (option bytes) :=
  if negb (match c_funcs c with [] => true | _ => false end) then None
  else if data_small (c_data c) then
    match c_shape c with
    | Some sh => match render_shape id_oracle sh (c_data c) with Some o => Some (Some o) | None => None end
    | None => match c_tmpl c with Some nodes => exec_model nodes (c_data c) | None => None end
    end
  else None.

Definition judge (c : case07) : nat :=
  let dom := dom_data (c_data c) in
  match model07 c with
  | Some m => verdict dom (oracle07 c) (forallb (opt_beqb m) (c_outs c))
  | None => if dom && negb (oracle07 c) then v_violation
            else if dom then v_unmodelled else v_drift
  end.
