(* Executable judge for C15 correspondence cases. *)
From PV Require Import Base.Bytes Js.Ast Js.Lex Js.Parse Run.Verdict.

Record case15 := {
  mode     : nat;            (* 0: parser.ParseFile   1: parser.ParseFunction *)
  params   : bytes;          (* parameter list (mode 1) *)
  src      : bytes;
  want     : option bytes;   (* stream 1: canonical dump of the tree JavaScript prescribes (the generator's own tree) *)
  go_class : nat;            (* first parse of this input: 0 (tree, nil)   1 error value   2 panic / process killed by the runtime   3 hang: no answer within the watchdog's bound *)
  go_dump  : bytes;          (* canonical dump of the tree Go returned (class 0) *)
  go_same  : bool;           (* the harness's own comparison: every parse of this input gave the same class and tree *)
  go_fp    : bytes;          (* fingerprint of the whole tree of the first parse (every field of every node) *)
  go_hist  : list (nat * (nat * bytes))
    (* everything parsed in the process of this case, in order, then the answer of a freshly started
       process to this input alone: (input, (class, fingerprint)).  Equal numbers = the very same
       (entry point, parameter list, text); 0 is this case's own input, the other inputs of a history
       share sub-strings with it (the same regular expression / string literal / identifier in other
       surroundings, prefixes, one-byte changes). *)
}.

Definition model (c : case15) : pres :=
  match mode c with
  | O => parse_file (src c)
  | _ => parse_function (params c) (src c)
  end.

(* "terminates and returns a tree or an error value": no panic, no killed process, no hang *)
Definition class_ok (n : nat) : bool := Nat.eqb n 0 || Nat.eqb n 1.

(* "the same answer every time": whenever the very same input was parsed again - directly afterwards,
   after other inputs, in a freshly started process - the answer class and the whole tree are the same *)
Definition same_answer (a b : nat * (nat * bytes)) : bool :=
  negb (Nat.eqb (fst a) (fst b)) ||
  (Nat.eqb (fst (snd a)) (fst (snd b)) && beqb (snd (snd a)) (snd (snd b))).

Fixpoint hist_ok (l : list (nat * (nat * bytes))) : bool :=
  match l with
  | [] => true
  | a :: r => class_ok (fst (snd a)) && forallb (same_answer a) r && hist_ok r
  end.

(* what the property demands of Go's own answers, independent of the model: every parse of the history
   returns, none panics, equal inputs get equal answers; and for a generated well-formed expression:
   accepted, with the tree JavaScript prescribes *)
Definition oracle15 (c : case15) : bool :=
  class_ok (go_class c) && go_same c &&
  hist_ok ((0, (go_class c, go_fp c)) :: go_hist c) &&
  match want c with
  | Some w => Nat.eqb (go_class c) 0 && beqb (go_dump c) w
  | None => true
  end.

(* An independent necessary condition for acceptance, written without the model: outside string
   literals and comments the brackets of a JavaScript text are balanced, and no string literal or
   block comment is left open.  None: not decided (a "/" that may start a regular expression, a
   backslash outside a string, non-ASCII text). *)
Inductive bmode := BNormal | BStr (q : ascii) | BLine | BBlock.

Definition closes (o c : ascii) : bool :=
  (Ascii.eqb o "(" && Ascii.eqb c ")") || (Ascii.eqb o "[" && Ascii.eqb c "]") || (Ascii.eqb o "{" && Ascii.eqb c "}").

Definition is_nl (c : ascii) : bool := Ascii.eqb c c_lf || Ascii.eqb c c_cr.

Fixpoint bal (m : bmode) (stack : list ascii) (s : bytes) : option bool :=
  match s with
  | [] => match m with
          | BNormal | BLine => Some (match stack with [] => true | _ => false end)
          | BStr _ | BBlock => Some false
          end
  | c :: r =>
    match m with
    | BNormal =>
      if Ascii.eqb c c_dq || Ascii.eqb c c_sq || Ascii.eqb c c_bt then bal (BStr c) stack r
      else if Ascii.eqb c "/" then
        match r with
        | d :: r' => if Ascii.eqb d "/" then bal BLine stack r'
                     else if Ascii.eqb d "*" then bal BBlock stack r' else None
        | [] => None
        end
      else if Ascii.eqb c bsl || is_hi c then None
      else if Ascii.eqb c "(" || Ascii.eqb c "[" || Ascii.eqb c "{" then bal BNormal (c :: stack) r
      else if Ascii.eqb c ")" || Ascii.eqb c "]" || Ascii.eqb c "}" then
        match stack with
        | o :: st' => if closes o c then bal BNormal st' r else Some false
        | [] => Some false
        end
      else bal BNormal stack r
    | BStr q =>
      if Ascii.eqb c q then bal BNormal stack r
      else if Ascii.eqb c bsl then
        match r with
        | e :: r' =>
          if Ascii.eqb e c_cr then
            match r' with
            | f :: r'' => if Ascii.eqb f c_lf then bal (BStr q) stack r'' else bal (BStr q) stack r'
            | [] => Some false
            end
          else bal (BStr q) stack r'
        | [] => Some false
        end
      else if is_nl c then Some false
      else if is_hi c then None
      else bal (BStr q) stack r
    | BLine => if is_nl c then bal BNormal stack r else if is_hi c then None else bal BLine stack r
    | BBlock =>
      match r with
      | d :: r' => if Ascii.eqb c "*" && Ascii.eqb d "/" then bal BNormal stack r' else bal BBlock stack r
      | [] => Some false
      end
    end
  end.

Definition text_of (c : case15) : bytes :=
  match mode c with O => src c | _ => wrap_function (params c) (src c) end.

Definition unbalanced (c : case15) : bool :=
  match bal BNormal [] (text_of c) with Some false => true | _ => false end.

(* ParseFile decodes an inline source map named in a last-line comment (the payload of
   "//# sourceMappingURL=data:application/json...,<base64>"); a payload that is not a source map makes
   ParseFile answer with an error value whatever the text is.  Not modelled: judged by the oracle alone.
   ParseFunction never looks for one. *)
Definition has_sourcemap (c : case15) : bool :=
  Nat.eqb (mode c) 0 && containsb (B "sourceMappingURL=data:application/json") (src c).

Definition agree_with (m : pres) (c : case15) : bool :=
  match m with
  | POk body => Nat.eqb (go_class c) 0 && beqb (dump_prog body) (go_dump c)
  | PErr => Nat.eqb (go_class c) 1
  | _ => false
  end.

(* Go accepts a text with unbalanced brackets / an open literal, and the model of the unchanged code does
   not: a concrete failing input rather than a bare disagreement.  (Where model and Go agree on such a text
   it is a recorded quirk of otto: an object literal key may be any token, e.g. an unterminated string.) *)
Definition accepts_unbalanced (m : pres) (c : case15) : bool :=
  Nat.eqb (go_class c) 0 && negb (agree_with m c) &&
  match m with POutside => false | _ => unbalanced c end.

Definition judge (c : case15) : nat :=
  let m := model c in
  if negb (oracle15 c) || accepts_unbalanced m c then v_violation
  else if has_sourcemap c then v_unmodelled
  else
    match m with
    | POutside => v_unmodelled
    | PFuel | PPanic => v_drift
    | _ => if agree_with m c then v_agree else v_drift
    end.

(* diagnostic *)
Definition model_text (c : case15) : bytes :=
  match model c with
  | POk body => dump_prog body
  | PErr => B "PErr" | POutside => B "POutside" | PFuel => B "PFuel" | PPanic => B "PPanic"
  end.
