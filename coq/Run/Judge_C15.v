(* Executable judge for C15 correspondence cases. *)
From PV Require Import Base.Bytes Js.Ast Js.Lex Js.Parse Run.Verdict.

Record case15 := {
  mode     : nat;            (* 0: parser.ParseFile   1: parser.ParseFunction *)
  params   : bytes;          (* parameter list (mode 1) *)
  src      : bytes;
  want     : option bytes;   (* stream 1: canonical dump of the tree JavaScript prescribes (the generator's own tree) *)
  go_class : nat;            (* 0 (tree, nil)   1 error value   2 panic   3 watchdog expired *)
  go_dump  : bytes;          (* canonical dump of the tree Go returned (class 0) *)
  go_same  : bool            (* the second run gave the same class and tree *)
}.

Definition model (c : case15) : pres :=
  match mode c with
  | O => parse_file (src c)
  | _ => parse_function (params c) (src c)
  end.

(* what the property demands of Go's own answer, independent of the model:
   returns, does not panic, same answer twice; and for a generated well-formed
   expression: accepted, with the tree JavaScript prescribes *)
Definition oracle15 (c : case15) : bool :=
  (Nat.eqb (go_class c) 0 || Nat.eqb (go_class c) 1) && go_same c &&
  match want c with
  | Some w => Nat.eqb (go_class c) 0 && beqb (go_dump c) w
  | None => true
  end.

(* An independent necessary condition for acceptance, written without the model: outside string
   literals and comments the brackets of a JavaScript text are balanced, and no string literal or
   block comment is left open.  None: not decided (a "/" that may start a regular expression, a
   backslash outside a string, non-ASCII text). *)
Inductive bmode := BNormal | BStr (q : ascii) | BLine | BBlock.

Definition closes (o c : ascii) : bool :=
  (Ascii.eqb o "(" && Ascii.eqb c ")") || (Ascii.eqb o "[" && Ascii.eqb c "]") || (Ascii.eqb o "{" && Ascii.eqb c "}").

Definition is_nl (c : ascii) : bool := Ascii.eqb c c_lf || Ascii.eqb c c_cr.

Fixpoint bal (m : bmode) (stack : list ascii) (s : bytes) : option bool :=
  match s with
  | [] => match m with
          | BNormal | BLine => Some (match stack with [] => true | _ => false end)
          | BStr _ | BBlock => Some false
          end
  | c :: r =>
    match m with
    | BNormal =>
      if Ascii.eqb c c_dq || Ascii.eqb c c_sq || Ascii.eqb c c_bt then bal (BStr c) stack r
      else if Ascii.eqb c "/" then
        match r with
        | d :: r' => if Ascii.eqb d "/" then bal BLine stack r'
                     else if Ascii.eqb d "*" then bal BBlock stack r' else None
        | [] => None
        end
      else if Ascii.eqb c bsl || is_hi c then None
      else if Ascii.eqb c "(" || Ascii.eqb c "[" || Ascii.eqb c "{" then bal BNormal (c :: stack) r
      else if Ascii.eqb c ")" || Ascii.eqb c "]" || Ascii.eqb c "}" then
        match stack with
        | o :: st' => if closes o c then bal BNormal st' r else Some false
        | [] => Some false
        end
      else bal BNormal stack r
    | BStr q =>
      if Ascii.eqb c q then bal BNormal stack r
      else if Ascii.eqb c bsl then
        match r with
        | e :: r' =>
          if Ascii.eqb e c_cr then
            match r' with
            | f :: r'' => if Ascii.eqb f c_lf then bal (BStr q) stack r'' else bal (BStr q) stack r'
            | [] => Some false
            end
          else bal (BStr q) stack r'
        | [] => Some false
        end
      else if is_nl c then Some false
      else if is_hi c then None
      else bal (BStr q) stack r
    | BLine => if is_nl c then bal BNormal stack r else if is_hi c then None else bal BLine stack r
    | BBlock =>
      match r with
      | d :: r' => if Ascii.eqb c "*" && Ascii.eqb d "/" then bal BNormal stack r' else bal BBlock stack r
      | [] => Some false
      end
    end
  end.

Definition text_of (c : case15) : bytes :=
  match mode c with O => src c | _ => wrap_function (params c) (src c) end.

Definition unbalanced (c : case15) : bool :=
  match bal BNormal [] (text_of c) with Some false => true | _ => false end.

(* ParseFile decodes an inline source map named in a last-line comment; not modelled *)
Definition has_sourcemap (c : case15) : bool :=
  containsb (B "sourceMappingURL") (src c).

Definition agree_with (m : pres) (c : case15) : bool :=
  match m with
  | POk body => Nat.eqb (go_class c) 0 && beqb (dump_prog body) (go_dump c)
  | PErr => Nat.eqb (go_class c) 1
  | _ => false
  end.

(* Go accepts a text with unbalanced brackets / an open literal, and the model of the unchanged code does
   not: a concrete failing input rather than a bare disagreement.  (Where model and Go agree on such a text
   it is a recorded quirk of otto: an object literal key may be any token, e.g. an unterminated string.) *)
Definition accepts_unbalanced (m : pres) (c : case15) : bool :=
  Nat.eqb (go_class c) 0 && negb (agree_with m c) &&
  match m with POutside => false | _ => unbalanced c end.

Definition judge (c : case15) : nat :=
  let m := model c in
  if negb (oracle15 c) || accepts_unbalanced m c then v_violation
  else if has_sourcemap c then v_unmodelled
  else
    match m with
    | POutside => v_unmodelled
    | PFuel | PPanic => v_drift
    | _ => if agree_with m c then v_agree else v_drift
    end.

(* diagnostic *)
Definition model_text (c : case15) : bytes :=
  match model c with
  | POk body => dump_prog body
  | PErr => B "PErr" | POutside => B "POutside" | PFuel => B "PFuel" | PPanic => B "PPanic"
  end.
