(* Executable judge for C17 correspondence cases. *)
From PV Require Import Base.Bytes Run.Verdict.
From PV Require Export Models.Partials.   (* case terms name the constructors of [call] *)

Record case17 := {
  files : list bytes;   (* the file tree: every file <name>.ast.json below template/page, as <name> *)
  table : list (bytes * option bytes);  (* observed Render(name) alone: Some out | None = error *)
  tname : bytes;
  req   : list bytes;
  go    : option (list (bytes * bytes)); (* observed RenderPartials: None = (nil, err) *)
  go_nil_on_err : bool;                  (* on error the returned map was nil *)
  dbg   : bool;                          (* the engine under test runs in debug mode *)
  hist  : list call;                     (* the calls the engine under test received before the judged one
                                            (CLoad f = LoadTemplates(f), directly or through the DebugController) *)
  gone  : bool;                          (* the context of the judged call was ended by the harness (cancelled / deadline)
                                            before the call or while it was running *)
}.

Definition render_of (c : case17) (n : bytes) : option bytes :=
  match lookup n (table c) with Some r => r | None => None end.

Definition entry_in (m : list (bytes * bytes)) (e : bytes * bytes) : bool :=
  opt_beqb (lookup (fst e) m) (Some (snd e)).

Definition map_eqb (m m' : list (bytes * bytes)) : bool :=
  Nat.eqb (length m) (length m') && forallb (entry_in m') m && forallb (entry_in m) m'.

Definition res_eqb (r r' : option (list (bytes * bytes))) : bool :=
  match r, r' with
  | None, None => true
  | Some m, Some m' => map_eqb m m'
  | _, _ => false
  end.

(* the property itself, executable, independent of the model.  A requested partial EXISTS
   iff the literal name T.partial/p is a file of the tree (plain set membership, nothing is
   resolved); its content alone is what Render gave for that name on a reference engine in a
   process of its own that did nothing else. *)
Definition oracle_live (c : case17) : bool :=
  let r := render_of c in
  if forallb (fun p => partial_exists (files c) (tname c) p &&
                       match r (partial_name (tname c) p) with Some _ => true | None => false end) (req c)
  then match go c with
       | Some m =>
         forallb (fun p => opt_beqb (lookup p m) (r (partial_name (tname c) p))) (req c)
         && forallb (fun k => mem k (req c)) (keys m)
       | None => false
       end
  else match go c with None => go_nil_on_err c | Some _ => false end.

(* A request whose context ends may be refused at whatever point the engine notices it: then the
   call reports an error and hands out NO content (nil map).  If it does answer without error, the
   answer is judged exactly like that of a live request: every requested key, each with the content
   the partial has alone - never fewer keys. *)
Definition refused (c : case17) : bool :=
  match go c with None => go_nil_on_err c | Some _ => false end.

Definition oracle17 (c : case17) : bool :=
  oracle_live c || (gone c && refused c).

(* M: the loop of RenderPartials over the engine with its template set as state: the history
   of the engine under test (loads, filtered loads, renders, partial requests) from a fresh
   engine, then the judged request; a template that is found gives the content the reference
   gave for that name.  By C17_every_history / C17_debug_engine this is the pure loop over the
   exact lookup in the tree on every case.  For a request whose context ends, the model is the
   set {that result, error}: where Engine.Render looks at the context (its select at the rate
   limiter) both branches can be ready, and Go picks one at random. *)
Definition eng17 (c : case17) := render_eng (files c) (render_of c) (dbg c).

Definition model17 (c : case17) : option (list (bytes * bytes)) :=
  snd (render_partialsS tset (eng17 c)
         (after tset (eng17 c) (load (files c)) fresh (hist c)) (tname c) (req c)).

(* diagnostic: the requested names with "is a file of the tree", and the state of the model
   engine when the judged call arrives *)
Definition exists17 (c : case17) : list (bytes * bool) :=
  map (fun p => (partial_name (tname c) p, partial_exists (files c) (tname c) p)) (req c).

Definition state17 (c : case17) : tset := after tset (eng17 c) (load (files c)) fresh (hist c).

(* every history is in the domain (a filtered load as the first call included, since dd313c0) *)
Definition judge (c : case17) : nat :=
  verdict true (oracle17 c)
    (res_eqb (model17 c) (go c) || (gone c && match go c with None => true | Some _ => false end)).
