(* Executable judge for C17 correspondence cases. *)
From PV Require Import Base.Bytes Models.Partials Run.Verdict.

Record case17 := {
  table : list (bytes * option bytes);  (* observed Render(name) alone: Some out | None = error *)
  tname : bytes;
  req   : list bytes;
  go    : option (list (bytes * bytes)); (* observed RenderPartials: None = (nil, err) *)
  go_nil_on_err : bool;                  (* on error the returned map was nil *)
}.

Definition render_of (c : case17) (n : bytes) : option bytes :=
  match lookup n (table c) with Some r => r | None => None end.

Definition entry_in (m : list (bytes * bytes)) (e : bytes * bytes) : bool :=
  opt_beqb (lookup (fst e) m) (Some (snd e)).

Definition map_eqb (m m' : list (bytes * bytes)) : bool :=
  Nat.eqb (length m) (length m') && forallb (entry_in m') m && forallb (entry_in m) m'.

Definition res_eqb (r r' : option (list (bytes * bytes))) : bool :=
  match r, r' with
  | None, None => true
  | Some m, Some m' => map_eqb m m'
  | _, _ => false
  end.

(* the property itself, executable, independent of the model *)
Definition oracle17 (c : case17) : bool :=
  let r := render_of c in
  if forallb (fun p => match r (partial_name (tname c) p) with Some _ => true | None => false end) (req c)
  then match go c with
       | Some m =>
         forallb (fun p => opt_beqb (lookup p m) (r (partial_name (tname c) p))) (req c)
         && forallb (fun k => mem k (req c)) (keys m)
       | None => false
       end
  else match go c with None => go_nil_on_err c | Some _ => false end.

Definition judge (c : case17) : nat :=
  verdict true (oracle17 c)
          (res_eqb (render_partials (render_of c) (tname c) (req c)) (go c)).
