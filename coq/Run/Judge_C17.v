(* Executable judge for C17 correspondence cases. *)
From PV Require Import Base.Bytes Models.Partials Run.Verdict.

Record case17 := {
  files : list bytes;   (* the file tree: every file <name>.ast.json below template/page, as <name> *)
  table : list (bytes * option bytes);  (* observed Render(name) alone: Some out | None = error *)
  tname : bytes;
  req   : list bytes;
  go    : option (list (bytes * bytes)); (* observed RenderPartials: None = (nil, err) *)
  go_nil_on_err : bool;                  (* on error the returned map was nil *)
}.

Definition render_of (c : case17) (n : bytes) : option bytes :=
  match lookup n (table c) with Some r => r | None => None end.

Definition entry_in (m : list (bytes * bytes)) (e : bytes * bytes) : bool :=
  opt_beqb (lookup (fst e) m) (Some (snd e)).

Definition map_eqb (m m' : list (bytes * bytes)) : bool :=
  Nat.eqb (length m) (length m') && forallb (entry_in m') m && forallb (entry_in m) m'.

Definition res_eqb (r r' : option (list (bytes * bytes))) : bool :=
  match r, r' with
  | None, None => true
  | Some m, Some m' => map_eqb m m'
  | _, _ => false
  end.

(* the property itself, executable, independent of the model.  A requested partial EXISTS
   iff the literal name T.partial/p is a file of the tree (plain set membership, nothing is
   resolved); its content alone is what the reference engine's Render gave for that name. *)
Definition oracle17 (c : case17) : bool :=
  let r := render_of c in
  if forallb (fun p => partial_exists (files c) (tname c) p &&
                       match r (partial_name (tname c) p) with Some _ => true | None => false end) (req c)
  then match go c with
       | Some m =>
         forallb (fun p => opt_beqb (lookup p m) (r (partial_name (tname c) p))) (req c)
         && forallb (fun k => mem k (req c)) (keys m)
       | None => false
       end
  else match go c with None => go_nil_on_err c | Some _ => false end.

(* M: the loop of RenderPartials over Render = exact lookup in the tree, then the content the
   reference engine gave for that name *)
Definition model17 (c : case17) : option (list (bytes * bytes)) :=
  render_partials (render_lookup (files c) (render_of c)) (tname c) (req c).

(* diagnostic: the requested names with "is a file of the tree" *)
Definition exists17 (c : case17) : list (bytes * bool) :=
  map (fun p => (partial_name (tname c) p, partial_exists (files c) (tname c) p)) (req c).

Definition judge (c : case17) : nat :=
  verdict true (oracle17 c) (res_eqb (model17 c) (go c)).
