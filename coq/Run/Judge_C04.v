(* C04 judge: the marker-substitution oracle on Go's own outputs.
   The template is rendered twice by the real engine: with the hostile string h at the data positions,
   and with a harmless fresh marker m at the same positions.  The property demands
      out_h = replace_all m (escape h) out_m. *)
From PV Require Export Run.Judge_Core.
From PV Require Import Pug.Compile Run.Verdict.

(* k_opaque: the template holds a node the pug model has no constructor for; it is passed as a STAND-IN, for the
   domain test only (the model is never run on it):
     interpolated tag  #{e} + block b      PTag "#{" inline [{| pa_name := "expr"; pa_val := e; pa_esc := false |}] [] b
     try { A } catch (x) { C } code        PCode [SIf (JId "#try") (SBlock A) (Some (SBlock C))] esc inline
   such a case is judged by the oracle alone. *)
Record case04 := { k_case : caseC; k_h : bytes; k_m : bytes; k_opaque : bool }.

Definition cond_ok (c : jexpr) : bool :=
  match c with
  | JId _ | JBool _ | JUn UNot _ (JId _) | JUn UNot _ (JBool _) => true
  | _ => false
  end.

(* a chain of members and literal indices from a variable: ho.k, ha[0], hn.a.b, hl[0].k *)
Fixpoint path (e : jexpr) : bool :=
  match e with
  | JId _ => true
  | JDot a _ => path a
  | JIdx a (JNum _) => path a
  | _ => false
  end.
Definition recv_ok (r : jexpr) : bool := path r.

(* NAMING RULE of the domain: whatever may hold the hostile string has a name that starts with `h` (top-level data
   names, loop variables over them, mixin parameters, variables declared from them) or is the mixin variable
   `attributes`; everything else is harmless: equal in both renders and free of the marker (data_ok below). *)
Definition hostile_name (x : bytes) : bool :=
  match x with c :: _ => Ascii.eqb c "h" || beqb x (B "attributes") | [] => false end.

Fixpoint hfree (e : jexpr) : bool :=
  match e with
  | JId x => negb (hostile_name x)
  | JNum _ | JNumF _ | JStr _ | JBool _ | JNull => true
  | JTpl parts => forallb (fun p => match p with inl _ => true | inr x => hfree x end) parts
  | JArr es | JSeq es => forallb hfree es
  | JObj kvs => forallb (fun kv => hfree (snd kv)) kvs
  | JDot a _ => hfree a
  | JIdx a b => hfree a && hfree b
  | JCall f args | JNew f args => hfree f && forallb hfree args
  | JUn _ _ a => hfree a
  | JBin _ a b => hfree a && hfree b
  | JCond c a b => hfree c && hfree a && hfree b
  | JAssign _ l r => hfree l && hfree r
  | JVar x i => negb (hostile_name x) && match i with Some a => hfree a | None => true end
  end.

(* an argument that denotes the number 0 whatever the hostile string is: the literal, the harmless data name `z`
   (bound to 0: z_zero below, decided from the case's data), logical defaults of such (`z || 0`), and a guard that
   stops at such a value (`0 && e`, e harmless) *)
Fixpoint zero_arg (e : jexpr) : bool :=
  match e with
  | JNum 0%Z => true
  | JId x => beqb x (B "z")
  | JBin BOr a b => zero_arg a && zero_arg b
  | JBin BAnd a b => zero_arg a && hfree b
  | _ => false
  end.

Definition eq_op (op : binop) : bool :=
  match op with BEq | BNe | BSEq | BSNe => true | _ => false end.
(* null: the literal, or the harmless data name `nl` (bound to null: nl_nil below) *)
Definition is_nil (e : jexpr) : bool :=
  match e with JNull => true | JId x => beqb x (B "nl") | _ => false end.

(* string-transparent contexts: shapes that carry a string to the output without looking into it.
   The compiler decides PER EXPRESSION SHAPE whether the escaper is appended, so the class is closed under every way
   of combining a carrier with a partner that is harmless (hfree: any operator, any literal kind, harmless data —
   its value is the same in both renders):
     * a harmless expression is transparent (it prints the same text twice);
     * a + b, a || b, a && b, c ? a : b over transparent operands: the value is one of the operands or their
       concatenation; WHICH one is decided by the truth of an operand, and the truth of a transparent value is the
       same in both renders (the hostile string and the marker are non-empty: no_edge_ws; everything else is equal);
       `number + string` is the engine's numeric addition, which reads the string as a number: the hostile strings
       and the marker are no numerals (not_numeral below), so both renders print the same number;
     * !a and a == null / a != null (=== / !==, either order, null the literal or the data `nl`) over a transparent
       a: the same boolean twice;
     * members, literal indices, template and array literals, slice(0) / join(sep) results. *)
Fixpoint transp (e : jexpr) : bool :=
  hfree e ||
  match e with
  | JId _ => true
  | JDot a _ => path a
  | JIdx a (JNum _) => path a
  | JBin BAdd a b | JBin BOr a b | JBin BAnd a b => transp a && transp b
  | JBin op a b => eq_op op && ((is_nil b && transp a) || (is_nil a && transp b))
  | JUn UNot _ a => transp a
  | JCond c a b => transp c && transp a && transp b
  | JTpl parts => forallb (fun p => match p with inl _ => true | inr x => transp x end) parts
  | JArr es => forallb transp es
  | JCall (JDot r name) [a] =>
    recv_ok r && ((beqb name (B "slice") && zero_arg a) ||
                  (beqb name (B "join") && match a with JStr _ => true | _ => false end))
  | _ => false
  end.

(* one statement of a code node.  A declaration / plain assignment writes nothing; what it stores must stay under the
   naming rule.  A printing statement: escaped code prints a transparent expression, unescaped (or unbuffered) code
   prints harmless things only. *)
Definition silent_ok (x : bytes) (r : jexpr) : bool := transp r && (hfree r || hostile_name x).
Definition print_ok (esc : bool) (e : jexpr) : bool :=
  match e with
  | JVar x (Some r) | JAssign None (JId x) r => silent_ok x r
  | JVar _ None => true
  | _ => if esc then transp e else hfree e
  end.
Definition json_parse_of (e : jexpr) : bool :=
  match e with
  | JCall (JDot (JId j) name) [JId _] => beqb j (B "JSON") && beqb name (B "parse")
  | _ => false
  end.
Definition stmt04 (opq esc : bool) (s : jstmt) : bool :=
  match s with
  | SExpr e => print_ok esc e
  | SVar ds => forallb (print_ok esc) ds
  (* stand-in of try { A } catch (x) { C }, escaped: A prints transparent expressions or the result of JSON.parse
     (which throws on the data of the caught route), C prints transparent expressions (the caught text) *)
  | SIf (JId t) (SBlock a) (Some (SBlock b)) =>
    opq && esc && beqb t (B "#try") &&
    forallb (fun s => match s with SExpr e => print_ok true e || json_parse_of e | _ => false end) a &&
    forallb (fun s => match s with SExpr e => print_ok true e | _ => false end) b
  | _ => false
  end.

(* the programs of this property: tags, text, loops (with key variable), conditionals, mixin definitions and calls
   (arguments, attributes, blocks) around code nodes of one or several statements: escaped ones print transparent
   expressions, unescaped / unbuffered ones print harmless expressions; opaque cases: interpolated tags, try/catch *)
Fixpoint shape04 (opq : bool) (n : pnode) : bool :=
  let all := fix go (l : list pnode) : bool := match l with [] => true | x :: r => shape04 opq x && go r end in
  match n with
  | PText _ | PComment | PMixinBlock => true
  | PTag _ _ [] [] b | PBlock b => all b
  | PTag name _ [a] [] b => opq && beqb name (B "#{") && beqb (pa_name a) (B "expr") && hfree (pa_val a) && all b
  | PCode stmts esc _ => forallb (stmt04 opq esc) stmts
  (* the same expression, unescaped, in a branch that is never taken (the data binds `never` to false) *)
  | PCond (JId x) [PCode [SExpr e] false _] None => (beqb x (B "never") && transp e) || hfree e
  | PCond c t a => (cond_ok c || transp c) && all t && match a with Some a' => shape04 opq a' | None => true end
  | PEach v k obj b =>
    path obj && all b &&
    (hfree obj || (hostile_name v && match k with Some k' => hostile_name k' | None => true end))
  | PMixinDef _ params b => forallb hostile_name params && all b
  | PMixinCall _ args attrs b => forallb transp args && forallb (fun a => transp (pa_val a)) attrs && all b
  | _ => false
  end.

(* harmless data: the two renders' data agree outside the h-names, and the marker does not occur there *)
Fixpoint dval_eqb (a b : dval) : bool :=
  match a, b with
  | DNil, DNil => true
  | DBool x, DBool y => Bool.eqb x y
  | DInt x, DInt y => Z.eqb x y
  | DStr x, DStr y => beqb x y
  | DArr x, DArr y =>
    (fix go (l1 l2 : list dval) : bool :=
       match l1, l2 with
       | [], [] => true
       | u :: r1, w :: r2 => dval_eqb u w && go r1 r2
       | _, _ => false
       end) x y
  | DMap x, DMap y =>
    (fix go (l1 l2 : list (bytes * dval)) : bool :=
       match l1, l2 with
       | [], [] => true
       | (k1, u) :: r1, (k2, w) :: r2 => beqb k1 k2 && dval_eqb u w && go r1 r2
       | _, _ => false
       end) x y
  | _, _ => false
  end.
Fixpoint dval_has (m : bytes) (d : dval) : bool :=
  match d with
  | DStr s => containsb m s
  | DArr l => existsb (dval_has m) l
  | DMap l => existsb (fun kv => containsb m (fst kv) || dval_has m (snd kv)) l
  | _ => false
  end.
Definition harmless_part (d : dval) : dval :=
  match d with
  | DMap l => DMap (filter (fun kv => negb (hostile_name (fst kv))) l)
  | _ => d
  end.
Definition data_ok (m : bytes) (ds : list dval) : bool :=
  match ds with
  | [dh; dm] => dval_eqb (harmless_part dh) (harmless_part dm) && negb (dval_has m (harmless_part dm))
  | _ => false
  end.

Definition special_free (s : bytes) : bool := negb (existsb is_special s).
Definition no_edge_ws (s : bytes) : bool :=
  match s, rev s with x :: _, y :: _ => negb (is_space x) && negb (is_space y) | _, _ => false end.

Fixpoint nested_tpl (inside : bool) (e : jexpr) : bool :=
  match e with
  | JTpl parts => inside || existsb (fun p => match p with inl _ => false | inr x => nested_tpl true x end) parts
  | JBin _ a b => nested_tpl inside a || nested_tpl inside b
  | JCond c a b => nested_tpl inside c || nested_tpl inside a || nested_tpl inside b
  | JArr es => existsb (nested_tpl inside) es
  | JCall f args => nested_tpl inside f || existsb (nested_tpl inside) args
  | JDot a _ => nested_tpl inside a
  | JIdx a b => nested_tpl inside a || nested_tpl inside b
  | JUn _ _ a => nested_tpl inside a
  | JVar _ (Some a) => nested_tpl inside a
  | JAssign _ a b => nested_tpl inside a || nested_tpl inside b
  | _ => false
  end.
Definition stmt_nested_tpl (s : jstmt) : bool :=
  match s with
  | SExpr e => nested_tpl false e
  | SVar ds => existsb (nested_tpl false) ds
  | _ => false
  end.
(* a template literal inside a template literal: the engine's JS parser refuses it (the template does not load) *)
Fixpoint node_nested_tpl (n : pnode) : bool :=
  let any := fix go (l : list pnode) : bool := match l with [] => false | x :: r => node_nested_tpl x || go r end in
  match n with
  | PCode stmts _ _ => existsb stmt_nested_tpl stmts
  | PTag _ _ _ _ b | PBlock b | PEach _ _ _ b | PMixinDef _ _ b => any b
  | PMixinCall _ args attrs b =>
    existsb (nested_tpl false) args || existsb (fun a => nested_tpl false (pa_val a)) attrs || any b
  | PCond _ t a => any t || match a with Some a' => node_nested_tpl a' | None => false end
  | _ => false
  end.

Definition never_false (d : dval) : bool :=
  match d with
  | DMap l => match lookup (B "never") l with Some (DBool false) | None => true | _ => false end
  | _ => false
  end.

(* `z`, when the data binds it, is the number 0 (zero_arg) *)
Definition z_zero (d : dval) : bool :=
  match d with
  | DMap l => match lookup (B "z") l with Some (DInt 0%Z) | None => true | _ => false end
  | _ => false
  end.

Definition nl_nil (d : dval) : bool :=
  match d with
  | DMap l => match lookup (B "nl") l with Some DNil | None => true | _ => false end
  | _ => false
  end.

(* the engine's `number + string` reads the string with Go's strconv.ParseFloat; a string with a byte that occurs in
   no numeral (decimal / hexadecimal digits, . + - _ x p, the letters of inf / infinity / nan) is read as 0 *)
Definition numeral_byte (c : ascii) : bool :=
  existsb (Ascii.eqb c) (B "0123456789abcdefABCDEFxXpP.+-_iInNtTyY").
Definition not_numeral (s : bytes) : bool := existsb (fun c => negb (numeral_byte c)) s.

Definition dom04 (c : case04) : bool :=
  forallb (shape04 (k_opaque c)) (c_nodes (k_case c)) && forallb never_false (c_datas (k_case c)) &&
  forallb z_zero (c_datas (k_case c)) && forallb nl_nil (c_datas (k_case c)) && not_numeral (k_h c) && not_numeral (k_m c) &&
  data_ok (k_m c) (c_datas (k_case c)) && special_free (k_m c) && no_edge_ws (k_h c) && no_edge_ws (k_m c) &&
  negb (containsb (k_m c) (o_code (c_prod (k_case c)))).

Definition oracle04 (c : case04) : bool :=
  negb (o_loaded (c_prod (k_case c))) ||        (* a template that does not load writes nothing *)
  match o_res (c_prod (k_case c)) with
  | [(0, out_h); (0, out_m)] => beqb out_h (replace_all (k_m c) (escape (k_h c)) out_m)
  | [(S a, _); (S b, _)] => Nat.eqb a b          (* both renders fail alike: nothing reaches the page *)
  | _ => false
  end.

Definition agree04 (c : case04) : nat :=
  let k := k_case c in
  match c_datas k, o_res (c_prod k) with
  | [dh; dm], [rh; rm] =>
    let a := agree_code (o_loaded (c_prod k)) rh (model_out false k dh) in
    let b := agree_code (o_loaded (c_prod k)) rm (model_out false k dm) in
    if Nat.eqb a 0 && Nat.eqb b 0 then 0 else if Nat.eqb a 3 || Nat.eqb b 3 then 3 else 1
  | _, _ => if existsb node_nested_tpl (c_nodes k) then 3 else
            match model_program false k with Some _ => 1 | None => 3 end
  end.

(* a generated case that is not in the domain would never be able to show a violation: it is an alarm (drift) of its
   own, so that the generator and shape04 cannot silently part ways *)
Definition judge (c : case04) : nat :=
  if negb (dom04 c) then v_drift
  else if negb (oracle04 c) then v_violation
  else if k_opaque c then v_unmodelled
  else match agree04 c with 0 => v_agree | 3 => v_unmodelled | _ => v_drift end.
