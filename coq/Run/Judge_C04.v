(* C04 judge: the marker-substitution oracle on Go's own outputs.
   The template is rendered twice by the real engine: with the hostile string h at the data positions,
   and with a harmless fresh marker m at the same positions.  The property demands
      out_h = replace_all m (escape h) out_m. *)
From PV Require Export Run.Judge_Core.
From PV Require Import Pug.Compile Run.Verdict.

Record case04 := { k_case : caseC; k_h : bytes; k_m : bytes }.

Definition cond_ok (c : jexpr) : bool :=
  match c with
  | JId _ | JBool _ | JUn UNot _ (JId _) | JUn UNot _ (JBool _) => true
  | _ => false
  end.
Definition recv_ok (r : jexpr) : bool :=
  match r with JId _ | JDot (JId _) _ | JIdx (JId _) (JNum _) => true | _ => false end.

(* string-transparent contexts: shapes that carry a string to the output without looking into it *)
Fixpoint transp (e : jexpr) : bool :=
  match e with
  | JId _ | JStr _ | JNum _ => true
  | JDot (JId _) _ => true
  | JIdx (JId _) (JNum _) => true
  | JBin BAdd a b | JBin BOr a b | JBin BAnd a b => transp a && transp b
  | JCond c a b => cond_ok c && transp a && transp b
  | JTpl parts => forallb (fun p => match p with inl _ => true | inr x => transp x end) parts
  | JArr es => forallb transp es
  | JCall (JDot r name) [JNum 0%Z] => beqb name (B "slice") && recv_ok r
  | JCall (JDot r name) [JStr _] => beqb name (B "join") && recv_ok r
  | _ => false
  end.

(* the programs of this property: tags, text, loops and conditionals around escaped buffered code
   whose expression is transparent *)
Fixpoint shape04 (n : pnode) : bool :=
  let all := fix go (l : list pnode) : bool := match l with [] => true | x :: r => shape04 x && go r end in
  match n with
  | PText _ | PComment => true
  | PTag _ _ [] [] b | PBlock b => all b
  | PCode [SExpr e] true _ => transp e
  (* the same expression, unescaped, in a branch that is never taken (the data binds `never` to false) *)
  | PCond (JId x) [PCode [SExpr e] false _] None => beqb x (B "never") && transp e
  | PCond c t a => cond_ok c && all t && match a with Some a' => shape04 a' | None => true end
  | PEach _ _ (JId _) b => all b
  | _ => false
  end.

Definition special_free (s : bytes) : bool := negb (existsb is_special s).
Definition no_edge_ws (s : bytes) : bool :=
  match s, rev s with x :: _, y :: _ => negb (is_space x) && negb (is_space y) | _, _ => false end.

Fixpoint nested_tpl (inside : bool) (e : jexpr) : bool :=
  match e with
  | JTpl parts => inside || existsb (fun p => match p with inl _ => false | inr x => nested_tpl true x end) parts
  | JBin _ a b => nested_tpl inside a || nested_tpl inside b
  | JCond c a b => nested_tpl inside c || nested_tpl inside a || nested_tpl inside b
  | JArr es => existsb (nested_tpl inside) es
  | JCall f args => nested_tpl inside f || existsb (nested_tpl inside) args
  | JDot a _ => nested_tpl inside a
  | JIdx a b => nested_tpl inside a || nested_tpl inside b
  | JUn _ _ a => nested_tpl inside a
  | _ => false
  end.
Fixpoint node_nested_tpl (n : pnode) : bool :=
  let any := fix go (l : list pnode) : bool := match l with [] => false | x :: r => node_nested_tpl x || go r end in
  match n with
  | PCode [SExpr e] _ _ => nested_tpl false e
  | PTag _ _ _ _ b | PBlock b | PEach _ _ _ b => any b
  | PCond _ t a => any t || match a with Some a' => node_nested_tpl a' | None => false end
  | _ => false
  end.

Definition never_false (d : dval) : bool :=
  match d with
  | DMap l => match lookup (B "never") l with Some (DBool false) | None => true | _ => false end
  | _ => false
  end.

Definition dom04 (c : case04) : bool :=
  forallb shape04 (c_nodes (k_case c)) && forallb never_false (c_datas (k_case c)) && special_free (k_m c) && no_edge_ws (k_h c) && no_edge_ws (k_m c) &&
  negb (containsb (k_m c) (o_code (c_prod (k_case c)))).

Definition oracle04 (c : case04) : bool :=
  negb (o_loaded (c_prod (k_case c))) ||        (* a template that does not load writes nothing *)
  match o_res (c_prod (k_case c)) with
  | [(0, out_h); (0, out_m)] => beqb out_h (replace_all (k_m c) (escape (k_h c)) out_m)
  | [(S a, _); (S b, _)] => Nat.eqb a b          (* both renders fail alike: nothing reaches the page *)
  | _ => false
  end.

Definition agree04 (c : case04) : nat :=
  let k := k_case c in
  match c_datas k, o_res (c_prod k) with
  | [dh; dm], [rh; rm] =>
    let a := agree_code (o_loaded (c_prod k)) rh (model_out false k dh) in
    let b := agree_code (o_loaded (c_prod k)) rm (model_out false k dm) in
    if Nat.eqb a 0 && Nat.eqb b 0 then 0 else if Nat.eqb a 3 || Nat.eqb b 3 then 3 else 1
  | _, _ => if existsb node_nested_tpl (c_nodes k) then 3 else
            match model_program false k with Some _ => 1 | None => 3 end
  end.

Definition judge (c : case04) : nat :=
  if dom04 c && negb (oracle04 c) then v_violation
  else match agree04 c with 0 => v_agree | 3 => v_unmodelled | _ => v_drift end.
