(* Executable judge for C09 correspondence cases.

   One case = one engine with limit [cfg] and one driven history.  The driver
   works in WINDOWS: one action (start a render - with a live context, with a
   context that is already cancelled / past its deadline, or with a context
   that ends by itself at its k-th use -, tell a render inside to return / fail
   / panic, cancel a waiting render, cancel a waiting render WHILE telling a
   render inside to return, probe), then it waits for the observable state to
   settle and records
     w_returned : the Render calls that returned in the window, with their class,
     w_entered  : the renders that reported "past the gate" in the window,
     w_inside   : renders that reported "past the gate" and have not returned,
     w_waiting  : renders started, not inside, not returned,
     w_ended    : renders whose context was seen to be over for the first time
                  in this window (started so, cancelled by the action, ended by itself),
   and the emitter turns the window into gate events in a fixed order that is
   the most permissive for the acceptor: Start (the action), CtxEnd of the
   contexts that ended, Leave of renders that were inside before, Cancel of
   waiting renders that returned a context error, Enter+Leave of renders that
   passed through within the window (missing template), Enter of renders newly
   inside.  With the limit disabled there are no Enter events (Start puts a
   render in flight).

   Rounds.  A case may carry ROUNDS: after the drain of the history and before
   the refill probe the driver repeats, on the same engine, small histories
   that begin and end at an empty gate - some renders are put inside, then K
   callers ARRIVE TOGETHER (their Render calls are released by one barrier at
   the same instant) so that the free slots are taken and the rest waits, the
   contexts of some waiting callers are ended while the renders inside are
   still held, then everybody is told to leave.  A round numbers its renders
   from 1 and is recorded like a history (windows, cancels, commanded); rounds
   with exactly the same record are reported once.  Each round is judged as a
   history of its own on a gate with the same limit: oracle and acceptor start
   afresh.  For the acceptor this is Props.C09.C09_round_reset (after a finished
   history the gate accepts a further history, its names shifted past the used
   ones, exactly as a new gate does, with the same sets); the oracle needs no
   such argument, every clause but [refill_ok] speaks about one round's
   observations and the limit only.  [round_closed] (agreement) demands that a
   round ended with nobody inside and nobody waiting.

   Requests.  The names in the observations are names of REQUESTS: a call of
   Engine.Render, or a call of Engine.RenderPartials with a list of partials
   (a partial whose template calls the blocking function, a partial of plain
   text, an unknown partial).  A request is inside while a template of it is
   executing (the blocking function was called and the driver has not told it
   to go on); when the driver tells a partial that is not the last one to
   return normally the request is counted as waiting again until its next
   partial reports ([w_moved]: the emitter turns it into RNext; the oracle uses
   it for "a request that got the context error was not inside since it went
   to the gate").  The engine may be in debug mode ([dbg]; the model is the same
   machine in both modes).  The events are request events of Models/Gate.v
   (RCall/REnd/REnter/RNext/RReturn/RError); the render names inside them are
   chosen by the emitter (request * 8 + number of the partial) and only have
   to be fresh, which the machine checks.  Order within a window: RCall, REnd,
   RNext of requests told to go on, RReturn of requests that were inside,
   RError of waiting requests that returned the context error, then the
   requests that passed the gate (once per partial) and returned within the
   window, then the requests newly inside (after passing through the plain
   text partials in front of the blocking one).

   agree  : the acceptor M accepts the whole trace, after every window its
            inflight/waiting sets are the observed inside/waiting sets,
            GetRateLimit() is the configured limit, and each render left the
            way it was told to.
   oracle : the property on the raw observations, without M. *)
From PV Require Import Base.Bytes Run.Verdict.
From PV Require Export Models.Gate.   (* the generated case files name Start/Enter/Leave/Cancel *)

Inductive cls := c_ok | c_not_found | c_error | c_exec_panic | c_ctx_error | c_other.

Definition cls_eqb (a b : cls) : bool :=
  match a, b with
  | c_ok, c_ok | c_not_found, c_not_found | c_error, c_error
  | c_exec_panic, c_exec_panic | c_ctx_error, c_ctx_error | c_other, c_other => true
  | _, _ => false
  end.

Record win := {
  w_events   : list req_event;
  w_entered  : list rid;
  w_ended    : list rid;
  w_inside   : list rid;
  w_waiting  : list rid;
  w_returned : list (rid * cls);
  w_moved    : list rid;    (* requests inside that the driver told in this window to go on to their next partial *)
}.

Record round09 := {
  r_wins      : list win;
  r_cancels   : list (rid * bool);
  r_commanded : list (rid * outcome);
}.

Record case09 := {
  cfg       : nat;                   (* configured limit (WithRateLimit or Inject) *)
  dbg       : bool;                  (* Engine.Debug *)
  go_limit  : nat;                   (* GetRateLimit() *)
  wins      : list win;
  cancels   : list (rid * bool);     (* cancel of a waiter while the gate stays full: render, caller returned
                                        within the bound (2 s) *)
  commanded : list (rid * outcome);  (* the way out each render was told to take (missing template: o_not_found) *)
  refill_ok : bool;                  (* at the quiescent end [cfg] fresh renders were inside together *)
  rounds    : list round09;          (* the distinct rounds driven between the drain and the refill probe *)
}.

(* a round as a history of its own on a gate with the same limit *)
Definition round_case (c : case09) (r : round09) : case09 :=
  {| cfg := cfg c; dbg := dbg c; go_limit := go_limit c; wins := r_wins r; cancels := r_cancels r;
     commanded := r_commanded r; refill_ok := true; rounds := [] |}.

Fixpoint assoc {A} (r : rid) (l : list (rid * A)) : option A :=
  match l with
  | [] => None
  | (k, v) :: t => if Nat.eqb r k then Some v else assoc r t
  end.

Definition all_returned (c : case09) : list (rid * cls) := flat_map w_returned (wins c).

(* ------------------------------------------------------------ oracle (S on raw observations) *)

(* never more than the limit inside *)
Definition ok_bound (c : case09) : bool :=
  (cfg c =? 0) || forallb (fun w => length (w_inside w) <=? cfg c) (wins c).

(* only calls beyond the limit wait: nobody waits below the limit; disabled: nobody ever waits *)
Definition ok_no_stall (c : case09) : bool :=
  forallb (fun w => match w_waiting w with
                    | [] => true
                    | _ => (0 <? cfg c) && (cfg c <=? length (w_inside w))
                    end) (wins c).

(* a render whose Render returned (any class) is not inside, then or later *)
Fixpoint ok_gone (gone : list rid) (ws : list win) : bool :=
  match ws with
  | [] => true
  | w :: t =>
    let gone' := map fst (w_returned w) ++ gone in
    forallb (fun r => negb (memr r gone')) (w_inside w) && ok_gone gone' t
  end.

(* the windows since the request went back to the gate for the last time (all of them
   for a request with one render) *)
Fixpoint since_moved (q : rid) (ws : list win) : list win :=
  match ws with
  | [] => []
  | w :: t => if existsb (fun w' => memr q (w_moved w')) t then since_moved q t else w :: t
  end.

(* a cancelled waiter returned in time, with a context error, and was not inside
   (since it went to the gate where it was cancelled) *)
Definition ok_cancels (c : case09) : bool :=
  forallb (fun rb : rid * bool =>
             let (r, prompt) := rb in
             prompt
             && match assoc r (all_returned c) with Some k => cls_eqb k c_ctx_error | None => false end
             && forallb (fun w => negb (memr r (w_inside w))) (since_moved r (wins c)))
          (cancels c).

(* contexts ([over] = the renders whose context is known to be over, cumulative):
   promptly  - when a window closes (the driver has then waited up to 2 s for it)
               no render whose context is over is still waiting: it has its error
               or, where a slot was free, is inside;
   only then - the context error is given only to a render whose context is over *)
Fixpoint ok_ctx (over : list rid) (ws : list win) : bool :=
  match ws with
  | [] => true
  | w :: t =>
    let over' := w_ended w ++ over in
    forallb (fun r => negb (memr r over')) (w_waiting w)
    && forallb (fun rk : rid * cls => negb (cls_eqb (snd rk) c_ctx_error) || memr (fst rk) over')
               (w_returned w)
    && ok_ctx over' t
  end.

(* takes no slot, as far as a single call shows it: who got the context error was
   not past the gate since it went there (a request for several partials: since it
   went back there after the last partial that was rendered).  (A slot that is taken and kept by such a call shows in
   [ok_no_stall] - somebody waits below the limit - and in [refill_ok].) *)
Definition ok_ctx_outside (c : case09) : bool :=
  forallb (fun rk : rid * cls =>
             negb (cls_eqb (snd rk) c_ctx_error)
             || forallb (fun w => negb (memr (fst rk) (w_inside w)) && negb (memr (fst rk) (w_entered w)))
                        (since_moved (fst rk) (wins c)))
          (all_returned c).

Definition oracle1 (c : case09) : bool :=
  (go_limit c =? cfg c) && ok_bound c && ok_no_stall c && ok_gone [] (wins c)
  && ok_cancels c && ok_ctx [] (wins c) && ok_ctx_outside c && refill_ok c.

(* the history, and every round: callers that arrive together beyond the free
   slots wait ([ok_no_stall], [ok_bound]); each waiting caller whose context was
   ended while the gate was full returned the context error within the bound and
   never got inside ([ok_cancels], [ok_ctx], [ok_ctx_outside]) *)
Definition oracle09 (c : case09) : bool :=
  oracle1 c && forallb (fun r => oracle1 (round_case c r)) (rounds c).

(* ------------------------------------------------------------ agreement with M *)

Fixpoint accept (s : option req_state) (ws : list win) : bool :=
  match ws with
  | [] => match s with Some _ => true | None => false end
  | w :: t =>
    match req_run s (w_events w) with
    | Some s' => same_set (q_inside s') (w_inside w) && same_set (q_waiting s') (w_waiting w)
                 && accept (Some s') t
    | None => false
    end
  end.

(* the class a Render call returned with fits what M did with it: the context
   error exactly for the renders M cancelled (so: context over, never entered),
   otherwise the way out the render was told to take *)
Definition class_fits (c : case09) (cancelled : list rid) (rk : rid * cls) : bool :=
  let (r, k) := rk in
  if memr r cancelled then cls_eqb k c_ctx_error
  else
    match assoc r (cancels c) with
    | Some _ => false
    | None =>
      match assoc r (commanded c) with
      | Some o_ok => cls_eqb k c_ok
      | Some o_not_found => cls_eqb k c_not_found
      | Some o_func_error | Some o_panic => cls_eqb k c_error || cls_eqb k c_exec_panic
      | None => false
      end
    end.

Definition agree1 (c : case09) : bool :=
  let cancelled := req_errors (flat_map w_events (wins c)) in
  (go_limit c =? get_rate_limit (gate_init (cfg c)))
  && accept (Some (req_init (cfg c))) (wins c)
  && forallb (class_fits c cancelled) (all_returned c).

(* a round ends at an empty gate (that is what lets the next one start afresh) *)
Definition round_closed (r : round09) : bool :=
  match rev (r_wins r) with
  | w :: _ => match w_inside w, w_waiting w with [], [] => true | _, _ => false end
  | [] => false
  end.

Definition agree09 (c : case09) : bool :=
  agree1 c && forallb (fun r => round_closed r && agree1 (round_case c r)) (rounds c).

Definition judge (c : case09) : nat := verdict true (oracle09 c) (agree09 c).

(* diagnostic: the model state after each window (None from the first rejected window on) *)
Fixpoint model_states (s : option req_state) (ws : list win) : list (option (list rid * list rid)) :=
  match ws with
  | [] => []
  | w :: t =>
    let s' := req_run s (w_events w) in
    match s' with
    | Some x => Some (q_inside x, q_waiting x)
    | None => None
    end :: model_states s' t
  end.
