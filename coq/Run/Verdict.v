(* Verdict codes shared by all judges. The driver reads only these numbers. *)
From PV Require Import Base.Bytes.

Definition v_agree      : nat := 0.  (* Go = model (and, on-domain, = spec by the theorems) *)
Definition v_violation  : nat := 1.  (* in the property's domain and Go contradicts the spec/oracle *)
Definition v_drift      : nat := 2.  (* Go <> model, oracle still accepts Go (or case is off-domain) *)
Definition v_unmodelled : nat := 3.  (* model declines the case; counted, not judged *)
Definition v_known (k : nat) : nat := 10 + k. (* listed finding k: in its class AND Go = model there *)

(* judge skeleton: spec verdict first, then agreement with the model *)
Definition verdict (in_dom oracle_ok agree : bool) : nat :=
  if in_dom && negb oracle_ok then v_violation
  else if agree then v_agree else v_drift.

Definition opt_beqb (a b : option bytes) : bool :=
  match a, b with
  | None, None => true
  | Some x, Some y => beqb x y
  | _, _ => false
  end.
