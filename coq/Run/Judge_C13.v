(* Judge of C13: one pug tree rendered by the real engine in production AND debug mode with several data values.
   (1) both modes' observations against the model M in that mode (Pug.Compile with debug = false / true, Tmpl.IR,
       Tmpl.Exec; in debug mode also TokenToTemplate's refusal of a call to an undefined mixin);
   (2) the property's oracle on Go's OWN two outputs, independent of M: when both renders succeeded, the debug output
       must be the production output with white-space bytes (space, tab, CR, LF — the lexer's set) deleted; hence equal
       after erase_ws and no byte that production does not emit.
   A case where only one mode fails is outside the property's statement ("render successfully") and is judged against M.

   The rendered template may be one file of a directory tree of templates (sibling files in the same directory and in
   sub-directories, loaded all at once in production mode, not at all — or only those its name is a prefix of — in
   debug mode).  M compiles the rendered template on its own: the siblings are not part of the judged case at all, so
   that an influence of a sibling on the rendered template shows as Go <> M in one mode and — through the oracle — as a
   violation between the modes.
   A case may be OPAQUE (d_opaque): the rendered file starts with a node the pug model has no constructor for (an
   interpolated tag, whose compiled form depends on the compiler's raw-mode flag before any code node has set it); such
   a case is judged by the oracle alone. *)
From PV Require Export Run.Judge_Core.
From PV Require Import Pug.Compile Run.Verdict.

(* pug_parser.go TokenToTemplate, debug mode only: a call of a mixin that no rendered definition provides is a load
   error.  Read off the emitted tokens: calls are {{ template "mixin_x" ... }} (name not from a variable), definitions
   are {{- define "mixin_x" }}. *)
Definition defines (ts : list tok) (n : bytes) : bool :=
  existsb (fun t => match t with TAct _ _ _ (AcDefine m) => beqb m n | _ => false end) ts.
Definition debug_load_ok (ts : list tok) : bool :=
  forallb (fun t => match t with
                    | TAct _ _ _ (AcTemplate n false _) => negb (prefixb (B "mixin_") n) || defines ts n
                    | _ => true
                    end) ts.

(* what M says about loading in one mode: Some true = loads, Some false = refused, None = not modelled *)
Definition model_load (dbg : bool) (c : caseC) : option bool :=
  match model_toks dbg c with
  | None => None
  | Some ts =>
    match parse_program ts with
    | None => Some false
    | Some _ => Some (if dbg then debug_load_ok ts else true)
    end
  end.

Definition run_opt (p : option program) (d : dval) : outcome :=
  match p with Some p => run_program p d | None => OUnmod end.

(* one data value, both modes loaded.
   seam_ok: the debug-mode template text M predicts is the engine's (or production's already is not): the debug-specific
   part of the compile model is right for this case.
   When the PRODUCTION render itself differs from M (an expression or mixin detail outside the core model's agreement —
   the business of the C01–C06 correspondence, which alarms there), the C13 theorem says nothing about the case: it is
   counted as unmodelled here and judged by the oracle only; a difference that shows in debug mode only is drift. *)
Definition judge_pair (seam_ok : bool) (pd pp : option program) (d : dval) (gd gp : nat * bytes) : nat :=
  let ad := agree_code true gd (run_opt pd d) in
  let ap := agree_code true gp (run_opt pp d) in
  let both_ok := Nat.eqb (fst gd) 0 && Nat.eqb (fst gp) 0 in
  if both_ok && negb (ws_subseq (snd gd) (snd gp)) then v_violation
  else if Nat.eqb ad 3 || Nat.eqb ap 3 then v_unmodelled
  else if Nat.eqb ap 0 then (if Nat.eqb ad 0 then v_agree else v_drift)
  else if seam_ok then v_unmodelled else v_drift.

Fixpoint zip_pairs (seam_ok : bool) (pd pp : option program) (ds : list dval) (rd rp : list (nat * bytes)) : list nat :=
  match ds, rd, rp with
  | d :: ds', a :: rd', b :: rp' => judge_pair seam_ok pd pp d a b :: zip_pairs seam_ok pd pp ds' rd' rp'
  | [], [], [] => []
  | _, _, _ => [v_drift]
  end.

(* one mode only (the other did not load): against M *)
Fixpoint zip_single (p : option program) (ds : list dval) (rs : list (nat * bytes)) : list nat :=
  match ds, rs with
  | d :: ds', r :: rs' =>
    (match agree_code true r (run_opt p d) with 0 => v_agree | 3 => v_unmodelled | _ => v_drift end) :: zip_single p ds' rs'
  | [], [] => []
  | _, _ => [v_drift]
  end.

Definition load_code (go_loaded : bool) (m : option bool) : nat :=
  match m with
  | None => v_unmodelled
  | Some b => if Bool.eqb b go_loaded then v_agree else v_drift
  end.

(* the emitted template text in both modes; 0 same, 1 different, 3 not modelled *)
Definition text_seam2 (c : caseC) : nat * nat :=
  let one (dbg : bool) (o : obsm) :=
    match model_toks dbg c with
    | None => 3
    | Some ts => if o_loaded o && beqb (show_toks ts) (o_code o) then 0 else 1
    end in
  (one false (c_prod c), match c_debug c with Some o => one true o | None => 3 end).

Definition judge_modelled (c : caseC) : nat :=
  match c_debug c with
  | None => v_drift                                   (* the harness did not render in debug mode *)
  | Some dbg =>
    let prod := c_prod c in
    let pd := model_program true c in
    let pp := model_program false c in
    let ld0 := load_code (o_loaded dbg) (model_load true c) in
    let lp0 := load_code (o_loaded prod) (model_load false c) in
    (* production's load outcome differs from M (C01–C06's business): unmodelled here when debug mode behaves alike *)
    let prod_off := Nat.eqb lp0 v_drift in
    let lp := if prod_off then (if Bool.eqb (o_loaded dbg) (o_loaded prod) then v_unmodelled else v_drift) else lp0 in
    let ld := if prod_off then v_agree else ld0 in
    match o_loaded dbg, o_loaded prod with
    | true, true =>
      let seam_ok := negb (Nat.eqb (snd (text_seam2 c)) 1) || Nat.eqb (fst (text_seam2 c)) 1 in
      worst (ld :: lp :: zip_pairs seam_ok pd pp (c_datas c) (o_res dbg) (o_res prod))
    | true, false => worst (ld :: lp :: zip_single pd (c_datas c) (o_res dbg))
    | false, true => worst (ld :: lp :: zip_single pp (c_datas c) (o_res prod))
    | false, false => worst [ld; lp]
    end
  end.


(* oracle only: every pair of successful renders must satisfy ws_subseq; nothing is said about M *)
Fixpoint zip_oracle (rd rp : list (nat * bytes)) : list nat :=
  match rd, rp with
  | gd :: rd', gp :: rp' =>
    (if Nat.eqb (fst gd) 0 && Nat.eqb (fst gp) 0 && negb (ws_subseq (snd gd) (snd gp)) then v_violation else v_unmodelled)
    :: zip_oracle rd' rp'
  | _, _ => []
  end.

Definition judge_opaque (c : caseC) : nat :=
  match c_debug c with
  | None => v_drift
  | Some dbg =>
    if o_loaded dbg && o_loaded (c_prod c) then worst (v_unmodelled :: zip_oracle (o_res dbg) (o_res (c_prod c)))
    else v_unmodelled
  end.

Record caseD := { d_case : caseC; d_opaque : bool }.

Definition judge (c : caseD) : nat :=
  if d_opaque c then judge_opaque (d_case c) else judge_modelled (d_case c).
