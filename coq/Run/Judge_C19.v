(* Executable judge for C19 correspondence cases: one request against one
   generated frontend/dist tree. *)
From PV Require Import Base.Bytes Run.Verdict.
From PV Require Export Models.Assets.   (* case terms mention Reg / Dir *)

Record case19 := {
  raw      : bytes;                 (* request target as sent (escaped path) *)
  origin   : option bytes;          (* Origin header; None = header absent *)
  wl       : list bytes;            (* Module.Whitelist *)
  files    : list (bytes * node);   (* the generated tree: rooted path below frontend/dist -> node *)
  canaries : list bytes;            (* contents of the files written OUTSIDE frontend/dist *)
  go_parsed    : bool;              (* http.ReadRequest accepted the request line *)
  go_ep        : bytes;             (* URL.EscapedPath() *)
  go_dec       : bytes;             (* URL.Path (decoded by net/url) *)
  go_clean     : bytes;             (* path.Clean of the rooted decoded path *)
  go_clean_rel : bytes;             (* path.Clean of the same without its leading slash *)
  go_mux   : nat;                   (* mux.Handler: 0 pass | 1 redirect | 2 not found | 3 none *)
  go_class : nat;                   (* status: 0 = 200 | 1 = 301 | 2 = 404 | 3 = 500 | 4 = 400 | 5 = other, panic *)
  go_body  : bytes;
  go_acao  : option bytes;          (* first Access-Control-Allow-Origin value; None = absent *)
  go_acao_n : nat                   (* number of values of that header *)
}.

Definition hdr_of (c : case19) : bytes :=
  match origin c with Some o => o | None => [] end.

(* ---- the property itself on Go's own output, from S only (no use of M) *)

Definition no_canary (c : case19) : bool :=
  forallb (fun k => negb (nonemptyb k && containsb k (go_body c))) (canaries c).

(* a 200 body is exactly the content of a regular file whose path is inside
   dist; any other answer contains the content of no file at all *)
Definition content_ok (c : case19) : bool :=
  match go_class c with
  | O => existsb (fun e => match snd e with
                           | Reg b => beqb b (go_body c) && inside (fst e)
                           | Dir => false
                           end) (files c)
  | _ => forallb (fun e => match snd e with
                           | Reg b => negb (nonemptyb b && containsb b (go_body c))
                           | Dir => true
                           end) (files c)
  end.

(* the header is set only to the request's Origin and only when whitelisted *)
Definition acao_ok (c : case19) : bool :=
  match go_acao c with
  | None => Nat.eqb (go_acao_n c) 0
  | Some v => opt_beqb (cors_spec_req (wl c) (origin_of (hdr_of c))) (Some v)
              && Nat.eqb (go_acao_n c) 1
  end.

Definition oracle19 (c : case19) : bool := no_canary c && content_ok c && acao_ok c.

(* ---- agreement with M *)

Definition mux_code (m : muxd) : nat :=
  match m with MuxPass => 0 | MuxRedirect => 1 | MuxNotFound => 2 end.

Definition answer_agrees (a : answer) (c : case19) : bool :=
  match a with
  | File b => Nat.eqb (go_class c) 0 && beqb b (go_body c)
  | Listing => false
  | Redirect => Nat.eqb (go_class c) 1
  | NotFound => Nat.eqb (go_class c) 2
  | ServerError => Nat.eqb (go_class c) 3
  | BadRequest => Nat.eqb (go_class c) 4
  end.

Definition agree19 (c : case19) : bool :=
  answer_agrees (serve (files c) (raw c)) c &&
  if go_parsed c then
    opt_beqb (pct_decode (raw c)) (Some (go_dec c)) &&      (* net/url decoding *)
    beqb (raw c) (go_ep c) &&                               (* the mux sees what was sent *)
    beqb (clean (rooted (go_dec c))) (go_clean c) &&        (* path.Clean, rooted *)
    beqb (clean (tl (rooted (go_dec c)))) (go_clean_rel c) && (* path.Clean, relative *)
    Nat.eqb (mux_code (mux_decide (raw c))) (go_mux c) &&   (* ServeMux *)
    opt_beqb (acao_at (mux_decide (raw c)) (wl c) (hdr_of c)) (go_acao c)
  else
    opt_beqb (pct_decode (raw c)) None && Nat.eqb (go_mux c) 3 &&
    match go_acao c with None => true | Some _ => false end.

(* OS limits that the tree model does not have: NAME_MAX / PATH_MAX *)
Definition too_long (c : case19) : bool :=
  existsb (fun s => Nat.ltb 255 (length s)) (split_slash (go_dec c)) ||
  Nat.ltb 4000 (length (go_dec c)).

Definition judge (c : case19) : nat :=
  if negb (oracle19 c) then v_violation
  else if too_long c then v_unmodelled
  else verdict true (oracle19 c) (agree19 c).

(* diagnostic view used by replays *)
Definition model_says (c : case19) :=
  (serve (files c) (raw c), mux_decide (raw c), pct_decode (raw c),
   acao_at (mux_decide (raw c)) (wl c) (hdr_of c),
   (no_canary c, content_ok c, acao_ok c)).
