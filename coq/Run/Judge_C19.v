(* Executable judge for C19 correspondence cases: one request (method, raw
   target, header lines) against one generated file system (frontend/dist,
   canary files and directories outside it, symbolic links anywhere).  The
   oracle never resolves a link: it looks at the bytes of the real answer, at
   where regular files physically lie, and at EVERY Access-Control-* header of
   the real response with all of its values. *)
From PV Require Import Base.Bytes Run.Verdict.
From PV Require Export Models.Assets.   (* case terms mention Reg / Dir *)

Record case19 := {
  raw      : bytes;                 (* request target as sent (escaped path) *)
  meth     : bytes;                 (* request method as sent *)
  hdrs     : list (bytes * bytes);  (* every header line after Host, in the order sent: (name as sent, value) *)
  wl       : list bytes;            (* Module.Whitelist *)
  files    : list (bytes * node);   (* the generated file system: clean rooted physical path below the
                                       temporary root -> regular file | directory | symbolic link;
                                       frontend/dist and the canary files outside it are all in here *)
  go_parsed    : bool;              (* http.ReadRequest accepted the request line *)
  go_ep        : bytes;             (* URL.EscapedPath() *)
  go_dec       : bytes;             (* URL.Path (decoded by net/url) *)
  go_clean     : bytes;             (* path.Clean of the rooted decoded path *)
  go_clean_rel : bytes;             (* path.Clean of the same without its leading slash *)
  go_mux   : nat;                   (* mux.Handler: 0 pass | 1 redirect | 2 not found | 3 none *)
  go_class : nat;                   (* status: 0 = 200 | 1 = 301 | 2 = 404 | 3 = 500 | 4 = 400 | 6 = 206 |
                                       5 = any other (204, 304, 412, 416, ...), panic *)
  go_body  : bytes;
  go_ac    : list (bytes * list bytes) (* EVERY response header whose name starts with Access-Control-
                                          (any case): canonical name, all values; sorted by name *)
}.

(* the values of all Origin lines of the request (names compare case-insensitively) *)
Definition req_origins (c : case19) : list bytes := header_values h_origin (hdrs c).

Definition is_head (c : case19) : bool := beqb (meth c) m_head.

(* conditional and range requests: serveContent's preconditions and ranges
   are outside the model; where they matter ([served_file] below) a case is
   judged by the oracle, and the parts of the model that do not depend on
   them (decoding, mux, CORS) are compared *)
Definition conditional (c : case19) : bool :=
  existsb (fun h => existsb (name_eqb (fst h))
                      [B "Range"; B "If-Modified-Since"; B "If-None-Match"; B "If-Match";
                       B "If-Unmodified-Since"; B "If-Range"]) (hdrs c).

(* ---- the property itself on Go's own output, from S only: no use of M and
   no link resolution at all.  What may be served is decided by WHERE a
   regular file physically lies, not by how a request gets there. *)

(* the physical path of a node that lies below frontend/dist *)
Definition phys_inside (p : bytes) : bool := prefixb (B "/frontend/dist/") p && inside p.

Definition reg_content (e : bytes * node) : option bytes :=
  match snd e with Reg b => Some b | _ => None end.

Definition is_inside_file (c : case19) (body : bytes) : bool :=
  existsb (fun e => match reg_content e with
                    | Some b => beqb b body && phys_inside (fst e)
                    | None => false
                    end) (files c).

(* the content of a regular file OUTSIDE dist (a canary) is in no answer, whatever the status *)
Definition no_canary (c : case19) : bool :=
  forallb (fun e => match reg_content e with
                    | Some k => phys_inside (fst e) || negb (nonemptyb k && containsb k (go_body c))
                    | None => true
                    end) (files c).

(* a 200 body is exactly the content of a regular file that lies inside
   dist (nothing at all for HEAD), a 206 body is a part of one; any other
   answer contains the content of no file at all *)
Definition content_ok (c : case19) : bool :=
  match go_class c with
  | O => is_inside_file c (go_body c) || (is_head c && negb (nonemptyb (go_body c)))
  | 6 => (* 206: a part of a regular file that lies inside dist *)
         existsb (fun e => match reg_content e with
                           | Some b => phys_inside (fst e) && containsb (go_body c) b
                           | None => false
                           end) (files c)
  | _ => forallb (fun e => match reg_content e with
                           | Some b => negb (nonemptyb b && containsb b (go_body c))
                           | None => true
                           end) (files c)
  end.

(* never a directory listing: a 200 answer is not net/http's HTML index of
   entries (<pre> <a href=..>..</a> .. </pre>).  Implied by [content_ok];
   kept as its own clause so that a replay names what went wrong. *)
Definition no_listing_ok (c : case19) : bool :=
  negb (Nat.eqb (go_class c) 0 &&
        containsb (B "<pre>") (go_body c) && containsb (B "</pre>") (go_body c) &&
        negb (is_inside_file c (go_body c))).

(* the header is set only to the request's Origin and only when whitelisted:
   S = [ac_spec] (Models/Assets.v; C19_ac_spec_sound says what it means) on
   every Access-Control-* header of the real response, whatever the method,
   the other request headers and the status are.  Only the whitelist and the
   values of the request's Origin lines enter. *)
Definition acao_ok (c : case19) : bool :=
  forallb (fun h => is_ac_name (fst h)) (go_ac c) && ac_spec (wl c) (req_origins c) (go_ac c).

Definition oracle19 (c : case19) : bool := no_canary c && content_ok c && no_listing_ok c && acao_ok c.

(* ---- agreement with M *)

Definition mux_code (m : muxd) : nat :=
  match m with MuxPass => 0 | MuxRedirect => 1 | MuxNotFound => 2 end.

Definition answer_agrees (a : answer) (c : case19) : bool :=
  match a with
  | File _ => Nat.eqb (go_class c) 0 && opt_beqb (sent_body (meth c) a) (Some (go_body c))
  | Listing => false
  | Redirect => Nat.eqb (go_class c) 1
  | NotFound => Nat.eqb (go_class c) 2
  | ServerError => Nat.eqb (go_class c) 3
  | BadRequest => Nat.eqb (go_class c) 4
  end.

Fixpoint list_beqb (a b : list bytes) : bool :=
  match a, b with
  | [], [] => true
  | x :: a', y :: b' => beqb x y && list_beqb a' b'
  | _, _ => false
  end.

Fixpoint ac_beqb (a b : list (bytes * list bytes)) : bool :=
  match a, b with
  | [], [] => true
  | x :: a', y :: b' => beqb (fst x) (fst y) && list_beqb (snd x) (snd y) && ac_beqb a' b'
  | _, _ => false
  end.

(* everything but the answer itself: decoding, path.Clean, ServeMux, and the
   complete list of Access-Control-* response headers *)
Definition agree_rest (c : case19) : bool :=
  if go_parsed c then
    opt_beqb (pct_decode (raw c)) (Some (go_dec c)) &&      (* net/url decoding *)
    beqb (raw c) (go_ep c) &&                               (* the mux sees what was sent *)
    beqb (clean (rooted (go_dec c))) (go_clean c) &&        (* path.Clean, rooted *)
    beqb (clean (tl (rooted (go_dec c)))) (go_clean_rel c) && (* path.Clean, relative *)
    Nat.eqb (mux_code (mux_decide (raw c))) (go_mux c) &&   (* ServeMux *)
    ac_beqb (resp_ac (mux_decide (raw c)) (wl c) (meth c) (hdrs c)) (go_ac c)
  else
    opt_beqb (pct_decode (raw c)) None && Nat.eqb (go_mux c) 3 &&
    match go_ac c with [] => true | _ => false end.

Definition agree19 (c : case19) : bool :=
  answer_agrees (serve (files c) (raw c)) c && agree_rest c.

(* OS limits that the tree model does not have: NAME_MAX / PATH_MAX *)
Definition too_long (c : case19) : bool :=
  existsb (fun s => Nat.ltb 255 (length s)) (split_slash (go_dec c)) ||
  Nat.ltb 4000 (length (go_dec c)).

(* the resolution climbs above the temporary root, which the tree does not describe *)
Definition above_root (c : case19) : bool :=
  match os_resolve (files c) (resolve (go_dec c)) with WAbove => true | _ => false end.

(* F-C19-b, class 1 (listed in KNOWN_FINDINGS.txt): the request resolves,
   through links that lie below dist, to a regular file that lies physically
   OUTSIDE dist, the real handler answers 200 with exactly that file's bytes,
   and everything else (mux, decoding, CORS) is as the model and the oracle
   say.  [below_distb] on the resolved location is the exact per-request
   complement of the property's domain (Models/Assets.v dom_C19 is the
   sufficient condition on trees under which C19_only_file_bytes_partial is
   proved). *)
Definition escaped_file (c : case19) : option bytes :=
  match os_resolve (files c) (resolve (go_dec c)) with
  | WNode at_ (Reg b) => if below_distb at_ then None else Some b
  | _ => None
  end.

Definition known_escape (c : case19) : bool :=
  match escaped_file c with
  | Some b => go_parsed c &&
              ((Nat.eqb (go_class c) 0 && beqb b (go_body c) && agree19 c) ||
               (* a Range request: 206 with a part of that file *)
               (conditional c && Nat.eqb (go_class c) 6 && containsb (go_body c) b && agree_rest c)) &&
              acao_ok c && no_listing_ok c
  | None => false
  end.

(* the preconditions and ranges are looked at by serveContent only, that is
   when a regular file is about to be sent; every other answer of a
   conditional request is compared with the model in full *)
Definition served_file (c : case19) : bool :=
  match serve (files c) (raw c) with File _ => true | _ => false end.

Definition judge (c : case19) : nat :=
  if known_escape c then v_known 1
  else if negb (oracle19 c) then v_violation
  else if too_long c || above_root c then v_unmodelled
  else if conditional c && served_file c then (if agree_rest c then v_unmodelled else v_drift)
  else verdict true (oracle19 c) (agree19 c).

(* diagnostic view used by replays *)
Definition model_says (c : case19) :=
  (serve (files c) (raw c), mux_decide (raw c), pct_decode (raw c),
   resp_ac (mux_decide (raw c)) (wl c) (meth c) (hdrs c), req_origins c,
   os_resolve (files c) (resolve (go_dec c)),
   (no_canary c, content_ok c, no_listing_ok c, acao_ok c)).
