(* Executable judge for C05 correspondence cases. *)
From PV Require Import Base.Bytes Base.Escape Run.Verdict.
From PV Require Export Models.Attrs.

Record case05 := {
  srcs : list asrc;                         (* the attribute sources of the tag *)
  go_ok : bool;                             (* every render (one per fresh process) ended normally *)
  go_panic : bool;                          (* every render ended in an execution panic *)
  go_outs : list bytes;                     (* the outputs of the renders that ended normally *)
  tok_ok : bool;                            (* x/net/html tokenizer: exactly <div ...> </div> in every render *)
  tok_attrs : list (list (bytes * bytes));  (* its attribute list, per render *)
}.

Definition pre : bytes := B "<div".
Definition post : bytes := B "></div>".

(* the attribute region of <div ATTRS></div> *)
Definition region (out : bytes) : option bytes :=
  if prefixb pre out && suffixb post out && Nat.leb (length pre + length post) (length out)
  then Some (firstn (length out - length pre - length post) (skipn (length pre) out))
  else None.

Definition pair_eqb (a b : bytes * bytes) : bool := beqb (fst a) (fst b) && beqb (snd a) (snd b).
Fixpoint pairs_eqb (a b : list (bytes * bytes)) : bool :=
  match a, b with
  | [], [] => true
  | x :: a', y :: b' => pair_eqb x y && pairs_eqb a' b'
  | _, _ => false
  end.

Definition lower_char (c : ascii) : ascii :=
  let n := N_of_ascii c in if N.leb 65 n && N.leb n 90 then ascii_of_N (n + 32) else c.
Definition lower_name (s : bytes) : bytes := map lower_char s.

Definition has_cr (s : bytes) : bool := existsb (fun c => Ascii.eqb c (ascii_of_N 13)) s.

(* the property, computed on Go's own output, independently of the model *)
Definition oracle05 (c : case05) : bool :=
  let want := attr_spec (srcs c) in
  go_ok c &&
  forallb (fun out => match region out with
                      | Some r => match parse_attrs r with Some got => pairs_eqb got want | None => false end
                      | None => false
                      end) (go_outs c) &&
  (* the independent reader (it lower-cases names and normalises CR, so values with CR are not compared) *)
  tok_ok c &&
  (existsb (fun nv => has_cr (snd nv)) want ||
   forallb (fun got => pairs_eqb got (map (fun nv => (lower_name (fst nv), snd nv)) want)) (tok_attrs c)).

Definition agree05 (c : case05) : bool :=
  match model_attrs (srcs c) with
  | Some (Some m) => go_ok c && forallb (beqb (pre ++ m ++ post)) (go_outs c)
  | Some None => go_panic c
  | None => false
  end.

(* F-C05-d: an unescaped attribute (name!=value) whose value is not a string literal *)
Definition finding_d (s : asrc) : bool :=
  match s with
  | SrcAttr _ v false lit => negb (lit && match v with AOne (SStr _) => true | _ => false end)
  | _ => false
  end.

Definition judge (c : case05) : nat :=
  match model_attrs (srcs c) with
  | None => v_unmodelled
  | Some _ =>
    if existsb finding_d (srcs c) && agree05 c then v_known 1
    (* F-C05-i: the same class value twice (.a.a): __attrs drops the verbatim duplicate, the property keeps every
       class value in source order *)
    else if forallb src_ok (srcs c) && negb (tmp_nodupb (class_recs (lower (srcs c)))) && agree05 c
            && negb (oracle05 c) then v_known 2
    else verdict (dom_C05 (srcs c)) (oracle05 c) (agree05 c)
  end.

(* diagnostics for replays *)
Definition model_says (c : case05) := (model_attrs (srcs c), attr_spec (srcs c), dom_C05 (srcs c)).
