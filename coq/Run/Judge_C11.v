(* Executable judge for C11 correspondence cases: a history of Go data values rendered one after the other in
   one process on one engine (often a single value), several paths rendered against each value. *)
From PV Require Import Base.Bytes Base.Escape Run.Verdict.
From PV Require Export Models.Convert.   (* case files name the constructors of gv / step *)

Record pobs := {
  po_steps : list step;
  po_raw   : bool;    (* != path *)
  po_class : nat;     (* what Go did: 0 = output, 1 = execution error / panic, 2 = anything else (load error ...) *)
  po_out   : bytes;   (* output bytes when po_class = 0 *)
}.

Record case11 := { data : gv; paths : list pobs }.    (* one value of the history *)

(* the property itself on Go's own output, computed from S only: the leaf the path reaches in Go, printed;
   nothing when the path reaches nothing; never an error *)
Definition oracle11 (d : gv) (po : pobs) : bool :=
  Nat.eqb (po_class po) 0 &&
  beqb (po_out po) (render (po_raw po) (leaf_text (go_path d (po_steps po)))).

Definition agree11 (d : gv) (po : pobs) : bool :=
  match run d (po_steps po) (po_raw po) with
  | ROk t => Nat.eqb (po_class po) 0 && beqb t (po_out po)
  | REr => Nat.eqb (po_class po) 1
  | RUnmod => false
  end.

Definition judge_path (d : gv) (po : pobs) : nat :=
  let p := po_steps po in
  let raw := po_raw po in
  match run d p raw with
  | RUnmod => v_unmodelled
  | _ =>
    let ok := oracle11 d po in
    let ag := agree11 d po in
    if dom_C11 d p raw then verdict true ok ag
    else if ag then
      if ok then v_agree
      else if negb (fold_free d p) then v_known 1       (* F-C11-a *)
      else if top_method d p then v_known 2             (* F-C11-b *)
      else if raw_undefined d p raw then v_known 3      (* F-C11-c *)
      else v_agree                                      (* off-domain quirk, reproduced by the model *)
    else v_drift
  end.

(* one code per case: violation > drift > known (smallest class) > unmodelled > agree *)
Definition rank (v : nat) : nat :=
  if Nat.eqb v 1 then 1000 else if Nat.eqb v 2 then 900
  else if Nat.leb 10 v then 800 - v else if Nat.eqb v 3 then 10 else 0.

Definition worse (a b : nat) : nat := if Nat.ltb (rank a) (rank b) then b else a.

Definition judge_value (c : case11) : nat :=
  fold_left (fun acc po => worse acc (judge_path (data c) po)) (paths c) v_agree.

(* a history is judged value by value: the spec of a value knows nothing of what was rendered before it
   (Props/C11.v, C11_history), so whatever an earlier conversion leaves behind can only show as a violation
   or drift on a later value *)
Definition judge (h : list case11) : nat :=
  fold_left (fun acc c => worse acc (judge_value c)) h v_agree.

(* diagnostics for replays: per value, per path (model, spec text, in-domain, verdict) *)
Definition explain_value (c : case11) :=
  map (fun po => (run (data c) (po_steps po) (po_raw po),
                  render (po_raw po) (leaf_text (go_path (data c) (po_steps po))),
                  dom_C11 (data c) (po_steps po) (po_raw po),
                  judge_path (data c) po)) (paths c).
Definition explain (h : list case11) := map explain_value h.
